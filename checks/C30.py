import os
import sys

sys.path.insert(0, os.path.dirname(__file__))
import _lssync


def run(ctx):
    _lssync.run(ctx, "C30")
