"""C38: concurrent read-only queries on one shared analysis equal the sequential results; components are Send + Sync.

1. TLC model-checks spec/ConcQuery.tla (a read-only operation returns Eval(db, q) and leaves db unchanged =>
   every interleaving equals the sequential execution) and, by seeded simulation of its generator actions,
   picks the configurations: workspace, query multiset, assignment to <= 8 threads.
2. vh_anaq conc runs each configuration on the real analysis: sequential reference, then real threads sharing one
   Arc<EmmyLuaAnalysis> (barrier start, several rounds); results, index sizes and panics are compared.
3. The separate harness package vh-sendsync (compile-time `assert_send_sync::<T>()` for every public component of
   the analysis) is built; a component that is not Send + Sync on its own fails that build = violation.
Data races that do not change a result are outside this technique (no race detector is used).
"""
import fcntl
import json
import os
import re
import subprocess
import sys

sys.path.insert(0, os.path.dirname(__file__))
import vlib  # noqa: E402

ROOT = "/vh/c38"
FILES = {"a": "a.lua", "b": "b.lua", "c": "c.lua"}


def prog(kind, f):
    if kind == "P1":
        return """---@class C_%(f)s
---@field n integer
---@field name string
local C_%(f)s = {}
---@param x integer
---@return string
function C_%(f)s:get(x) return self.name .. x end
---@generic T
---@param v T
---@return T[]
local function wrap(v) return { v } end
local w = wrap(C_%(f)s)
local s = w[1]:get(1)
G_%(f)s = s
return C_%(f)s
""" % {"f": f}
    if kind == "P2":
        return """local a = require("a")
local b = require("b")
local c = require("c")
---@type table<string, integer>
local map = {}
for k, v in pairs(map) do print(k, v, a, b, c) end
---@alias Id_%(f)s string|integer
---@param id Id_%(f)s
local function f(id) if type(id) == "string" then return #id else return id + 1 end end
print(f("x"), undefined_%(f)s, a.n, b.n, c.n)
return { f = f, n = 1 }
""" % {"f": f}
    if kind == "P3":
        return """---@enum E_%(f)s
local E = { A = 1, B = 2 }
---@overload fun(a: string): string
---@param a integer
---@return integer
local function g(a) return a end
local t = { x = g(1), y = g("s"), z = E.A }
---@class D_%(f)s: C_a
local D = {}
function D.new() return setmetatable({}, { __index = D }) end
local d = D.new()
print(t.x, t.y, t.z, d.n, d:get(2))
return D
""" % {"f": f}
    raise vlib.ToolError("unknown program kind %r" % kind)


def build_sendsync(ctx):
    """Build the compile-time assertion package; classify a failure."""
    os.makedirs(os.path.join(vlib.HARNESS, "target"), exist_ok=True)
    lock = open(os.path.join(vlib.HARNESS, "target", ".vbuild.lock"), "w")
    fcntl.flock(lock, fcntl.LOCK_EX)
    try:
        p = subprocess.run(["cargo", "build", "--offline", "--release", "-p", "vh-sendsync"], cwd=vlib.HARNESS,
                           env=vlib.cargo_env(), stdout=subprocess.PIPE, stderr=subprocess.STDOUT, text=True, timeout=3000)
    finally:
        fcntl.flock(lock, fcntl.LOCK_UN)
        lock.close()
    if p.returncode == 0:
        src = open(os.path.join(vlib.HARNESS, "vh-sendsync", "src", "main.rs")).read()
        n = len(re.findall(r"assert_send_sync::<", src))
        ctx.note("send_sync_assertions_compiled", n)
        return
    out = p.stdout
    bad = re.findall(r"error\[E0277\]: `([^`]+)` cannot be (sent|shared) between threads safely", out)
    if not bad:
        raise vlib.ToolError("vh-sendsync build failed for another reason than Send/Sync:\n" + out[-5000:])
    # which asserted type is affected: rustc names it in "required by a bound introduced by this call" notes
    inside = sorted(set(re.findall(r"within `([^`]+)`", out)))
    asserted = sorted(set(re.findall(r"assert_send_sync::<([A-Za-z0-9_:]+)>", out)))
    for t in (asserted or ["?"]):
        ctx.violation("C38/send-sync/%s" % t, {
            "what": "component type is not Send + Sync on its own; EmmyLuaAnalysis only is by `unsafe impl`",
            "offending": sorted(set("%s cannot be %s" % (a, b) for a, b in bad)), "within": inside[:10],
            "rustc": out[-4000:]})


def run(ctx):
    # ---- 1. model + configurations ------------------------------------------------------------------
    res = vlib.tlc("ConcQuery", "ConcQuery_mc", workers=ctx.pick(2, 4), timeout=900)
    ctx.add_tlc(res)
    if res.violated:
        raise vlib.ToolError("ConcQuery model violates %s\n%s" % (res.violated, res.trace_text[:2000]))
    n = ctx.pick(30, 300)
    sim = vlib.tlc("ConcQuery", "ConcQuery_sim", workers=1, simulate="num=%d" % n, depth=70, seed=ctx.seed, timeout=1800)
    ctx.cov["transitions"] += sim.generated
    if sim.violated:
        raise vlib.ToolError("ConcQuery simulation violates %s" % sim.violated)
    confs = {}
    for tag, c in sim.json:
        if tag == "CASE":
            confs.setdefault(json.dumps([c["ws"], c["threads"]], sort_keys=True), c)
    if not confs:
        raise vlib.ToolError("ConcQuery simulation produced no configuration")
    # ---- 2. replay ---------------------------------------------------------------------------------------
    vlib.build(["vh-analysis"])
    path = os.path.join(ctx.work, "conc.ndjson")
    cases = []
    for i, (k, c) in enumerate(sorted(confs.items(), key=lambda kv: json.dumps(kv[1]["ws"], sort_keys=True) + kv[0])):
        files = [[ROOT + "/" + FILES[f], prog(c["ws"][f], f)] for f in sorted(FILES)]
        threads = [[{"k": q["k"], "f": ROOT + "/" + FILES[q["f"]]} for q in t] for t in c["threads"] if t]
        cases.append({"id": i, "std": True, "main": ROOT, "libs": [], "emmyrc": None, "files": files,
                      "threads": threads, "repeat": ctx.pick(3, 6), "conf": c})
    with open(path, "w") as fo:
        for c in cases:
            fo.write(json.dumps({k: v for k, v in c.items() if k != "conf"}) + "\n")
    p = vlib.run_bin("vh_anaq", ["conc", path], timeout=ctx.pick(900, 3000), check=False)
    out = {o["id"]: o for o in vlib.ndjson(p.stdout) if "id" in o}
    if p.returncode != 0:
        # the whole process died (abort / segfault) while threads shared the analysis: attribute to the first case without result
        missing = [c for c in cases if c["id"] not in out]
        first = missing[0] if missing else cases[-1]
        ctx.violation("C38/process-died/rc=%s" % p.returncode, {"case": first["conf"], "stderr": p.stderr[-3000:]})
    seen = {}
    for c in cases:
        o = out.get(c["id"])
        if o is None:
            continue
        nthreads = len(c["threads"])
        files_used = {q["f"] for t in c["threads"] for q in t}
        ctx.count(json.dumps([c["conf"]["ws"], c["conf"]["threads"]], sort_keys=True), n=o.get("evaluations", 0),
                  nontrivial=nthreads >= 3 and len(files_used) >= 2)
        probs = []
        if "build_panic" in o:
            probs.append(("build-panic", o["build_panic"]))
        if o.get("seq_unstable"):
            ctx.divergence("sequential result of %s not deterministic; cannot serve as reference" % o["seq_unstable"][:2])
        for m in o.get("mismatches", []):
            kind = "panic-only-concurrent" if m["panic_conc"] and not m["panic_seq"] else "result-differs"
            probs.append(("%s/%s" % (kind, m["k"]), m))
        if o.get("sizes_changed"):
            probs.append(("index-size-changed/" + o["sizes_changed"][0]["index"], o["sizes_changed"]))
        if o.get("thread_panics"):
            probs.append(("thread-panic", o["thread_panics"]))
        if not probs and "build_panic" not in o:
            ctx.validated(1)
        for kind, info in probs:
            seen.setdefault("C38/" + kind, []).append({"ws": c["conf"]["ws"], "threads": c["conf"]["threads"],
                                                        "files": dict((f[0], f[1]) for f in c["files"]), "observed": info})
        if c["id"] < 3:
            ctx.sample({"ws": c["conf"]["ws"], "threads": c["conf"]["threads"], "evaluations": o.get("evaluations"),
                        "distinct_queries": o.get("distinct_queries")})
    for sig, items in sorted(seen.items()):
        ctx.violation(sig, {"count": len(items), "first": items[0], "more": items[1:3]})
    # ---- 3. Send + Sync of the components -------------------------------------------------------------------
    build_sendsync(ctx)
    ctx.rule("configuration = (program kind per file, query multiset, assignment to 2..8 threads) produced by seeded TLC "
             "simulation of ConcQuery's generator actions; evaluation = one query executed on a thread while others run; "
             "non-trivial = >= 3 threads touching >= 2 files")
    ctx.assume("a data race that does not change a result, a panic or an index size is invisible to this check")
