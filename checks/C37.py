"""C37 doc-comment markup highlighting: DescMarkup.tla generates the bodies and judges the recorded results."""
import json
import os
import random

import vlib

SUB = {"<nl>": "\n--- ", "<e2>": "é", "<e4>": "😀"}
CHUNK = 60000


def render(part):
    for k, v in SUB.items():
        part = part.replace(k, v)
    return part


def concretise(i, c):
    head = "--- " if c["form"] == "plain" else "---@param x string "
    parts = [render(p) for p in c["parts"]]
    text = head + "".join(parts) + "\nlocal function f(x) end\n"
    offs = [len(head.encode())]
    for p in parts:
        offs.append(offs[-1] + len(p.encode()))
    cursors = [(-1 if k < 0 else offs[k]) for k in c["cursors"]]
    return {"id": i, "text": text, "cursors": [None if k < 0 else k for k in cursors]}


def record(ctx, conc):
    """run the recorder; a process abort (non-unwinding panic, stack overflow) is data: it is attributed to the
    case that was being processed, and the recorder is restarted after it"""
    records, aborted, start = [], [], 0
    while start < len(conc):
        cpath = os.path.join(ctx.work, "cases_%d.ndjson" % start)
        with open(cpath, "w") as f:
            for c in conc[start:]:
                f.write(json.dumps(c) + "\n")
        p = vlib.run_bin("vh_descmarkup", [cpath], timeout=ctx.pick(900, 3000), check=False)
        out = vlib.ndjson(p.stdout)
        if p.returncode == 0 and any("summary" in o for o in out):
            records += [o for o in out if "id" in o]
            break
        begun = [o["begin"] for o in out if "begin" in o]
        if not begun or p.returncode == 0:
            raise vlib.ToolError("vh_descmarkup rc=%s without attributable case\n%s" % (p.returncode, p.stderr[-2000:]))
        offender = begun[-1]
        records += [o for o in out if "id" in o and o["id"] != offender]
        aborted.append({"id": offender, "rc": p.returncode, "stderr": p.stderr[-600:]})
        if len(aborted) >= 20:
            break
        start = offender + 1
    return records, aborted


def judge(ctx, records):
    """TLC evaluates the result predicates of DescMarkup.tla on every record; returns the failing verdicts"""
    verdicts = []
    for n in range(0, len(records), CHUNK):
        chunk = records[n:n + CHUNK]
        path = os.path.join(ctx.work, "results_%d.ndjson" % n)
        with open(path, "w") as f:
            for r in chunk:
                f.write(json.dumps(r) + "\n")
        res = vlib.tlc("DescMarkup", "DescMarkup_judge", workers=ctx.pick(4, 8), timeout=ctx.pick(900, 3000),
                       env={"DESC_RESULTS": path})
        ctx.add_tlc(res)
        if res.violated:
            raise vlib.ToolError("DescMarkup judge run failed: %s\n%s" % (res.violated, res.trace_text[:2000]))
        if res.distinct != len(chunk):
            raise vlib.ToolError("DescMarkup judged %d of %d records" % (res.distinct, len(chunk)))
        for t, v in res.json:
            if t == "VERDICT":
                v["record"] = chunk[v["idx"] - 1]
                verdicts.append(v)
    return verdicts


def run(ctx):
    res = vlib.tlc("DescMarkup", ctx.pick("DescMarkup_q", "DescMarkup_t"), workers=ctx.pick(4, 8), timeout=ctx.pick(900, 3000))
    ctx.add_tlc(res)
    cases = sorted((c for t, c in res.json if t == "CASE"), key=lambda c: json.dumps(c, sort_keys=True))
    if len(cases) != res.distinct or not cases:
        raise vlib.ToolError("case extraction lost cases: %d printed, %d distinct states" % (len(cases), res.distinct))
    vlib.build(["vh-parser"])
    conc = [concretise(i, c) for i, c in enumerate(cases)]
    records, aborted = record(ctx, conc)
    for r in records:
        r["cursor"] = -1 if r["cursor"] is None else r["cursor"]
    # bodies like "@" or "-----" alone do not form a description node: nothing to highlight, nothing to judge
    ctx.note("cases_without_description_node", len(cases) - len({r["id"] for r in records}))
    if os.environ.get("VERIF_CORRUPT"):  # binding self-test: one corrupted recorded range must be rejected by TLC
        victim = next(r for r in records if r["items"])
        victim["items"][0][1] = victim["hi"] + 1
    verdicts = judge(ctx, records)
    ctx.cov["evaluations"] = len(records)
    with_items = {r["id"] for r in records if r["items"]}
    for i, c in enumerate(cases):
        ctx.count(("body", tuple(c["atoms"]), c["form"]), n=0, nontrivial=len(c["atoms"]) >= 2 and i in with_items)
    ctx.validated(len(records))
    ctx.note("records_with_items", sum(1 for r in records if r["items"]))
    ctx.note("items_judged", sum(len(r["items"]) for r in records))
    ctx.rule("every body of <= 2 (quick) / 3 (thorough) markup atoms out of 43 (fences, roles, directives, links, emphasis and "
             "code runs, table rows, headings, lists, multi-byte text, unterminated variants, dash lines) and every body "
             "of 3 / 4 atoms whose inner atoms are space / line break, as a plain comment and as a @param description, "
             "plus the multi-line family (first line = unterminated opener combined with a line-final closed inline span, "
             "line separator, following line), "
             "x {Markdown, MyST, reStructuredText} x {no cursor, cursor at the end}: the items returned by "
             "emmylua_parser_desc::parse are recorded and judged by TLC with the predicates NoPanic / InBounds / Sorted; "
             "non-trivial = >= 2 atoms and at least one item returned")
    rnd = random.Random(ctx.seed)
    for r in rnd.sample(records, min(4, len(records))):
        ctx.sample({"text": conc[r["id"]]["text"], "flavour": r["flavour"], "cursor": r["cursor"], "bounds": [r["lo"], r["hi"]],
                    "items": r["items"][:12]})
    ctx.assume("'inside the comment's description' = from the comment start marker of the description's first line to the "
               "end of the description node; 'sorted' = non-decreasing start offsets")
    # one finding per failure kind x flavour; the atoms of the SHORTEST failing body name the input class
    def atom_class(atoms):
        return "+".join(sorted(set(x for x in atoms if x not in ("sp", "nl", "txt")))) or "plain"

    groups = {}
    for a in aborted:
        groups.setdefault(("abort", "all"), []).append(
            (cases[a["id"]]["atoms"], {"text": conc[a["id"]]["text"], "cursors": conc[a["id"]]["cursors"],
                                      "exit_status": a["rc"], "stderr": a["stderr"]}))
    for v in verdicts:
        r = v["record"]
        if not v["nopanic"]:
            kind = "panic"
        elif not v["inbounds"]:
            kind = "out-of-bounds"
        elif not v["sorted"]:
            kind = "unsorted"
        else:
            ctx.divergence("range not on a character boundary: %s flavour=%s items=%s" % (
                json.dumps(conc[r["id"]]["text"]), r["flavour"], json.dumps(r["items"])[:300]))
            continue
        groups.setdefault((kind, r["flavour"]), []).append(
            (cases[r["id"]]["atoms"], {"text": conc[r["id"]]["text"], "flavour": r["flavour"], "cursor": r["cursor"],
                                      "bounds": [r["lo"], r["hi"]], "items": r["items"], "panic": r["msg"]}))
    for (kind, flavour), ds in sorted(groups.items()):
        ds.sort(key=lambda d: (len(d[0]), d[0]))
        sig = "C37/%s/%s/%s" % (kind, flavour, atom_class(ds[0][0]))
        ctx.violation(sig, {"count": len(ds), "first": ds[0][1], "more": [d[1] for d in ds[1:3]]})
