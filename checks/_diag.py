"""Shared glue for C19 / C20 / C21: DiagRules.tla layouts -> Lua text; running vh_diag; LSP position helpers."""
import json
import os

import vlib

CODE_NAME = {"X": "undefined-global", "Y": "deprecated"}
# written code lists (DiagRules!CodeLists): U = a name that is no diagnostic code of this analyzer (a LuaLS code)
CODE_LIST = {"X": "undefined-global", "Y": "deprecated", "U": "lowercase-global", "XU": "undefined-global, lowercase-global"}
STMT = {"X": "foo()", "Y": "depr()"}
TAG = {"next": "disable-next-line", "line": "disable-line", "block": "disable"}
PRELUDE = "\n---@deprecated\nfunction depr() end\n"


def unpack_rows(rows):
    return [{"k": r[0], "ind": int(r[1]), "cm": None if r[2] == "-" else
             {"kind": r[2], "codes": r[3], "pre": int(r[4]), "post": int(r[5])}} for r in rows]


def comment_text(cm, live=True):
    head = "---@diagnostic " if live else "--- diagnostic "
    t = head + TAG[cm["kind"]]
    if cm["codes"] != "all":
        t += ": " + CODE_LIST[cm["codes"]]
    return t


def render_layout(rows, live=True):
    """-> (text, {row index (1-based): physical line (0-based)})."""
    lines, where = [], {}
    for i, r in enumerate(rows, start=1):
        k = r["k"]
        if k in ("X", "Y"):
            where[i] = len(lines)
            s = " " * r["ind"] + STMT[k]
            if r["cm"]:
                s += " " + comment_text(r["cm"], live)
            lines.append(s)
        elif k == "C":
            cm = r["cm"]
            lines += ["--- note"] * cm["pre"]
            where[i] = len(lines)
            lines.append(comment_text(cm, live))
            lines += ["--- more"] * cm["post"]
        elif k == "blank":
            where[i] = len(lines)
            lines.append("")
        else:
            where[i] = len(lines)
            lines.append(k)
    text = "\n".join(lines) + "\n"
    if any(r["k"] == "Y" for r in rows):
        text += PRELUDE
    return text, where


def run_diag(ctx, cases, name="cases", timeout=1200):
    path = os.path.join(ctx.work, name + ".ndjson")
    with open(path, "w") as f:
        for c in cases:
            f.write(json.dumps(c) + "\n")
    p = vlib.run_bin("vh_diag", [path], timeout=timeout)
    out = vlib.ndjson(p.stdout)
    summary = [o["summary"] for o in out if "summary" in o]
    if not summary or summary[0]["cases"] != len(cases):
        raise vlib.ToolError("vh_diag: missing or short summary\n" + p.stderr[-2000:])
    return {o["id"]: o for o in out if "id" in o}


def cfg_with(ctx, cfg, consts, tag):
    import re
    src = open(os.path.join(vlib.SPEC, cfg + ".cfg")).read()
    for k, v in consts.items():
        src, n = re.subn(r"(?m)^(\s*%s\s*=\s*).*$" % re.escape(k), lambda m: m.group(1) + v, src)
        if n != 1:
            raise vlib.ToolError("constant %s not found in %s.cfg" % (k, cfg))
    dst = os.path.join(ctx.work, "%s_%s" % (cfg, tag))
    with open(dst + ".cfg", "w") as f:
        f.write(src)
    return dst


def run_tlc(ctx, module, cfg, consts, tag, **kw):
    path = cfg_with(ctx, cfg, consts, tag)
    md = os.path.join(vlib.VERIF, ".tlc", "%s_%s_%s_%d" % (module, cfg, tag, os.getpid()))
    return vlib.tlc(module, path, metadir=md, **kw)


def one_file_case(cid, text, emmyrc=None, std=False, path="main/a.lua"):
    return {"id": cid, "emmyrc": emmyrc, "std": std, "files": [{"path": path, "text": text}], "query": [path]}


def reported(o, path="main/a.lua"):
    """set of (line, character, code) of a vh_diag result (None if diagnose_file returned None)."""
    r = o["results"][path]
    if r is None:
        return None
    return {(d["r"][0], d["r"][1], d["code"]) for d in r}


# ------------------------------------------------------------------------------------------------
# LSP position helpers (independent of the code under test): lines end at \r\n, \n or \r; UTF-16 units
# ------------------------------------------------------------------------------------------------
def line_starts(text):
    """byte offsets (utf-8) at which lines start, and the byte offset where each line's content ends."""
    b = text.encode("utf-8")
    starts, ends = [0], []
    i = 0
    while i < len(b):
        c = b[i]
        if c == 0x0D:
            ends.append(i)
            i += 2 if i + 1 < len(b) and b[i + 1] == 0x0A else 1
            starts.append(i)
        elif c == 0x0A:
            ends.append(i)
            i += 1
            starts.append(i)
        else:
            i += 1
    ends.append(len(b))
    return b, starts, ends


def u16len(bs):
    return len(bs.decode("utf-8", errors="replace").encode("utf-16-le")) // 2


def line_table(text):
    b, starts, ends = line_starts(text)
    return [u16len(b[s:e]) for s, e in zip(starts, ends)]


def byte_to_pos(text, off):
    """LSP (line, character) of a byte offset (clamped to the line content when inside a terminator)."""
    b, starts, ends = line_starts(text)
    import bisect
    ln = bisect.bisect_right(starts, off) - 1
    e = min(off, ends[ln])
    return ln, u16len(b[starts[ln]:e])
