import os, sys
sys.path.insert(0, os.path.dirname(__file__))
import _analysisdb


def run(ctx):
    _analysisdb.run(ctx, "C10")
