"""C34 paths <-> URIs: UriPath.tla universe replayed into file_path_to_uri / uri_to_file_path / Vfs."""
import json
import os
import random

import vlib

CH = {"e2": "é"}


def join(pieces):
    return "".join(CH.get(x, x) for x in pieces)


def run(ctx):
    res = vlib.tlc("UriPath", ctx.pick("UriPath_q", "UriPath_t"), workers=ctx.pick(4, 8), timeout=ctx.pick(600, 3000))
    ctx.add_tlc(res)
    if res.violated:
        raise vlib.ToolError("UriPath: the reference decoder does not invert an encoding style (%s)\n%s"
                             % (res.violated, res.trace_text[:3000]))
    paths = sorted((c for t, c in res.json if t == "PATH"), key=lambda c: json.dumps(c, sort_keys=True))
    if len(paths) != res.distinct:
        raise vlib.ToolError("case extraction lost cases: %d printed, %d distinct states" % (len(paths), res.distinct))
    sim = vlib.tlc("UriPath", "UriPath_vfs", workers=1, timeout=600, simulate="num=%d" % ctx.pick(40, 400), depth=7,
                   seed=ctx.seed)
    ctx.add_tlc(sim)
    if sim.violated:
        raise vlib.ToolError("UriPath (vfs mode) violates %s\n%s" % (sim.violated, sim.trace_text[:3000]))
    hists, seen = [], set()
    for t, h in sim.json:
        k = json.dumps(h, sort_keys=True)
        if t == "HIST" and k not in seen:
            seen.add(k)
            hists.append(h)
    hists.sort(key=lambda h: json.dumps(h, sort_keys=True))
    if not hists:
        raise vlib.ToolError("UriPath (vfs mode) printed no histories")
    if os.environ.get("VERIF_CORRUPT"):  # binding self-test: one wrong expected id must be rejected
        hists[0][-1]["expect"] += 5
    vlib.build(["vh-analysis"])
    cpath = os.path.join(ctx.work, "cases.ndjson")
    with open(cpath, "w") as f:
        for c in paths:
            f.write(json.dumps({"kind": "path", "path": join(c["path"]),
                                "uris": {st: "file://" + join(u) for st, u in c["uris"].items()}}) + "\n")
        for h in hists:
            f.write(json.dumps({"kind": "hist", "steps": [{"op": s["op"], "uri": "file://" + join(s["uri"]),
                                                          "expect": s["expect"]} for s in h]}) + "\n")
    p = vlib.run_bin("vh_uripath", [cpath], timeout=ctx.pick(600, 3000))
    out = vlib.ndjson(p.stdout)
    summary = [o["summary"] for o in out if "summary" in o]
    if not summary:
        raise vlib.ToolError("vh_uripath produced no summary\n" + p.stderr[-2000:])
    ctx.cov["evaluations"] = summary[0]["evaluations"]
    for c in paths:
        ctx.count(("path", join(c["path"])), n=0, nontrivial=len(c["path"]) >= 3 and any(x not in ("/", "a") for x in c["path"]))
    for h in hists:
        interned = set()
        nontrivial = False
        for s in h:
            if s["op"] == "file_id":
                interned.add(s["path"])
            elif s["path"] in interned:
                nontrivial = True
        ctx.count(("hist", json.dumps(h, sort_keys=True)), n=0, nontrivial=nontrivial)
    ctx.validated(len(paths) + len(hists))
    ctx.note("paths", len(paths))
    ctx.note("vfs_histories", len(hists))
    ctx.cov["exhaustive"] = True
    ctx.rule("every absolute path of <= 3 (quick) / 4 (thorough) tokens over {a, space, %, #, ?, 2-byte char, +, the "
             "literal text %61} split into components, each with six alternative spellings of its URI (literal or "
             "percent-encoded, upper/lower hex, over-encoded, raw), enumerated by TLC; plus TLC-simulated histories of "
             "file_id/get_file_id/remove_file over alternative URIs of three paths with the expected ids; non-trivial = "
             "path with a character other than 'a' and >= 2 characters / history that looks up or removes an interned path")
    rnd = random.Random(ctx.seed)
    for c in rnd.sample(paths, min(4, len(paths))):
        ctx.sample({"path": join(c["path"]), "uris": {st: "file://" + join(u) for st, u in c["uris"].items()}})
    ctx.sample({"history": [[s["op"], "file://" + join(s["uri"]), s["expect"]] for s in hists[0]]})
    ctx.assume("a URI denotes the path obtained by percent-decoding its path once (RFC 3986); the raw spelling is "
               "accepted because lsp_types::Uri is a WHATWG url::Url")
    # one finding per failure kind x URI spelling; the classes of the SHORTEST failing path name the input class
    groups = {}
    for o in out:
        if "fail" not in o:
            continue
        style = o.get("detail", {}).get("style")
        groups.setdefault((o["fail"], style), []).append(o)
    for (kind, style), fs in sorted(groups.items(), key=lambda kv: (kv[0][0], kv[0][1] or "")):
        fs.sort(key=lambda o: (len(o.get("path") or ""), o.get("path") or ""))
        text = fs[0].get("path") or " ".join(s["uri"] for s in fs[0].get("steps", []))
        cls = []
        for ch, name in (("%61", "literal-percent-seq"), ("%", "percent"), ("#", "hash"), ("?", "question"), (" ", "space"),
                         ("é", "non-ascii"), ("+", "plus")):
            if ch in text and not (name == "percent" and "literal-percent-seq" in cls):
                cls.append(name)
        sig = "C34/%s/%s%s" % (kind, "+".join(cls) or "plain", "/" + style if style else "")
        ctx.violation(sig, {"count": len(fs), "first": fs[0], "more": fs[1:4]})
