"""C17: rendered types read back as the same type.

TypeRender.tla enumerates the types of the property's sub-grammar (depth <= 3, within the renderer's size
limits, checked by TLC) with their canonical annotation syntax and normal form, and a literal alphabet
(TypeAlgebra!ChTab / StrTab / IntTab: string literals as code-point sequences, integer literals) under every constructor.  Replay:
t1 = ty(Syn(t)); text = humanize_type(t1, RenderLevel::Documentation); t2 = ty(text).
Verdict: normal form of t2 == normal form of t1 (modulo union member order and alias expansion).
Binding of the model: normal form of t1 == Norm(t) (else the case is recorded as a divergence and not judged).
"""
import json
import os
import random
import sys

sys.path.insert(0, os.path.dirname(__file__))
import _typealg
import vlib


def run(ctx):
    cfg = ctx.pick("TypeRender_q", "TypeRender_t")
    res = vlib.tlc("TypeRender", cfg, workers=ctx.pick(4, 8), timeout=ctx.pick(600, 3000))
    ctx.add_tlc(res)
    if res.violated:
        raise vlib.ToolError("TypeRender violates its own invariant %s (a generated term exceeds the renderer's size "
                             "limits or the depth bound):\n%s" % (res.violated, res.trace_text[:2000]))
    world = [c for t, c in res.json if t == "WORLD"][0]
    cases = [c for t, c in res.json if t == "CASE"]
    if len(cases) != res.distinct:
        raise vlib.ToolError("case extraction lost cases: %d printed, %d distinct states" % (len(cases), res.distinct))
    for i, c in enumerate(cases):
        c["id"] = i
    vlib.build(["vh-analysis"])
    path = _typealg.write_cases(ctx, "render.ndjson", {"prelude": _typealg.prelude(world, fields=False)},
                                [{"id": c["id"], "s": c["s"]} for c in cases])
    out, summary = _typealg.run_harness("render", path, ctx.pick(900, 3000))
    results = {o["id"]: o for o in out if "id" in o}
    if len(results) != len(cases):
        raise vlib.ToolError("render replay lost cases")
    canon = _typealg.make_canon(world.get("aliasnorm", {}))
    by_sig = {}
    failing = []
    judged = 0
    unbound = 0
    not_judged = 0
    for c in cases:
        r = results[c["id"]]
        if "panic" in r:
            by_sig.setdefault("C17/render-panic/" + c["skel"], []).append({"syntax": c["s"], "panic": r["panic"]})
            continue
        if not c["judged"]:
            not_judged += 1
            continue
        n = canon(c["norm"])
        d1 = canon(r["d1"])
        if d1 != n:
            unbound += 1
            if len(ctx.divergences) < 20:
                ctx.divergence("ty(%r) is %s, the specification's normal form is %s" % (c["s"], d1, n))
            continue
        judged += 1
        ctx.count(c["s"], nontrivial=c["depth"] >= 1)
        d2 = canon(r["d2"]) if r["single_line"] else None
        if d2 != d1:
            failing.append((c, {"annotation": c["s"], "rendered": r["rendered"],
                                "expected_readback_normal_form": d1, "observed_readback_normal_form": d2}))
    # Signature = the mechanism features (from the specification) of the failing term.  A failing term whose
    # features include those of a smaller failing term (e.g. a union of two literals of which one alone already
    # fails) is filed under the smaller term's signature instead of opening a new one.
    failing.sort(key=lambda cf: (len(cf[0]["feat"]), len(cf[0]["s"]), cf[0]["s"]))
    feat_sigs = []
    for c, f in failing:
        fs = set(c["feat"])
        if not fs:
            by_sig.setdefault("C17/roundtrip/shape/" + c["skel"], []).append(f)
            continue
        home = next((k for k in feat_sigs if k <= fs), None)
        if home is None:
            home = frozenset(fs)
            feat_sigs.append(home)
        by_sig.setdefault("C17/roundtrip/" + "+".join(sorted(home)), []).append(f)
    ctx.validated(judged)
    ctx.note("types", len(cases))
    ctx.note("types_judged", judged)
    ctx.note("types_not_bound_to_model", unbound)
    ctx.note("types_display_only_at_top_level", not_judged)
    ctx.rule("every type of the sub-grammar enumerated by TLC up to depth 3 (unions, optionals, arrays, map and record "
             "tables over primitives, literals, class/alias/enum references) plus the specification's literal alphabet "
             "(string literals given as code-point sequences: quotes, backslashes, newline/tab, control characters before "
             "letters and digits, non-ASCII, empty; integer literals zero/negative/large) bare and under every constructor, "
             "rendered at RenderLevel::Documentation and read back through `---@type`; distinct = distinct annotation "
             "texts; non-trivial = depth >= 1")
    ctx.assume("string literal values are compared as code-point sequences (the harness reports the code points of the "
               "analyser's literal, the specification lists them)")
    ctx.assume("equality of the read-back type is judged on normal forms: union members as a set, an alias reference "
               "equal to its origin (`Al?` is stored expanded by the analyser)")
    ctx.assume("a top-level reference to a type with members (the enum) is rendered as an expanded multi-line view at "
               "full detail, which is display-only syntax and outside the property's domain; nested references are judged")
    rnd = random.Random(ctx.seed)
    for c in rnd.sample(cases, min(6, len(cases))):
        ctx.sample({"annotation": c["s"], "rendered": results[c["id"]].get("rendered")})
    for sig, fs in sorted(by_sig.items()):
        fs.sort(key=lambda f: len(f.get("annotation", f.get("syntax", ""))))
        ctx.violation(sig, {"count": len(fs), "first": fs[0], "more": fs[1:4], "world": world})
