"""C07: range formatting only rewrites code around the selection.

FmtGen.tla documents -> token boundaries from the real parser -> FmtSel.tla enumerates every selection ->
real reformat_range for each -> FmtTokens.tla judges (a) `cover` runs: region inside the document, covers the
selection, nothing for documents with syntax errors; (b) `fmt` runs: (document tokens, spliced-document tokens)
must be connected by allowed normalisations only, and the spliced document parses."""
import json
import os
import sys

sys.path.insert(0, os.path.dirname(__file__))
import _fmt  # noqa: E402
import vlib  # noqa: E402


def pick_docs(ctx, cases, out):
    docs = []
    max_tok = ctx.pick(22, 60)
    want = ctx.pick(8, 50)
    seen = set()
    # documents with a multi-line token (long string / long comment / code fence) first: range formatting strips and
    # re-applies indentation line by line, which is where such tokens are at risk
    multi = [c for c in cases if ("[[\n" in c["text"] or "```" in c["text"]) and not c["src"].startswith("ml/")]
    rest = [c for c in cases if c not in multi]
    for c in multi[: ctx.pick(3, 15)] + rest:
        o = out[c["id"]]
        if "in" not in o or c["text"] in seen:
            continue
        if c["src"].startswith("ml/"):
            # FmtSelDocs.tla documents: editor-style selections (carets, token spans, whole lines), see FmtSel.tla
            seen.add(c["text"])
            docs.append({"case": c, "window": 0, "lines": True})
            continue
        n = len([t for t in o["in"] if t["k"] != "#Comment"])
        small = c["src"].startswith("gen") and 6 <= n <= max_tok and "\n" in c["text"].strip()
        if c in multi[: ctx.pick(3, 15)] and c["src"].startswith("gen") and n <= 50 and c["text"] not in seen:
            seen.add(c["text"])
            docs.append({"case": c, "window": 0 if n <= max_tok else 6})
        elif small and len([d for d in docs if d["window"] == 0]) < want:
            seen.add(c["text"])
            docs.append({"case": c, "window": 0})
        elif c["src"].startswith("probe/syntax-error"):
            docs.append({"case": c, "window": 0})
        elif c["src"].startswith("std/") and len(c["text"]) < ctx.pick(3000, 20000) and len([d for d in docs if d["window"]]) < ctx.pick(0, 4):
            docs.append({"case": c, "window": 2})
    return docs


def multiline_docs(ctx, first_id):
    """FmtSelDocs.tla: every (wrapper, multi-line token form, continuation indent, line break, configuration)."""
    res = vlib.tlc("FmtSelDocs", ctx.pick("FmtSelDocs_q", "FmtSelDocs_t"), workers=1, timeout=600)
    ctx.add_tlc(res)
    docs = [o for tg, o in res.json if tg == "DOC"]
    if res.violated or len(docs) != res.distinct or not docs:
        raise vlib.ToolError("FmtSelDocs: %d documents printed for %d states (%s)" % (len(docs), res.distinct, res.violated))
    docs.sort(key=lambda o: o["src"])
    ctx.note("multiline_token_documents", len(docs))
    return [{"src": "ml/" + "/".join(o["src"]), "text": o["text"], "cfg": o["cfg"], "id": first_id + i} for i, o in enumerate(docs)]


def line_starts(text):
    b = text.encode("utf-8")
    return [i + 1 for i in range(len(b) - 1) if b[i:i + 1] == b"\n" or (b[i:i + 1] == b"\r" and b[i + 1:i + 2] != b"\n")]


def run(ctx):
    _fmt.selftest(ctx)
    cases = _fmt.gen_cases(ctx, n_single=ctx.pick(0, 300), n_sim=ctx.pick(120, 600), max_files=ctx.pick(0, 12))
    cases += multiline_docs(ctx, len(cases))
    out = _fmt.run_formatter(ctx, cases)
    docs = pick_docs(ctx, cases, out)
    if not docs:
        raise vlib.ToolError("no documents selected for range formatting")
    # ---- selections: enumerated by TLC from the token boundaries of each document
    path = os.path.join(ctx.work, "docs.ndjson")
    with open(path, "w") as f:
        for d in docs:
            c = d["case"]
            toks = [t for t in out[c["id"]]["in"] if t["k"] not in ("#Comment", "#Unparsed")]
            bounds = sorted({t["o"] for t in toks} | {t["o"] + len(t["t"].encode("utf-8")) for t in toks})
            f.write(json.dumps({"id": c["id"], "len": len(c["text"].encode("utf-8")), "bounds": bounds, "window": d["window"],
                                "lines": line_starts(c["text"]) if d.get("lines") else []}) + "\n")
    res = vlib.tlc("FmtSel", "FmtSel", workers=ctx.pick(2, 4), timeout=ctx.pick(600, 2400), env={"DOCS": path})
    ctx.add_tlc(res)
    sels = {}
    for tg, o in res.json:
        if tg == "SEL":
            sels.setdefault(o["id"], []).append([o["s"], o["e"]])
    nsel = sum(len(v) for v in sels.values())
    if nsel != res.distinct or not nsel:
        raise vlib.ToolError("FmtSel: %d selections printed for %d states" % (nsel, res.distinct))
    for v in sels.values():
        v.sort()
    ctx.note("selections_enumerated_by_tlc", nsel)
    # ---- the real range formatter on every selection
    doc_cases = [d["case"] for d in docs]
    rout = _fmt.run_formatter(ctx, doc_cases, sels=sels)
    runs = []
    meta = {}
    found = {}
    rid = 0
    some = 0
    for c in doc_cases:
        o = rout[c["id"]]
        blen = len(c["text"].encode("utf-8"))
        seen_splice = {}
        extents = [[t["o"], t["o"] + len(t["t"].encode("utf-8"))] for t in o["in"] if t["k"] not in ("#Comment", "#Unparsed")]
        for r in o.get("ranges", []):
            s, e = r["sel"]
            if "panic" in r:
                found.setdefault("C07/panic", []).append({"src": c["src"], "text": c["text"], "cfg": c["cfg"], "sel": [s, e], "panic": r["panic"]})
                continue
            none = bool(r.get("none"))
            rid += 1
            runs.append({"id": rid, "kind": "cover", "cfg": _fmt.model_cfg(c["cfg"]), "inErr": bool(o["in_err"]), "outErr": 0,
                         "same": True, "in": [], "out": [], "none": none, "s": s, "e": e, "len": blen,
                         "rs": r.get("rs", 0), "re": r.get("re", 0), "boundary": bool(r.get("range_ok", True)),
                         "toks": [x for x in extents if x[0] <= e and s <= x[1]]})
            meta[rid] = (c, r)
            ctx.count((c["text"], str(c["cfg"]), s, e), nontrivial=not none)
            if none or not r.get("range_ok"):
                continue
            some += 1
            key = (r["rs"], r["re"], r["text"])
            if key in seen_splice:
                continue
            rid += 1
            seen_splice[key] = rid
            fr = _fmt.fmt_run(rid, c["cfg"], o["in"], r["spliced"], False, r["spliced_err"], r["spliced_text"] == c["text"])
            runs.append(fr)
            meta[rid] = (c, r)
    ctx.note("selections_with_a_result", some)
    valid_sel = sum(1 for r in runs if r["kind"] == "cover" and not r["inErr"])
    if valid_sel and some < 0.3 * valid_sel:
        # not a verdict: the property does not demand a result, but a check that mostly sees "no result" proves nothing
        raise vlib.ToolError("C07 would be vacuous: only %d of %d selections on valid documents produced a result" % (some, valid_sel))
    ctx.note("distinct_splices_walked", sum(1 for r in runs if r["kind"] == "fmt"))
    verdict = _fmt.judge(ctx, runs, "c07")
    for r in runs:
        tg, v = verdict[r["id"]]
        if tg == "ACC":
            continue
        c, rr = meta[r["id"]]
        if r["kind"] == "cover":
            sig = "C07/%s" % v["why"]
        elif v["why"] != "stuck":
            sig = "C07/splice/%s" % v["why"]
        else:
            a, b = v["a"], v["b"]
            sig = "C07/splice/stuck/%s->%s" % (a["k"], b["k"])
        found.setdefault(sig, []).append({
            "src": c["src"], "cfg": c["cfg"], "document": c["text"] if len(c["text"]) < 1500 else c["text"][:1500],
            "selection": rr["sel"], "replace_range": [rr.get("rs"), rr.get("re")], "replacement": rr.get("text"),
            "verdict": {k: v[k] for k in v if k not in ("id", "cfg")}})
    ctx.validated(len(runs))
    for d in docs[:3]:
        ctx.sample({"document": d["case"]["text"][:200], "cfg": _fmt.model_cfg(d["case"]["cfg"]), "selections": len(sels.get(d["case"]["id"], []))})
    for sig, ds in sorted(found.items()):
        ctx.violation(sig, {"count": len(ds), "sources": sorted({d["src"] for d in ds})[:8], "first": ds[0], "more": ds[1:3]})
    ctx.rule("a case = (document, configuration, selection); selections: every (s, e) over token boundaries +-1 and beyond the end "
             "(FmtSel.tla), windowed for std files; non-trivial = the range formatter returned a result")
    ctx.assume("bytes outside the replaced region are untouched by construction of the splice; what is checked is that the region is "
               "inside the document, on character boundaries, and covers the selection")
