"""Shared glue for C24 / C25 / C26: concrete LSP messages for the abstract cases TLC generates from
spec/LsProtocol.tla, transport into the in-process session (harness bin vh_lsproto) or the real binary
over stdio, abstraction of the recorded stream into the log judged by spec/LsProtocolTrace.tla.

Nothing here decides a verdict: expected responses come from the TLC behaviour, the C24 predicate is
evaluated by TLC on the recorded stream (VERDICT lines)."""
import json
import os
import queue
import subprocess
import threading
import time

import vlib

DOC_URI = "$ROOT/a.lua"
DOC = "local function f(a)\n  return a + 1\nend\nprint(f(2))\n"


def _pos(line, ch):
    return {"line": line, "character": ch}


def _range(l0, c0, l1, c1):
    return {"start": _pos(l0, c0), "end": _pos(l1, c1)}


def method_table(uri=DOC_URI, pos=None, rng=None):
    """valid params of every method registered in dispatch_request! (38)"""
    td = {"uri": uri}
    p = pos or _pos(0, 15)
    r = rng or _range(0, 0, 1, 3)
    opt = {"tabSize": 4, "insertSpaces": True}
    chi = {"name": "f", "kind": 12, "uri": uri, "range": r, "selectionRange": {"start": r["start"], "end": r["start"]}}
    tdp = {"textDocument": td, "position": p}
    return {
        "textDocument/hover": dict(tdp),
        "textDocument/documentSymbol": {"textDocument": td},
        "textDocument/foldingRange": {"textDocument": td},
        "textDocument/documentColor": {"textDocument": td},
        "textDocument/colorPresentation": {"textDocument": td, "color": {"red": 1, "green": 0, "blue": 0, "alpha": 1}, "range": r},
        "textDocument/documentLink": {"textDocument": td},
        "documentLink/resolve": {"range": r},
        "emmy/annotator": {"uri": uri},
        "emmy/gutter": {"uri": uri},
        "emmy/gutter/detail": {"data": "x"},
        "emmy/syntaxTree": {"uri": uri},
        "textDocument/selectionRange": {"textDocument": td, "positions": [p]},
        "textDocument/completion": dict(tdp),
        "completionItem/resolve": {"label": "x"},
        "textDocument/inlayHint": {"textDocument": td, "range": r},
        "inlayHint/resolve": {"position": p, "label": "x"},
        "textDocument/definition": dict(tdp),
        "textDocument/implementation": dict(tdp),
        "textDocument/references": dict(tdp, context={"includeDeclaration": True}),
        "textDocument/rename": dict(tdp, newName="zz"),
        "textDocument/prepareRename": dict(tdp),
        "textDocument/codeLens": {"textDocument": td},
        "codeLens/resolve": {"range": r},
        "textDocument/signatureHelp": dict(tdp),
        "textDocument/documentHighlight": dict(tdp),
        "textDocument/semanticTokens/full": {"textDocument": td},
        "workspace/executeCommand": {"command": "verif.nope", "arguments": []},
        "textDocument/codeAction": {"textDocument": td, "range": r, "context": {"diagnostics": []}},
        "textDocument/inlineValue": {"textDocument": td, "range": r, "context": {"frameId": 1, "stoppedLocation": r}},
        "workspace/symbol": {"query": "f"},
        "textDocument/formatting": {"textDocument": td, "options": opt},
        "textDocument/rangeFormatting": {"textDocument": td, "range": r, "options": opt},
        "textDocument/onTypeFormatting": dict(tdp, ch="\n", options=opt),
        "textDocument/prepareCallHierarchy": dict(tdp),
        "callHierarchy/incomingCalls": {"item": chi},
        "callHierarchy/outgoingCalls": {"item": chi},
        "textDocument/diagnostic": {"textDocument": td},
        "workspace/diagnostic": {"previousResultIds": []},
    }


METHODS = method_table()
assert len(METHODS) == 38
UNKNOWN_METHOD = "verif/unknownMethod"
UNKNOWN_ID = 9999


def bad_params(method, variant):
    """params that cannot deserialize into the method's param type"""
    v = variant % 4
    if v == 0:
        return 42
    if v == 1:
        return "params"
    if v == 2:
        return True
    good = json.loads(json.dumps(METHODS[method]))
    first = sorted(good.keys())[-1] if method in ("workspace/executeCommand",) else sorted(good.keys())[0]
    # a required member with the wrong JSON type
    required = {"workspace/executeCommand": "command", "textDocument/colorPresentation": "color",
                "inlayHint/resolve": "position", "textDocument/references": "position",
                "textDocument/codeAction": "range", "textDocument/inlineValue": "range",
                "textDocument/formatting": "options", "textDocument/onTypeFormatting": "position"}
    key = required.get(method, first)
    good[key] = 12345
    return good


def open_step(text=DOC, uri=DOC_URI, version=1):
    return {"op": "notif", "method": "textDocument/didOpen",
            "params": {"textDocument": {"uri": uri, "languageId": "lua", "version": version, "text": text}}}


# --------------------------------------------------------------------------------------------
# TLC behaviour -> concrete run for vh_lsproto
# --------------------------------------------------------------------------------------------
def concretise(beh, key, pick_method, variant=0):
    """beh = {"hist": [...], "resp": [...]} printed by LsProtocol!Emit.  pick_method(j, cls) names the
    method of the j-th request.  Returns (run, info) with info[id] = {"cls", "method"}."""
    steps = [open_step()]
    info = {}
    nb = 0
    for h in beh["hist"]:
        a = h["a"]
        if a == "ClientSend":
            m = h["m"]
            k = m["k"]
            if k == "req":
                cls = m["cls"]
                rid = m["id"]
                if cls == "unknown":
                    method, params = UNKNOWN_METHOD, {}
                else:
                    method = pick_method(rid, cls)
                    if cls in ("ok", "panic"):
                        params = METHODS[method]
                    elif cls == "bad":
                        params = bad_params(method, variant + nb)
                        nb += 1
                    else:
                        params = None
                st = {"op": "req", "id": rid, "method": method, "params": params}
                if cls in ("ok", "panic"):
                    st["hold"] = True
                    if cls == "panic":
                        st["inject_panic"] = True
                steps.append(st)
                info[rid] = {"cls": "valid" if cls in ("ok", "panic") else cls, "method": method,
                             "injected": cls == "panic"}
            elif k == "cancel":
                t = m["id"] if m["id"] != 0 else UNKNOWN_ID
                steps.append({"op": "notif", "method": "$/cancelRequest", "params": {"id": t}})
            elif k == "notif":
                if m["cls"] == "known":
                    steps.append({"op": "notif", "method": "$/setTrace", "params": {"value": "off"}})
                else:
                    steps.append({"op": "notif", "method": "verif/unknownNotification", "params": {}})
            elif k == "resp":
                steps.append({"op": "resp", "id": 777})
            else:
                raise vlib.ToolError("in-process session cannot play message kind %s" % k)
        elif a in ("TaskRespond", "TaskPanic"):
            # the handler task runs to its end; the wrapper task answers and parks at the cancellation map
            steps.append({"op": "respond", "id": h["id"]})
        elif a == "TaskRemove":
            steps.append({"op": "remove", "id": h["id"]})
    return {"run": key, "sched": True, "split": True, "steps": steps}, info


# --------------------------------------------------------------------------------------------
# recorded stream -> log for LsProtocolTrace
# --------------------------------------------------------------------------------------------
def split_runs(events):
    runs = []
    for e in events:
        if e.get("ev") == "reset":
            runs.append({"run": e["run"], "events": []})
        elif runs:
            runs[-1]["events"].append(e)
    return runs


def resp_kind(e):
    return "ok" if e.get("ok") else "err%d" % e.get("code", 0)


def abstract_run(events, info, phase="ready"):
    """events of one run (harness format) -> (abstract log lines, idmap concrete->abstract).
    Request ids are renumbered 1..n in sending order; a cancel of an id that is never used as a request
    id in this run targets 0; responses to ids never sent get numbers above n (TOrphan)."""
    sent = [e["id"] for e in events if e["ev"] == "csend" and e["kind"] == "req"]
    idmap = {}
    for i in sent:
        if i not in idmap:
            idmap[i] = len(idmap) + 1
    extra = {}
    out = [{"e": "reset", "phase": phase}]
    for e in events:
        ev = e["ev"]
        if ev == "csend":
            k = e["kind"]
            if k == "req":
                meta = info.get(e["id"], {})
                kind = meta.get("kind", "req")
                m = {"k": kind, "id": idmap[e["id"]], "cls": meta.get("cls", "valid") if kind in ("req", "initialize") else "-"}
                out.append({"e": "csend", "m": m})
            elif k == "notif":
                meth = e.get("method")
                if meth == "$/cancelRequest":
                    out.append({"e": "csend", "m": {"k": "cancel", "id": idmap.get(e.get("cancel"), 0), "cls": "-"}})
                elif meth in ("initialized", "exit"):
                    out.append({"e": "csend", "m": {"k": meth, "id": 0, "cls": "-"}})
                else:
                    known = not meth.startswith("verif/")
                    out.append({"e": "csend", "m": {"k": "notif", "id": 0, "cls": "known" if known else "unknown"}})
            elif k == "resp":
                out.append({"e": "csend", "m": {"k": "resp", "id": 0, "cls": "-"}})
        elif ev == "ssend" and e["kind"] == "resp":
            cid = e["id"]
            if cid in idmap:
                aid = idmap[cid]
            else:
                aid = extra.setdefault(json.dumps(cid), len(idmap) + len(extra) + 1)
            out.append({"e": "ssend", "id": aid, "r": resp_kind(e)})
        elif ev == "quiesce":
            out.append({"e": "quiesce"})
        elif ev == "exit":
            out.append({"e": "exit"})
    return out, idmap, len(idmap) + len(extra)


def validate_traces(ctx, runs, tag="trace"):
    """runs: list of dicts {"key", "log": [abstract lines], ...}.  One TLC call over the concatenation.
    Returns {key: verdict or None (= not explained)}; unexplained runs are recorded as divergences."""
    todo = list(runs)
    verdicts = {}
    rounds = 0
    while todo and rounds < 6:
        rounds += 1
        path = os.path.join(ctx.work, "%s_%d.ndjson" % (tag, rounds))
        starts = []
        n = 0
        with open(path, "w") as f:
            for r in todo:
                starts.append(n + 1)
                for line in r["log"]:
                    f.write(json.dumps(line) + "\n")
                    n += 1
        maxreq = max([r.get("nids", 1) for r in todo] + [1])
        cfg = os.path.join(ctx.work, "LsProtocolTrace_run.cfg")
        with open(cfg, "w") as f:
            f.write("SPECIFICATION Spec\nCONSTANTS MaxReqsT = %d\nVIEW tview\nINVARIANTS HighWater\nPOSTCONDITION Report\n" % maxreq)
        # the cfg must sit next to the module
        local = os.path.join(vlib.SPEC, ".LsProtocolTrace_%s_%d.cfg" % (ctx.id, os.getpid()))
        with open(local, "w") as f:
            f.write(open(cfg).read())
        try:
            res = vlib.tlc("LsProtocolTrace", os.path.basename(local)[:-4], workers=1,
                           timeout=ctx.pick(900, 3000), env={"TRACE": path})
        finally:
            os.unlink(local)
        ctx.add_tlc(res)
        by_l = {}
        hw = None
        for t, v in res.json:
            if t == "VERDICT":
                # several explanations may reach the same log line (absent params: not deserializable, or
                # accepted and the handler died): keep the one with the fewest silent deaths, canonically
                k = (sum(1 for i in v["ids"] if i["how"] == "panic-silent"), json.dumps(v, sort_keys=True))
                if v["l"] not in by_l or k < by_l[v["l"]][0]:
                    by_l[v["l"]] = (k, v)
            elif t == "HW":
                hw = v["hw"]
        if res.violated:
            raise vlib.ToolError("LsProtocolTrace: unexpected %s\n%s" % (res.violated, res.trace_text[:3000]))
        if hw is None:
            raise vlib.ToolError("LsProtocolTrace printed no high-water mark\n" + res.out[-2000:])
        # the log is explained iff some behaviour of the trace spec consumed its last line
        accepted = hw == n + 1
        limit = n + 1 if accepted else (hw or 0)
        bad_index = None
        for i, r in enumerate(todo):
            lo = starts[i]
            hi = starts[i + 1] if i + 1 < len(todo) else n + 1
            if hi <= limit:
                vs = [by_l[x][1] for x in range(lo, hi) if x in by_l]
                verdicts[r["key"]] = vs
            elif bad_index is None:
                bad_index = i
        if accepted:
            todo = []
        else:
            if bad_index is None:
                raise vlib.ToolError("LsProtocolTrace rejected the log but no run is cut (hw=%s n=%d)" % (hw, n))
            r = todo[bad_index]
            verdicts[r["key"]] = None
            at = (hw or starts[bad_index]) - starts[bad_index]
            ctx.divergence({"what": "LsProtocolTrace cannot explain the recorded stream", "run": r["key"],
                            "stuck_at_line": at, "log": r["log"][:40]})
            todo = todo[bad_index + 1:]
    if todo:
        raise vlib.ToolError("LsProtocolTrace: more than 5 unexplained runs; first: %s" % todo[0]["key"])
    return verdicts


# --------------------------------------------------------------------------------------------
# in-process transport
# --------------------------------------------------------------------------------------------
def play_inprocess(ctx, runs, results=False, tag="cases"):
    path = os.path.join(ctx.work, tag + ".ndjson")
    with open(path, "w") as f:
        for r in runs:
            f.write(json.dumps(r) + "\n")
    root = os.path.join(ctx.work, "ws")
    os.makedirs(root, exist_ok=True)
    args = [path, root] + (["--results"] if results else [])
    p = vlib.run_bin("vh_lsproto", args, timeout=ctx.pick(900, 3000))
    return split_runs(vlib.ndjson(p.stdout))


# --------------------------------------------------------------------------------------------
# stdio transport (the real binary)
# --------------------------------------------------------------------------------------------
REPO_BINS = os.path.join(vlib.HARNESS, "target", "repo-bins")


def build_server_binary():
    """cargo build the real emmylua_ls binary from /repo's working tree into a harness-side target dir"""
    import fcntl
    os.makedirs(REPO_BINS, exist_ok=True)
    lock = open(os.path.join(REPO_BINS, ".vbuild.lock"), "w")
    fcntl.flock(lock, fcntl.LOCK_EX)
    try:
        cmd = ["cargo", "build", "--offline", "--release", "-p", "emmylua_ls",
               "--manifest-path", os.path.join(vlib.REPO, "Cargo.toml"), "--target-dir", REPO_BINS]
        t0 = time.time()
        p = subprocess.run(cmd, env=vlib.cargo_env(), stdout=subprocess.PIPE, stderr=subprocess.STDOUT, text=True,
                           timeout=5400)
        vlib.log("build emmylua_ls binary: rc=%d %.0fs" % (p.returncode, time.time() - t0))
        if p.returncode != 0:
            raise vlib.ToolError("emmylua_ls binary build failed:\n" + p.stdout[-4000:])
    finally:
        fcntl.flock(lock, fcntl.LOCK_UN)
        lock.close()
    return os.path.join(REPO_BINS, "release", "emmylua_ls")


class StdioServer:
    """the real server process; records csend/ssend/exit events in the harness event format"""

    def __init__(self, binary, cwd):
        logs = os.path.join(os.path.dirname(os.path.abspath(cwd)), "ls-logs")
        os.makedirs(logs, exist_ok=True)
        self.p = subprocess.Popen([binary, "--log-level", "error", "--log-path", logs], stdin=subprocess.PIPE,
                                  stdout=subprocess.PIPE, stderr=subprocess.PIPE, cwd=cwd)
        self.q = queue.Queue()
        self.events = []
        self.stderr = []
        self.got = {}
        threading.Thread(target=self._read, daemon=True).start()
        threading.Thread(target=self._err, daemon=True).start()

    def _err(self):
        for line in self.p.stderr:
            self.stderr.append(line.decode("utf-8", "replace"))

    def _read(self):
        f = self.p.stdout
        while True:
            n = None
            while True:
                line = f.readline()
                if not line:
                    self.q.put(None)
                    return
                line = line.strip()
                if not line:
                    break
                if line.lower().startswith(b"content-length:"):
                    n = int(line.split(b":")[1])
            if n is None:
                continue
            body = f.read(n)
            try:
                self.q.put(json.loads(body))
            except Exception:
                self.q.put({"garbled": body[:200].decode("utf-8", "replace")})

    def send(self, msg):
        body = json.dumps(dict(msg, jsonrpc="2.0")).encode()
        if "method" in msg and "id" in msg:
            self.events.append({"ev": "csend", "kind": "req", "id": msg["id"], "method": msg["method"]})
        elif "method" in msg:
            self.events.append({"ev": "csend", "kind": "notif", "method": msg["method"],
                                "cancel": (msg.get("params") or {}).get("id") if msg["method"] == "$/cancelRequest" else None})
        else:
            self.events.append({"ev": "csend", "kind": "resp", "id": msg.get("id")})
        try:
            self.p.stdin.write(b"Content-Length: %d\r\n\r\n" % len(body) + body)
            self.p.stdin.flush()
            return True
        except (BrokenPipeError, OSError):
            return False

    def _take(self, m):
        """record one server message; answer server->client requests with null"""
        if m is None:
            return False
        if "method" in m and "id" in m:
            self.events.append({"ev": "ssend", "kind": "req", "id": m["id"], "method": m["method"]})
            self.send({"id": m["id"], "result": None})
        elif "method" in m:
            self.events.append({"ev": "ssend", "kind": "notif", "method": m["method"]})
        elif "id" in m:
            e = {"ev": "ssend", "kind": "resp", "id": m["id"], "ok": "error" not in m}
            if "error" in m:
                e["code"] = m["error"].get("code")
                e["message"] = str(m["error"].get("message"))[:200]
            else:
                e["null"] = m.get("result") is None
                e["result"] = m.get("result")
            self.events.append(e)
            self.got[json.dumps(m["id"])] = self.got.get(json.dumps(m["id"]), 0) + 1
        return True

    def pump(self, want_ids=(), idle=2.0, maximum=60.0):
        """read until every id in want_ids is answered and the server has been silent for `idle`
        seconds, or the process ended, or `maximum` seconds passed.  Returns "answered" | "eof" |
        "timeout"."""
        t0 = time.time()
        last = time.time()
        while True:
            try:
                m = self.q.get(timeout=0.05)
            except queue.Empty:
                now = time.time()
                done = all(json.dumps(i) in self.got for i in want_ids)
                if done and now - last >= idle:
                    return "answered"
                if now - t0 >= maximum:
                    return "timeout"
                continue
            if not self._take(m):
                return "eof"
            last = time.time()

    def wait_exit(self, timeout=30.0):
        try:
            rc = self.p.wait(timeout=timeout)
        except subprocess.TimeoutExpired:
            return None
        # drain what the writer thread flushed before the end
        while True:
            try:
                m = self.q.get(timeout=0.2)
            except queue.Empty:
                break
            if not self._take(m):
                break
        self.events.append({"ev": "exit", "code": rc})
        return rc

    def kill(self):
        try:
            self.p.kill()
            self.p.wait(timeout=10)
        except Exception:
            pass


# --------------------------------------------------------------------------------------------
# documents for C25 / C26: text -> the line/token tables spec/LsPositions.tla works on
# --------------------------------------------------------------------------------------------
import re

DOC_CLASSES = [
    ("empty", ""),
    ("ascii", "local function f(a)\n  return a + 1\nend\nprint(f(2))\n"),
    ("nonascii", "local s = \"\U0001F600\" -- é\U0001F600\nlocal t = s .. \"ü\"\nprint(t)\n"),
    ("crlf", "local x = 1\r\nlocal y = x\r\n\r\nprint(y)\r\n"),
    ("nonl", "local t = {}\nt.a = 1\nreturn t.a"),
    ("syntaxerr", "local function (\n  x = = 1\nend end\nfoo(\n"),
]


def u16len(s):
    return len(s.encode("utf-16-le")) // 2


def split_lines(text):
    """lines as LSP counts them: LF, CR LF and a lone CR terminate a line; the last line may be empty"""
    return re.split(r"\r\n|\n|\r", text)


_TOKEN = re.compile(r"--[^\r\n]*|\"[^\"\r\n]*\"|'[^'\r\n]*'|[A-Za-z_][A-Za-z_0-9]*|[0-9]+|\.\.\.?|[=~<>]=|[^\sA-Za-z_0-9]")


def doc_metrics(cls, text):
    lines = split_lines(text)
    toks = []
    for li, line in enumerate(lines):
        for m in _TOKEN.finditer(line):
            toks.append([li, u16len(line[:m.start()]), u16len(m.group(0))])
    return {"cls": cls, "lines": [u16len(x) for x in lines], "toks": toks}


U32_MAX = 4294967295


def lsp_pos(p):
    return {"line": U32_MAX if p[0] < 0 else p[0], "character": U32_MAX if p[1] < 0 else p[1]}


def position_request(method, uri, pos):
    """params of a position/range-taking request for concrete positions pos = [[line, ch]] or [[..],[..]]"""
    if len(pos) == 1:
        t = method_table(uri=uri, pos=lsp_pos(pos[0]))
    else:
        r = {"start": lsp_pos(pos[0]), "end": lsp_pos(pos[1])}
        t = method_table(uri=uri, rng=r)
    return t[method]


# concrete strings of the string-parameter classes of spec/LsPositions.tla (NameClasses, ChClasses)
NAME_CLASSES = {"ident": "zz", "empty": "", "keyword": "end", "space": "a b", "digit": "1x", "nonascii": "\u00e9\U0001F600"}
CH_CLASSES = {"newline": "\n", "letter": "d", "empty": "", "astral": "\U0001F600"}
DIAG_DATA = {"unknown-doc-tag": "verif", "preferred-local-alias": {"preferredAlias": "zz"}}


def cell_request(cell, uri, mined=None):
    """params of the request of one cell of spec/LsPositions.tla: cell["pos"][i] is the concrete position of
    the i-th position-like parameter cell["slots"] names; mined = {"callHierarchy": data, "codeLens": data}
    (opaque `data` members the server handed out for this document, or absent)."""
    mined = mined or {}
    method = cell["req"]
    ps = [lsp_pos(p) for p in cell["pos"]]
    td = {"uri": uri}
    opt = {"tabSize": 4, "insertSpaces": True}

    def rng(i):
        return {"start": ps[i], "end": ps[i + 1]}

    if method == "textDocument/selectionRange":
        return {"textDocument": td, "positions": ps}
    if len(ps) == 1:
        t = method_table(uri=uri, pos=ps[0])[method]
        if method == "textDocument/rename":
            t["newName"] = NAME_CLASSES[cell["opt"]]
        elif method == "textDocument/onTypeFormatting":
            t["ch"] = CH_CLASSES[cell["opt"]]
        return t
    if len(ps) == 2:
        t = method_table(uri=uri, rng=rng(0))[method]
        if method == "codeLens/resolve" and mined.get("codeLens") is not None:
            t["data"] = mined["codeLens"]
        return t
    if method == "textDocument/inlineValue":
        return {"textDocument": td, "range": rng(0), "context": {"frameId": 1, "stoppedLocation": rng(2)}}
    if method == "textDocument/codeAction":
        diags = []
        for code in cell["codes"]:
            d = {"range": rng(2), "severity": 2, "source": "EmmyLua", "code": code, "message": "verif"}
            if code in DIAG_DATA:
                d["data"] = DIAG_DATA[code]
            diags.append(d)
        return {"textDocument": td, "range": rng(0), "context": {"diagnostics": diags}}
    if method in ("callHierarchy/incomingCalls", "callHierarchy/outgoingCalls"):
        item = {"name": "f", "kind": 12, "uri": uri, "range": rng(0), "selectionRange": rng(2)}
        if mined.get("callHierarchy") is not None:
            item["data"] = mined["callHierarchy"]
        return {"item": item}
    raise vlib.ToolError("no concretisation for %s with %d positions" % (method, len(ps)))

