"""C12: indexing, diagnosing and semantic queries never crash (panic, abort, run away) on any program.

spec/AnnoGen.tla is the input space: programs built by explicit generator actions (cyclic supers, recursive
aliases, generic cycles, malformed generics, overloads, casts, uses ...).  TLC checks the generator's own
invariants exhaustively on a small configuration and produces programs by seeded simulation; this driver
renders the items to Lua text and replays each program into the real analysis in a subprocess (vh_anaq crash):
index both files, diagnose each, semantic info + declaration of every token, type of every expression, every
type rendered at four levels -- under catch_unwind and a CPU budget per program.  There is no oracle beyond
"terminates, no panic": level exploration.
"""
import json
import os
import re
import subprocess
import sys

sys.path.insert(0, os.path.dirname(__file__))
import vlib  # noqa: E402

ROOT = "/vh/c12"
CPU_BUDGET_S = 20.0


# ---- rendering -----------------------------------------------------------------------------------------
def ty(t):
    op = t["op"]
    if op == "name":
        return t["a"]
    if op == "arr":
        return ty(t["b"]) + "[]"
    if op == "opt":
        return ty(t["b"]) + "?"
    if op == "app":
        return "%s<%s>" % (t["a"], ty(t["b"]))
    if op == "union":
        return "%s | %s" % (ty(t["b"]), ty(t["c"]))
    if op == "inter":
        return "%s & %s" % (ty(t["b"]), ty(t["c"]))
    if op == "fun":
        return "fun(p: %s): %s" % (ty(t["b"]), ty(t["c"]))
    if op == "tab":
        return "table<%s, %s>" % (ty(t["b"]), ty(t["c"]))
    if op == "tuple":
        return "[%s, %s]" % (ty(t["b"]), ty(t["c"]))
    if op == "bad":
        b = ty(t["b"])
        return {"lt": "G<" + b, "ltcomma": "G<" + b + ",", "gt": b + ">", "paren": "fun(" + b, "empty": "<>",
                "colon": b + ":", "brace": "{ x: " + b}[t["a"]]
    raise vlib.ToolError("unknown type op %r" % op)


def gen_suffix(g):
    if g == "":
        return ""
    if g == "<":
        return "<T"
    return "<%s>" % g


def expr(e, v, w):
    e = re.sub(r"\bv\b", v, e)
    return re.sub(r"\bw\b", w, e)


def render_item(it, k):
    """Returns [annotation lines], [code lines]."""
    kind = it["k"]
    if kind == "class":
        sup = ", ".join(ty(t) for t in it["t"])
        return ["---@class %s%s%s" % (it["n"], gen_suffix(it["g"]), (": " + sup) if sup else "")], \
               ["local %s = {}" % it["n"]]
    if kind == "alias":
        return ["---@alias %s%s %s" % (it["n"], gen_suffix(it["g"]), ty(it["t"][0]))], []
    if kind == "field":
        return ["---@class %s" % it["n"], "---@field %s %s" % (it["g"], ty(it["t"][0]))], []
    if kind == "operator":
        op = it["g"]
        sig = "%s(%s): %s" % (op, ty(it["t"][0]), ty(it["t"][0])) if op in ("add", "concat", "call", "index") else \
              "%s: %s" % (op, ty(it["t"][0]))
        return ["---@class %s" % it["n"], "---@operator %s" % sig], []
    if kind == "func":
        ann = []
        g = it["g"]
        if g:
            ann.append("---@generic %s" % ("T," if g == "<" else g))
        ann.append("---@param p %s" % ty(it["t"][0]))
        ann.append("---@return %s" % ty(it["t"][1]))
        if not (it["u"]["op"] == "name" and it["u"]["a"] == "nil"):
            ann.append("---@overload fun(p: %s): %s" % (ty(it["u"]), ty(it["u"])))
        owner = it["e"]
        head = "function %s:%s(p)" % (owner, it["n"]) if owner else "function %s(p)" % it["n"]
        return ann, [head + " return p end"]
    if kind == "local":
        other = "y" if it["n"] == "x" else "x"
        return ["---@type %s" % ty(it["t"][0])], ["local %s = %s" % (it["n"], expr(it["e"], it["n"], other))]
    if kind == "cast":
        v, form, t = it["n"], it["g"], ty(it["t"][0])
        if form == "as":
            return [], ["local _as%d = %s --[[@as %s]]" % (k, v, t)]
        pre = {"cast": "", "cast+": "+", "cast-": "-", "cast?": "+?"}[form]
        return ["---@cast %s %s%s" % (v, pre, "" if form == "cast?" else t)], []
    if kind == "tablit":
        # a table literal typed by a declared name; f / g may be declared fields, zz / yy never are
        body = {
            "closure": "{ f = function(p) return p end, zz = function(p) return p end }",
            "values": "{ f = 1, zz = \"s\", yy = nil }",
            "nested": "{ zz = { zz = function(p) return p end, f = 1 }, f = { zz = 1 } }",
            "method": "{ zz = function(self, p) return self.zz end, f = function(self) return self end }",
            "index": "{ [1] = function(p) return p end, [\"zz\"] = function(p) return p end }",
            "mixed": "{ 1, f = function(p) return p.zz end, zz = function(...) return ... end, g = {} }",
        }[it["g"]]
        return ["---@type %s" % ty(it["t"][0])], ["local %s = %s" % (it["n"], body)]
    if kind == "stdcall":
        # a tuple-typed value (annotated, or an array-like table literal) and calls of a std generic helper with
        # literal index arguments, one call per (I, J) pair of the item
        v, w, n = it["n"], it["w"], it["len"]
        elems = [ty(it["t"][i % 2]) for i in range(n)]
        if it["lit"]:
            ann, code = [], ["local %s = { %s }" % (v, ", ".join(["1", "\"s\"", "true", "{}"][:n]))]
        else:
            ann, code = ["---@type [%s]" % ", ".join(elems)], ["local %s = {}" % v]
        for q, (i, j) in enumerate(it["args"]):
            call = it["g"].replace("I", str(i)).replace("J", str(j))
            if "up(" in call:
                code += ["---@generic T", "---@param t T", "---@return std.Unpack<T, %d, %d>" % (i, j),
                         "local function up(t) end"]
            call = expr(call, v, w)
            code.append("local _s%d_%da, _s%d_%db, _s%d_%dc = %s" % (k, q, k, q, k, q, call))
            code.append("print(_s%d_%da, _s%d_%db, _s%d_%dc)" % (k, q, k, q, k, q))
        return ann, code
    if kind == "use":
        e = expr(it["e"], it["n"], it["w"])
        how = it["g"]
        code = {"local": "local _u%d = %s" % (k, e), "print": "print(%s)" % e, "return-table": "local _r%d = { %s }" % (k, e),
                "assign-global": "GU%d = %s" % (k, e), "if": "if %s then print(%s) end" % (e, it["n"]),
                "for": "for _k, _v in pairs(%s) do print(_k, _v) end" % e}[how]
        return [], [code]
    raise vlib.ToolError("unknown item kind %r" % kind)


def corrupt(lines, how):
    if not lines:
        return lines
    s = lines[0]
    if how == "truncate":
        s = s[:max(8, (2 * len(s)) // 3)]
    elif how == "drop-gt":
        i = s.rfind(">")
        s = s[:i] + s[i + 1:] if i >= 0 else s + "<"
    elif how == "drop-colon":
        i = s.find(":", 5)
        s = s[:i] + s[i + 1:] if i >= 0 else s + ":"
    elif how == "dup-lt":
        s = s.replace("<", "<<", 1) if "<" in s else s + "<<"
    elif how == "drop-name":
        s = re.sub(r"^(---@\w+) \S+", r"\1", s)
    return [s] + lines[1:]


def render(case):
    rendered = []
    for k, it in enumerate(case["items"]):
        if it["k"] == "corrupt":
            rendered.append(None)
            continue
        ann, code = render_item(it, k)
        rendered.append([it["file"], ann, code])
    for it in case["items"]:
        if it["k"] == "corrupt":
            tgt = rendered[it["i"] - 1]
            if tgt is not None:
                tgt[1] = corrupt(tgt[1], it["g"])
    texts = {"a": [], "b": ["local _ma = require(\"a\")"]}
    for r in rendered:
        if r is None:
            continue
        texts[r[0]].extend(r[1] + r[2] + [""])
    texts["a"].append("return { fa = fa, fb = fb }")
    return {f: "\n".join(ls) + "\n" for f, ls in texts.items()}


def emmyrc(case):
    s = bool(case["strict"])
    return {"runtime": {"version": case["level"]},
            "strict": {"requirePath": s, "typeCall": s, "arrayIndex": s, "metaOverrideFileDefine": s,
                       "docBaseConstMatchBaseType": not s},
            "diagnostics": {"enables": ["incomplete-signature-doc", "missing-global-doc", "unknown-doc-tag",
                                        "code-style-check", "iter-variable-reassign"]}}


# ---- replay ---------------------------------------------------------------------------------------------
def replay(ctx, cases):
    """Runs vh_anaq crash over the cases, restarting after a case that kills the process or overruns its budget."""
    results = {}
    pending = list(range(len(cases)))
    rounds = 0
    while pending:
        rounds += 1
        path = os.path.join(ctx.work, "crash_%d.ndjson" % rounds)
        with open(path, "w") as fo:
            for i in pending:
                fo.write(json.dumps(cases[i]["input"]) + "\n")
        try:
            p = subprocess.run([vlib.bin_path("vh_anaq"), "crash", path, str(CPU_BUDGET_S)], stdout=subprocess.PIPE,
                               stderr=subprocess.PIPE, text=True, errors="replace", timeout=ctx.pick(1500, 6000))
        except subprocess.TimeoutExpired as ex:
            raise vlib.ToolError("vh_anaq crash: wall-clock timeout of the whole batch") from ex
        started = None
        done = set()
        for o in vlib.ndjson(p.stdout):
            if "start" in o:
                started = o["idx"]
            elif "budget_exceeded" in o:
                results[pending[o["idx"]]] = {"budget_exceeded": o["budget_exceeded"]}
                done.add(o["idx"])
            elif "idx" in o and ("ok" in o or "panic" in o):
                results[pending[o["idx"]]] = o
                done.add(o["idx"])
        if p.returncode == 0:
            break
        # died: the started-but-unfinished case is the culprit
        if started is None:
            raise vlib.ToolError("vh_anaq crash died before the first case: rc=%s %s" % (p.returncode, p.stderr[-2000:]))
        if started not in done:
            results[pending[started]] = {"died": p.returncode, "stderr": p.stderr[-1500:]}
        pending = pending[started + 1:]
        if rounds > 200:
            raise vlib.ToolError("too many restarts of vh_anaq crash")
    return results


def dominant(counts):
    """The two functions that occur most often on the stack (the recursion cycle), as a stable key."""
    top = sorted(counts.items(), key=lambda kv: (-kv[1], kv[0]))[:2]
    return "+".join(sorted(name.split("::")[-1] for name, _ in top))


def mechanism_of_death(ctx, case):
    """Re-run one dying program under gdb and name the function that dominates the overflowing stack, so that
    different unbounded recursions get different signatures.  Falls back to 'unknown' without gdb."""
    import shutil
    if not shutil.which("gdb"):
        return "unknown"
    path = os.path.join(ctx.work, "death_%d.ndjson" % case["input"]["id"])
    with open(path, "w") as fo:
        fo.write(json.dumps(case["input"]) + "\n")
    try:
        p = subprocess.run(["gdb", "-batch", "-ex", "run", "-ex", "bt 400", "--args", vlib.bin_path("vh_anaq"), "crash",
                            path, str(CPU_BUDGET_S)], stdout=subprocess.PIPE, stderr=subprocess.STDOUT, text=True,
                           errors="replace", timeout=300)
    except subprocess.TimeoutExpired:
        return "unknown"
    counts = {}
    for m in re.finditer(r"^#\d+\s+0x[0-9a-f]+ in (emmylua_[a-z_]+(?:::[A-Za-z0-9_<>{}]+)+?)::h[0-9a-f]{16}", p.stdout, re.M):
        fn = m.group(1).split("::")
        name = "::".join(fn[-2:])
        counts[name] = counts.get(name, 0) + 1
    if not counts:
        return "unknown"
    kind = "stack-overflow" if "overflowed its stack" in p.stdout or "SIGSEGV" in p.stdout else "abort"
    return "%s/%s" % (kind, dominant(counts))


def mechanism_of_hang(ctx, case):
    """Re-run one over-budget program, attach gdb after half the budget and name the dominating function."""
    import shutil
    import time
    if not shutil.which("gdb"):
        return "unknown"
    path = os.path.join(ctx.work, "hang_%d.ndjson" % case["input"]["id"])
    with open(path, "w") as fo:
        fo.write(json.dumps(case["input"]) + "\n")
    proc = subprocess.Popen([vlib.bin_path("vh_anaq"), "crash", path, "600"], stdout=subprocess.DEVNULL,
                            stderr=subprocess.DEVNULL)
    try:
        time.sleep(CPU_BUDGET_S / 2)
        if proc.poll() is not None:
            return "unknown"
        p = subprocess.run(["gdb", "-p", str(proc.pid), "-batch", "-ex", "thread apply all bt 200"], stdout=subprocess.PIPE,
                           stderr=subprocess.DEVNULL, text=True, errors="replace", timeout=120)
    except subprocess.TimeoutExpired:
        return "unknown"
    finally:
        proc.kill()
        proc.wait()
    counts = {}
    for m in re.finditer(r"^#\d+\s+0x[0-9a-f]+ in (emmylua_[a-z_]+(?:::[A-Za-z0-9_<>{}]+)+?)::h[0-9a-f]{16}", p.stdout, re.M):
        name = "::".join(m.group(1).split("::")[-2:])
        counts[name] = counts.get(name, 0) + 1
    if not counts:
        return "unknown"
    return dominant(counts)


def run(ctx):
    res = vlib.tlc("AnnoGen", "AnnoGen_mc", workers=ctx.pick(4, 8), timeout=1200)
    ctx.add_tlc(res)
    if res.violated:
        raise vlib.ToolError("AnnoGen generator invariant %s violated:\n%s" % (res.violated, res.trace_text[:2000]))
    n = ctx.pick(500, 4000)
    sim = vlib.tlc("AnnoGen", "AnnoGen_sim", workers=1, simulate="num=%d" % n, depth=20, seed=ctx.seed,
                   timeout=ctx.pick(900, 3000))
    ctx.cov["transitions"] += sim.generated
    if sim.violated:
        raise vlib.ToolError("AnnoGen simulation: %s" % sim.violated)
    progs = {}
    for tag, c in sim.json:
        if tag == "CASE":
            progs.setdefault(json.dumps([c["level"], c["strict"], c["items"]], sort_keys=True), c)
    if not progs:
        raise vlib.ToolError("AnnoGen simulation produced no program")
    cases = []
    for i, (k, c) in enumerate(sorted(progs.items())):
        texts = render(c)
        cases.append({"conf": c, "texts": texts,
                      "input": {"id": i, "std": True, "main": ROOT, "libs": [], "emmyrc": emmyrc(c),
                                "files": [[ROOT + "/a.lua", texts["a"]], [ROOT + "/b.lua", texts["b"]]]}})
    vlib.build(["vh-analysis"])
    results = replay(ctx, cases)
    feats = {"selfsuper": 0, "mutualsuper": 0, "recalias": 0, "malformed": 0, "aliassuper": 0, "tablit": 0, "stdcall": 0}
    seen = {}
    tokens = 0
    for i, c in enumerate(cases):
        r = results.get(i)
        if r is None:
            raise vlib.ToolError("no result for program %d" % i)
        f = c["conf"]["feat"]
        for k in feats:
            feats[k] += 1 if f[k] else 0
        ctx.count(json.dumps(c["conf"]["items"], sort_keys=True),
                  nontrivial=f["selfsuper"] or f["mutualsuper"] or f["recalias"] or f["malformed"] or f["aliassuper"])
        if r.get("ok"):
            ctx.validated(1)
            tokens += r.get("tokens", 0)
            continue
        if "panic" in r:
            msg = re.sub(r"\d+", "N", r["panic"])[:80]
            sig = "C12/panic/%s/%s" % (r.get("stage"), msg)
        elif "budget_exceeded" in r:
            sig = "C12/cpu-budget-exceeded/%s" % mechanism_of_hang(ctx, c)
        else:
            sig = "C12/process-died/%s" % mechanism_of_death(ctx, c)
        seen.setdefault(sig, []).append({"level": c["conf"]["level"], "strict": c["conf"]["strict"],
                                         "files": c["texts"], "emmyrc": c["input"]["emmyrc"], "observed": r,
                                         "features": f})
    for c in cases[:3]:
        ctx.sample({"level": c["conf"]["level"], "strict": c["conf"]["strict"], "a.lua": c["texts"]["a"][:600],
                    "b.lua": c["texts"]["b"][:400]})
    ctx.note("programs_with_feature", feats)
    ctx.note("tokens_queried", tokens)
    ctx.rule("program = sequence of <= 14 generator items (AnnoGen.tla) over two files x Lua level x strict mode, produced "
             "by seeded TLC simulation; non-trivial = contains self/mutual inheritance, a recursive alias, inheritance through "
             "an alias of the class or a malformed annotation; each program: index, diagnose, semantic info + declaration of every token, type of every "
             "expression, rendering at 4 levels, within %.0f s CPU" % CPU_BUDGET_S)
    ctx.assume("no oracle beyond termination without panic; 8 MiB thread stack as for a default main thread")
    for sig, items in sorted(seen.items()):
        ctx.violation(sig, {"count": len(items), "first": items[0], "more": items[1:3]})
