"""C36: emmylua_check exit status and reports match the diagnostics.

1. TLC model-checks spec/Checker.tla (all interleavings of N diagnose tasks x outcomes x channel capacity
   x filter x --warnings-as-errors): consumer terminates, each Some(list) written exactly once after the
   filter, exit = 1 <=> failing diagnostic kept -- i.e. the result equals the declarative CheckerRef.
2. TLC enumerates spec/CheckerCases.tla (workspaces x severity overrides x enable x --severity x
   --warnings-as-errors x format/destination) with the CheckerRef expectation of every case.
3. The spec's snippet -> diagnostic table is calibrated in-process (vh_anaq diag) on the workspaces used.
4. A stratified, seeded sample of the cases is run through the real `emmylua_check` binary built from the
   current tree; exit status and the parsed text / JSON / SARIF report are compared with the expectation.
"""
import concurrent.futures
import json
import os
import random
import re
import subprocess
import sys

sys.path.insert(0, os.path.dirname(__file__))
import vlib  # noqa: E402
import _repobins  # noqa: E402

FILES = {"a": "a.lua", "b": "b.lua", "c": os.path.join("sub", "c.lua"), "l": os.path.join("lib", "l.lua")}
SEV_NAME = {1: "error", 2: "warning", 3: "information", 4: "hint"}
TEXT_LEVEL = {"error": 1, "warning": 2, "info": 3, "hint": 4}
SARIF_LEVEL = {1: "error", 2: "warning", 3: "note", 4: "note"}
FLT_ARG = {1: "error", 2: "warn", 3: "info", 4: "hint"}


def snippet(kind, f, i):
    if kind == "U":
        return "print(vh_u_%s%d)" % (f, i)
    if kind == "X":
        return "local _vh_x%d = \"é\U0001F600\" print(vh_x_%s%d)" % (i, f, i)
    if kind == "W":
        return "local _vh_w%da, _vh_w%db = 1" % (i, i)
    if kind == "N":
        return "local vh_n_%s%d = 1" % (f, i)
    if kind == "S":
        return "local _vh_s%d = \"abc" % i
    raise vlib.ToolError("unknown snippet kind %r" % kind)


def file_text(f, content):
    return "".join(snippet(k, f, i) + "\n" for i, k in enumerate(content))


def emmyrc(case, with_library=True):
    d = {}
    sev = {c: SEV_NAME[v] for c, v in sorted(case["ovr"].items()) if v}
    if sev:
        d["severity"] = sev
    if not case["enable"]:
        d["enable"] = False
    rc = {"diagnostics": d}
    if with_library:
        rc["workspace"] = {"library": ["lib"]}
    return rc


def ws_key(case):
    return json.dumps([case["ws"], case["ovr"], case["enable"]], sort_keys=True)


def materialise(case, root):
    for f, rel in FILES.items():
        p = os.path.join(root, rel)
        os.makedirs(os.path.dirname(p), exist_ok=True)
        with open(p, "w", encoding="utf-8") as fo:
            fo.write(file_text(f, case["ws"][f]))
    with open(os.path.join(root, ".emmyrc.json"), "w") as fo:
        json.dump(emmyrc(case), fo)


# ------------------------------------------------------------------------------------------------
# report parsers: each returns {"files": [listed file, ...(with repetitions)], "diags": [(file, line, code, lvl)],
#                               "problems": [...]}
# ------------------------------------------------------------------------------------------------
def rel_of(path, root):
    path = os.path.realpath(path) if os.path.isabs(path) else path
    root = os.path.realpath(root)
    if path.startswith(root + os.sep):
        path = path[len(root) + 1:]
    return path


def parse_json_report(text, root):
    out = {"files": [], "diags": [], "problems": [], "summary": None}
    if not text.strip():
        return out  # nothing written at all: no file had a Some(..) result
    try:
        data = json.loads(text)
    except Exception as e:
        out["problems"].append("unparsable-json: %s" % e)
        return out
    for ent in data:
        f = rel_of(ent["file"], root)
        out["files"].append(f)
        for d in ent["diagnostics"]:
            out["diags"].append((f, d["range"]["start"]["line"], d.get("code"), d.get("severity")))
    return out


def parse_sarif_report(text, root):
    out = {"files": [], "diags": [], "problems": [], "summary": None}
    try:
        data = json.loads(text)
        results = data["runs"][0]["results"]
        if len(data["runs"]) != 1:
            out["problems"].append("sarif-runs=%d" % len(data["runs"]))
    except Exception as e:
        out["problems"].append("unparsable-sarif: %s" % e)
        return out
    for r in results:
        loc = r["locations"][0]["physicalLocation"]
        uri = loc["artifactLocation"]["uri"]
        path = uri[len("file://"):] if uri.startswith("file://") else uri
        f = rel_of(path, root)
        out["diags"].append((f, loc["region"]["startLine"] - 1, r["ruleId"], r["level"]))
    return out


_HDR = re.compile(r"^--- (\S+) (?:\[(.*)\])?$")
_DIAG = re.compile(r"^(error|warning|info|hint): .* \[([a-z-]+)\]$")
_LOC = re.compile(r"^  --> (\S+):(\d+):(\d+)$")
_SUM = re.compile(r"^  (\d+) (error|warning|info|hint)s?$")


def parse_text_report(text, root):
    out = {"files": [], "diags": [], "problems": [], "summary": None, "headers": {}}
    lines = text.splitlines()
    pending = None
    in_summary = False
    for ln in lines:
        if ln == "Summary":
            in_summary = True
            out["summary"] = {1: 0, 2: 0, 3: 0, 4: 0}
            continue
        if ln == "No issues found":
            out["summary"] = {1: 0, 2: 0, 3: 0, 4: 0}
            continue
        if in_summary:
            m = _SUM.match(ln)
            if m:
                out["summary"][TEXT_LEVEL[m.group(2)]] = int(m.group(1))
            continue
        m = _HDR.match(ln)
        if m:
            out["files"].append(m.group(1))
            cnt = {1: 0, 2: 0, 3: 0, 4: 0}
            for part in (m.group(2) or "").split(", "):
                mm = re.match(r"^(\d+) (error|warning|info|hint)s?$", part)
                if mm:
                    cnt[TEXT_LEVEL[mm.group(2)]] = int(mm.group(1))
            out["headers"][m.group(1)] = cnt
            continue
        m = _DIAG.match(ln)
        if m:
            pending = (TEXT_LEVEL[m.group(1)], m.group(2))
            continue
        m = _LOC.match(ln)
        if m and pending:
            out["diags"].append((m.group(1), int(m.group(2)) - 1, pending[1], pending[0]))
            pending = None
    return out


# ------------------------------------------------------------------------------------------------
def run_case(binary, case, cdir):
    root = os.path.join(cdir, "ws")
    materialise(case, root)
    out = case["out"]
    fmt = out.split("-")[0]
    args = [binary, root, "-f", fmt]
    report_path = None
    if out.endswith("-file"):
        report_path = os.path.join(cdir, "out", "report." + fmt)
        args += ["--output", report_path]
    if case["flt"]:
        args += ["--severity", FLT_ARG[case["flt"]]]
    if case["wae"]:
        args += ["--warnings-as-errors"]
    try:
        # 4 runtime workers (>= number of diagnose tasks) instead of one per core: same concurrency structure,
        # far less thread start-up cost on the shared 16-core machine
        env = dict(os.environ, TOKIO_WORKER_THREADS="4")
        p = subprocess.run(args, stdout=subprocess.PIPE, stderr=subprocess.PIPE, text=True, errors="replace",
                           timeout=120, cwd=cdir, env=env)
    except subprocess.TimeoutExpired:
        return {"hang": True, "args": args[1:]}
    text = p.stdout
    if report_path:
        try:
            with open(report_path, encoding="utf-8", errors="replace") as f:
                text = f.read()
        except OSError:
            text = None
    return {"rc": p.returncode, "report": text, "stdout": p.stdout, "stderr": p.stderr[-1500:], "args": args[1:],
            "root": root}


def judge(case, obs):
    """Compare an observation with the spec's expectation; returns list of (kind, info)."""
    bad = []
    if obs.get("hang"):
        return [("hang", "no exit within 120 s")]
    if obs["rc"] != case["exit"]:
        kind = "crash" if obs["rc"] not in (0, 1) else "exit/exp%d-got%d/flt=%d,wae=%d" % (
            case["exit"], obs["rc"], case["flt"], int(case["wae"]))
        bad.append((kind, "exit status %s, expected %s" % (obs["rc"], case["exit"])))
    if obs["report"] is None:
        bad.append(("report-file-missing", "no report file written"))
        return bad
    root = obs["root"]
    fmt = case["out"].split("-")[0]
    rep = {"json": parse_json_report, "sarif": parse_sarif_report, "text": parse_text_report}[fmt](obs["report"], root)
    for pb in rep["problems"]:
        bad.append(("report/" + pb.split(":")[0], pb))
    main = ["a", "b", "c"]
    exp_diags = []
    for f in main:
        for d in case["kept"][f]:
            lvl = SARIF_LEVEL[d["sev"]] if fmt == "sarif" else d["sev"]
            exp_diags.append((FILES[f], d["line"], d["code"], lvl))
    got = sorted(rep["diags"])
    exp = sorted(exp_diags)
    if got != exp:
        missing = [d for d in exp if exp.count(d) > got.count(d)]
        extra = [d for d in got if got.count(d) > exp.count(d)]
        if any(d[0] == FILES["l"] for d in extra):
            bad.append(("library-leak", {"extra": extra[:5]}))
        elif extra and not missing:
            dup = [d for d in extra if d in exp]
            bad.append(("duplicate-diagnostic" if dup else "extra-diagnostic", {"extra": extra[:5]}))
        elif missing and not extra:
            bad.append(("missing-diagnostic", {"missing": missing[:5]}))
        else:
            bad.append(("wrong-diagnostic", {"missing": missing[:5], "extra": extra[:5]}))
    # which files are listed, each once
    if fmt == "json":
        exp_files = sorted(FILES[f] for f in main if case["some"][f])
    elif fmt == "text":
        exp_files = sorted(FILES[f] for f in main if case["kept"][f])
    else:
        exp_files = None
    if exp_files is not None and sorted(rep["files"]) != exp_files:
        gotf = sorted(rep["files"])
        if len(set(gotf)) != len(gotf):
            bad.append(("file-listed-twice", {"listed": gotf}))
        else:
            bad.append(("file-list", {"listed": gotf, "expected": exp_files}))
    if fmt == "text":
        # per-file header counters and the summary are part of the text report
        for f in main:
            cnt = {s: sum(1 for d in case["kept"][f] if d["sev"] == s) for s in (1, 2, 3, 4)}
            h = rep["headers"].get(FILES[f])
            if h is not None and h != cnt:
                bad.append(("text-header-count", {"file": FILES[f], "header": h, "expected": cnt}))
        tot = {s: sum(1 for f in main for d in case["kept"][f] if d["sev"] == s) for s in (1, 2, 3, 4)}
        if rep["summary"] is None:
            bad.append(("text-summary-missing", ""))
        elif rep["summary"] != tot:
            bad.append(("text-summary-count", {"summary": rep["summary"], "expected": tot}))
    return bad


def calibrate(ctx, cases):
    """The spec's snippet table (kind -> one diagnostic of code c and severity s on its line) against the analyzer."""
    seen = {}
    for c in cases:
        seen.setdefault(ws_key(c), c)
    path = os.path.join(ctx.work, "calib.ndjson")
    root = "/vh/c36"
    with open(path, "w") as fo:
        for i, (k, c) in enumerate(sorted(seen.items())):
            fo.write(json.dumps({
                "id": i, "std": True, "main": root, "libs": [root + "/lib"], "emmyrc": emmyrc(c, with_library=False),
                "files": [[root + "/" + FILES[f], file_text(f, c["ws"][f])] for f in sorted(FILES)]}) + "\n")
    p = vlib.run_bin("vh_anaq", ["diag", path], timeout=1200)
    res = {o["id"]: o for o in vlib.ndjson(p.stdout) if "id" in o}
    for i, (k, c) in enumerate(sorted(seen.items())):
        o = res.get(i)
        if o is None or "panic" in o:
            raise vlib.ToolError("calibration run failed for %s: %s" % (k, o))
        for f in FILES:
            got = o["diags"][root + "/" + FILES[f]]
            if f == "l" or not c["enable"]:
                exp = None
            else:
                exp = sorted([d["line"], d["code"], d["sev"]] for d in c["diags"][f])
            gotn = None if got is None else sorted([g[0], g[4], g[5]] for g in got)
            if gotn != exp:
                raise vlib.ToolError(
                    "snippet alphabet of CheckerCases.tla is not calibrated for this tree (not a C36 verdict): "
                    "workspace %s file %s: analyzer says %s, spec table says %s" % (k, f, got, exp))
    ctx.note("calibrated_workspaces", len(seen))


def sample(cases, per_stratum, rnd):
    strata = {}
    for c in cases:
        strata.setdefault((c["out"], c["flt"], c["wae"]), []).append(c)
    chosen = []
    for key in sorted(strata):
        groups = {}
        for c in strata[key]:
            filtered = any(len(c["kept"][f]) != len(c["diags"][f]) for f in ("a", "b", "c")) if c["enable"] else False
            haswarn = any(d["sev"] == 2 for f in ("a", "b", "c") for d in c["diags"][f])
            haserr = any(d["sev"] == 1 for f in ("a", "b", "c") for d in c["diags"][f])
            groups.setdefault((c["enable"], c["exit"], filtered, haswarn, haserr), []).append(c)
        order = sorted(groups)
        for g in order:
            rnd.shuffle(groups[g])
        n = 0
        i = 0
        while n < per_stratum and any(groups[g] for g in order):
            g = order[i % len(order)]
            i += 1
            if groups[g]:
                chosen.append(groups[g].pop())
                n += 1
    return chosen


OUTS = ["text", "json", "json-file", "sarif", "sarif-file"]


def cross_cells(cases, rnd, seed, all_formats):
    """(strengthened after seeded review) One case for EVERY cell of the spec's cross product
    {--severity} x {--warnings-as-errors} x {highest severity present in the workspace} (`top`, computed by
    CheckerCases.tla); the output format rotates so that every pair (format, flt), (format, wae), (format, top)
    occurs; every cell in which the filter decides the exit status (`decides`) runs in every format.
    Returns (chosen cases, set of cells that exist)."""
    by = {}
    for c in cases:
        by.setdefault((c["flt"], c["wae"], c["top"], c["out"]), []).append(c)
    cells = sorted({k[:3] for k in by})
    chosen = []
    for (flt, wae, top) in cells:
        decides = any(c["decides"] for o in OUTS for c in by.get((flt, wae, top, o), []))
        if all_formats or decides:
            outs = OUTS
        else:
            outs = [OUTS[(flt + top + 3 * int(wae) + seed) % len(OUTS)]]
        for o in outs:
            pool = by.get((flt, wae, top, o), [])
            if not pool:
                raise vlib.ToolError("cross cell %s lacks format %s" % ((flt, wae, top), o))
            # prefer a workspace in which the filter really removes something
            pref = [c for c in pool if any(len(c["kept"][f]) != len(c["diags"][f]) for f in ("a", "b", "c"))] or pool
            chosen.append(pref[rnd.randrange(len(pref))])
    return chosen, set(cells)


def run(ctx):
    # ---- 1. the operational model, all interleavings ------------------------------------------------
    for cfg, to in ((ctx.pick("Checker_q", "Checker_t"), ctx.pick(300, 1500)), ("Checker_live", 300)):
        res = vlib.tlc("Checker", cfg, workers=ctx.pick(4, 8), timeout=to, deadlock=True)
        ctx.add_tlc(res)
        if res.violated:
            raise vlib.ToolError("Checker.tla (%s) violates %s: the model of run_check/output_result does not "
                                 "refine CheckerRef:\n%s" % (cfg, res.violated, res.trace_text[:3000]))
    vac = vlib.tlc("Checker", "Checker_vac", workers=2, timeout=300)
    if vac.violated != "NeverClosedPath":
        raise vlib.ToolError("vacuity guard: no behaviour of Checker.tla ends through the closed-channel path")
    # ---- 2. cases with expectations -------------------------------------------------------------------
    res = vlib.tlc("CheckerCases", ctx.pick("CheckerCases_q", "CheckerCases_t"), workers=ctx.pick(4, 8),
                   timeout=ctx.pick(300, 1500))
    ctx.add_tlc(res)
    if res.violated:
        raise vlib.ToolError("CheckerCases reference inconsistent: %s\n%s" % (res.violated, res.trace_text[:2000]))
    cases = [c for tag, c in res.json if tag == "CASE"]
    if len(cases) != res.distinct:
        raise vlib.ToolError("case extraction lost cases: %d printed, %d distinct" % (len(cases), res.distinct))
    cases.sort(key=lambda c: json.dumps(c, sort_keys=True))
    rnd = random.Random(ctx.seed)
    chosen = sample(cases, ctx.pick(4, 24), rnd)
    cross, cells = cross_cells(cases, rnd, ctx.seed, all_formats=not ctx.quick)
    want = {(f, w, t) for f in range(5) for w in (False, True) for t in range(1, 6)}
    if cells != want:
        raise vlib.ToolError("CheckerCases does not realise every cell of flt x wae x top: missing %s" % sorted(want - cells))
    if not any(c["decides"] and c["flt"] == 1 and c["wae"] and c["top"] == 2 for c in cross):
        raise vlib.ToolError("the cell (--severity error, --warnings-as-errors, warnings only) is not in the replayed set")
    have = {json.dumps(c, sort_keys=True) for c in chosen}
    chosen += [c for c in cross if json.dumps(c, sort_keys=True) not in have]
    ctx.note("cases_enumerated", len(cases))
    ctx.note("cross_cells_replayed", len(cells))
    ctx.note("cross_cases", len(cross))
    ctx.note("filter_decides_cases_replayed", sum(1 for c in chosen if c["decides"]))
    # ---- 3. calibration + 4. black-box replay ---------------------------------------------------------
    vlib.build(["vh-analysis"])
    calibrate(ctx, chosen)
    bins = _repobins.build(["emmylua_check"])
    binary = bins["emmylua_check"]

    def work(ic):
        i, c = ic
        cdir = os.path.join(ctx.work, "cases", "%05d" % i)
        os.makedirs(cdir, exist_ok=True)
        return c, run_case(binary, c, cdir)

    with concurrent.futures.ThreadPoolExecutor(max_workers=ctx.pick(4, 8)) as ex:
        results = list(ex.map(work, enumerate(chosen)))
    seen = {}
    for c, obs in results:
        filtered = any(len(c["kept"][f]) != len(c["diags"][f]) for f in ("a", "b", "c"))
        ctx.count(json.dumps([c["ws"], c["ovr"], c["enable"], c["flt"], c["wae"], c["out"]], sort_keys=True),
                  nontrivial=c["enable"] and (filtered or c["exit"] == 1))
        bad = judge(c, obs)
        if not bad:
            ctx.validated(1)
        for kind, info in bad:
            fmt = c["out"]
            if kind.startswith("exit/") and c["decides"]:
                # the exit status was decided from the unfiltered diagnostics (cell where only the filter decides)
                kind += ",top=%d/decided-before-filter" % c["top"] if obs.get("rc") == c["exit_unfiltered"] else ",top=%d" % c["top"]
            sig = "C36/%s/%s" % (fmt if not kind.startswith("exit/") else "any", kind)
            seen.setdefault(sig, []).append({
                "case": {k: c[k] for k in ("ws", "ovr", "enable", "flt", "wae", "out")},
                "emmyrc": emmyrc(c), "files": {FILES[f]: file_text(f, c["ws"][f]) for f in FILES},
                "args": obs.get("args"), "expected": {"exit": c["exit"], "listed": c["some"], "kept": c["kept"]},
                "observed": {"rc": obs.get("rc"), "report": (obs.get("report") or "")[:4000],
                             "stderr": obs.get("stderr")},
                "problem": info})
    for c, obs in results[:4]:
        ctx.sample({"args": obs.get("args"), "ws": c["ws"], "ovr": c["ovr"], "expected_exit": c["exit"],
                    "expected_kept": c["kept"], "observed_rc": obs.get("rc")})
    ctx.rule("cases = (workspace contents x per-code severity overrides x diagnostics.enable x --severity x "
             "--warnings-as-errors x format/destination) enumerated exhaustively by TLC with the CheckerRef expectation; "
             "a seeded sample stratified over (format, filter, wae) x (enable, exit, filtered?, has warning, has error) is run "
             "through the real binary, plus one case for every cell of --severity x --warnings-as-errors x highest severity "
             "present (format rotating; all formats where the filter decides the exit status, and in thorough); non-trivial = diagnostics enabled and (the filter removes a diagnostic or the "
             "expected exit status is 1)")
    ctx.assume("tokio mpsc/spawn semantics as transcribed in spec/Checker.tla (bounded FIFO, recv() = None when all "
               "senders are dropped, a panicking task drops its sender)")
    ctx.assume("snippet -> diagnostic table of spec/CheckerCases.tla, calibrated in-process in this run")
    for sig, items in sorted(seen.items()):
        ctx.violation(sig, {"count": len(items), "first": items[0], "more": items[1:3]})
