import os, sys
sys.path.insert(0, os.path.dirname(__file__))
import _config


def run(ctx):
    _config.pinned_selftest(ctx, "ConfigMerge", "ConfigMerge_pinned2", "LaterWins")
    if not ctx.quick:
        _config.pinned_selftest(ctx, "ConfigMerge", "ConfigMerge_pinned3", "Confluent")
    n = _config.run_merge(ctx, "C32")
    ctx.cov["exhaustive"] = True
    ctx.rule("TLC enumerates every list of config files within the weight bound over the key alphabet {a, a.b, a.c, "
             "a.b.c} in every flat/nested spelling with leaves {1, 2, [1], [1,2]}, and over the sibling alphabet {a, ab, a.b, "
             "a.bb} whose names are string prefixes of each other without a dot boundary (2 files; 3 files over {a.b, a.bb}) "
             "(%d abstract cases), together with "
             "the reference result (later file wins per setting whatever the spelling, arrays appended without "
             "duplicates); each case is written as real files in three concrete forms (sibling cases: abstract keys and the "
             "real pairs diagnostics.enable/enables, diagnostics.globals/globalsRegex, completion.autoRequire/"
             "autoRequireFunction, doc/documentColor, in JSON and with one file in Lua) and loaded in 2 fresh processes, "
             "cases where the statement only demands determinism in 16 (quick) / 64 (thorough); non-trivial = weight >= 2" % n)
    ctx.assume("serde_json::Map is a BTreeMap (no preserve_order feature in Cargo.lock), so objects iterate in key order")
    ctx.assume("serde_json::from_value::<Emmyrc> of the reference JSON is the expected typed configuration (serde trusted)")
