"""Shared driver for C31 / C32: ConfigMerge.tla and ConfigPath.tla cases replayed into the real config loader.

TLC enumerates the cases and, for each, the model's result (transcription of the loader) and the reference
result (meaning of the property statement).  This file only transports: it spells every abstract case as
real config files (three concrete forms), runs harness/vh_config in several FRESH processes (hash order
changes per process) and compares.
"""
import concurrent.futures
import json
import os
import random
import time

import vlib

# ---- abstract -> concrete --------------------------------------------------------------------------
SCHEMES = {
    # abstract segment -> real key segment; scalar / array item n -> value
    "id": ({"a": "a", "b": "b", "c": "c", "": "", "ab": "ab", "bb": "bb"}, lambda n: n),
    # workspace.encoding is a string setting, workspace.ignoreDir a list of strings (order a<b<c is kept)
    "ws": ({"a": "workspace", "b": "encoding", "c": "ignoreDir", "": ""}, lambda n: "v%d" % n),
    # tiers "p" / "p3": settings whose NAME is a string prefix of a sibling's name (no dot boundary); the byte order
    # a < a.b < a.bb < ab of ConfigMerge!Rank is kept.  The third component types the value by the real key it is
    # stored under (so that well-typed combinations reach the typed Emmyrc): f(n, last key segment, inside an array)
    "de": ({"a": "diagnostics", "b": "enable", "bb": "enables", "ab": "diagnosticsEx", "": ""}, None,
           lambda n, key, arr: ["undefined-global", "unused"][n - 1] if arr else n == 1),
    "dg": ({"a": "diagnostics", "b": "globals", "bb": "globalsRegex", "ab": "diagnosticsEx", "": ""}, lambda n: "v%d" % n),
    "ca": ({"a": "completion", "b": "autoRequire", "bb": "autoRequireFunction", "ab": "completionEx", "": ""}, None,
           lambda n, key, arr: n == 1 if key == "autoRequire" and not arr else "v%d" % n),
    "dc": ({"a": "doc", "b": "privateName", "bb": "privateNames", "ab": "documentColor", "": ""}, lambda n: "v%d" % n),
}


def concrete(val, scheme, key=""):
    sch = SCHEMES[scheme]
    segs = sch[0]
    sc = (lambda n, arr: sch[2](n, key, arr)) if len(sch) > 2 else (lambda n, arr: sch[1](n))
    t = val["t"]
    if t == "s":
        return sc(val["v"], False)
    if t == "a":
        return [sc(x, True) for x in val["v"]]
    if t == "o":
        return {".".join(segs[s] for s in k): concrete(v, scheme, segs[k[-1]]) for k, v in val["v"]}
    if t == "n":
        return None
    raise vlib.ToolError("cannot concretise %r" % (val,))


def lua_src(v):
    if isinstance(v, dict):
        return "{ " + ", ".join("[%s] = %s" % (json.dumps(k), lua_src(x)) for k, x in v.items()) + " }"
    if isinstance(v, list):
        return "{ " + ", ".join(lua_src(x) for x in v) + " }"
    return json.dumps(v)


def lua_ok(v):
    """a Lua table cannot tell {} from []: only files without empty containers are spelled in Lua"""
    if isinstance(v, dict):
        return len(v) > 0 and all(lua_ok(x) for x in v.values())
    if isinstance(v, list):
        return len(v) > 0
    return True


BAD = [("bad.json", '{"workspace": {"encoding": '), ("missing.json", None), ("bad.lua", "return { a = "),
       ("err.lua", "error('boom')"), ("notable.lua", "return 5"), ("bad2.json", "﻿{]")]


FORMS = (("id", "id", False), ("ws", "ws", False), ("lua", "ws", True))
# cases over the sibling-prefix alphabet (tiers "p", "p3"): abstract keys and the real pairs diagnostics.enable /
# enables, diagnostics.globals / globalsRegex, completion.autoRequire / autoRequireFunction, doc / documentColor
P_REAL = ("de", "dg", "ca", "dc")


def forms_of(idx, case, only):
    tier = case.get("tier", "q")
    if tier == "p":      # every real pair, and one of them (rotating) with a file written in Lua
        forms = (("id", "id", False),) + tuple((s, s, False) for s in P_REAL) + (("lua", P_REAL[idx % 3], True),)
    elif tier == "p3":   # abstract keys + one real pair (rotating), in JSON or with a file written in Lua
        forms = (("id", "id", False), (("lua", P_REAL[idx % 3], True) if idx % 2 else (P_REAL[idx % 3], P_REAL[idx % 3], False)))
    else:
        forms = FORMS
    return forms if only is None else (forms[only % len(forms)],)


def concrete_cases(idx, case, only=None):
    """the concrete forms of an abstract case: id/json, real keys/json, real keys with one file written in Lua
    (only = index of the single form to produce, used when the case list is very long)"""
    out = []
    for form, scheme, lua in forms_of(idx, case, only):
        files = []
        n = len(case["files"])
        used_lua = False
        for i, f in enumerate(case["files"]):
            if f["kind"] == "bad":
                name, text = BAD[(idx + i) % len(BAD)]
                files.append({"name": "%d_%s" % (i, name), "text": text})
                continue
            v = concrete(f["json"], scheme)
            if lua and i == idx % n and f["kind"] == "obj" and lua_ok(v):
                files.append({"name": "%d.lua" % i, "text": "return " + lua_src(v)})
                used_lua = True
            else:
                files.append({"name": "%d.json" % i, "text": json.dumps(v)})
        if lua and not used_lua:
            continue
        out.append({"id": "%d.%s" % (idx, form), "idx": idx, "form": form, "scheme": scheme, "files": files,
                    "pre": False,
                    "expect_raw": concrete(case["ref"], scheme) if case["exact"] else None,
                    "model_raw": concrete(case["model"], scheme)})
    return out


TOK = {"e2": "é", "W": "workspaceFolder"}


def path_str(chars):
    return "".join(TOK.get(c, c) for c in chars)


# ---- TLC ---------------------------------------------------------------------------------------------
def tlc_cases(ctx, module, cfgs, tag):
    cases = []
    for cfg in cfgs:
        res = vlib.tlc(module, cfg, workers=ctx.pick(4, 8), timeout=ctx.pick(900, 3000))
        ctx.add_tlc(res)
        vlib.log("TLC %s/%s: %d states, %.0fs" % (module, cfg, res.distinct, res.wall))
        if res.violated:
            raise vlib.ToolError("%s/%s: the model of the current algorithm violates %s (the code and the spec "
                                 "disagree with the property at design level):\n%s"
                                 % (module, cfg, res.violated, res.trace_text[:3000]))
        got = [c for t, c in res.json if t == tag]
        if not got:
            raise vlib.ToolError("%s/%s printed no cases" % (module, cfg))
        cases += got
    # TLC's workers print in a nondeterministic order; a canonical order makes the run reproducible
    cases.sort(key=lambda c: json.dumps(c, sort_keys=True))
    return cases


def pinned_selftest(ctx, module, cfg, invariant):
    """the transcription of the PINNED algorithm must violate the invariant (the model check has teeth)"""
    res = vlib.tlc(module, cfg, workers=2, timeout=600)
    ctx.add_tlc(res)
    if res.violated != invariant:
        raise vlib.ToolError("%s/%s: expected TLC to report %s violated on the pinned algorithm, got %r"
                             % (module, cfg, invariant, res.violated))
    ctx.cov.setdefault("pinned_algorithm_counterexamples", []).append(
        {"cfg": cfg, "invariant": invariant, "states": res.distinct})


def run_harness(ctx, cases, nproc, tagdir, env=None):
    """run all `cases` in `nproc` fresh processes; returns list (per process) of {id: result}"""
    path = os.path.join(ctx.work, tagdir + ".ndjson")
    with open(path, "w") as f:
        for c in cases:
            f.write(json.dumps({k: c[k] for k in ("id", "files", "pre", "expect_raw") if k in c} |
                               ({"ws": c["ws"]} if "ws" in c else {})) + "\n")
    e = {"HOME": "/home/u", "a": "/e"}
    e.update(env or {})
    t0 = time.time()

    def one(p):
        scratch = os.path.join(ctx.work, "%s_p%d" % (tagdir, p))
        os.makedirs(scratch, exist_ok=True)
        pr = vlib.run_bin("vh_config", [path, scratch], timeout=ctx.pick(900, 3000), env=e)
        out = vlib.ndjson(pr.stdout)
        if not any("summary" in o for o in out):
            raise vlib.ToolError("vh_config produced no summary\n" + pr.stderr[-2000:])
        return {o["id"]: o for o in out if "id" in o}

    # the processes are independent (own scratch directory each): up to 4 at a time, results kept in process order
    with concurrent.futures.ThreadPoolExecutor(max_workers=4) as pool:
        runs = list(pool.map(one, range(nproc)))
    vlib.log("vh_config %s: %d cases x %d processes in %.0fs" % (tagdir, len(cases), nproc, time.time() - t0))
    return runs


def merge_class(cls):
    if cls["ambiguous"] or cls["cross"]:
        return "conflicting-keys"
    if cls["root"]:
        return "non-object-root"
    return "plain"


# ---- the merge part (C31 panics, C32 determinism / later-wins / arrays / flat = nested) ------------------------
def run_merge(ctx, prop):
    cfgs = ctx.pick(["ConfigMerge_q", "ConfigMerge_q3", "ConfigMerge_qp", "ConfigMerge_qp3"],
                    ["ConfigMerge_t", "ConfigMerge_t2", "ConfigMerge_q3", "ConfigMerge_tp", "ConfigMerge_qp3"])
    cases = tlc_cases(ctx, "ConfigMerge", cfgs, "CASE")
    vlib.build(["vh-analysis"])
    conc = []
    all_forms = len(cases) <= 25000     # thorough: one form per case, rotating
    for i, c in enumerate(cases):
        conc += concrete_cases(i, c, None if all_forms else i)
    # cases where only determinism is demanded are the order-sensitive ones: more fresh processes (the Lua form
    # only adds the Lua loader in front of the same merge, it stays in the two base processes)
    if os.environ.get("VERIF_CORRUPT"):  # binding self-test: one wrong expectation must be rejected
        victim = next(c for c in conc if isinstance(c["expect_raw"], dict) and c["expect_raw"])
        victim["expect_raw"] = dict(victim["expect_raw"], corrupted=1)
    # (the sibling-prefix tiers add keys, not orders: their cases stay in the two base processes as well)
    inexact = [c for c in conc if c["expect_raw"] is None and c["form"] != "lua"
               and cases[c["idx"]].get("tier") not in ("p", "p3")]
    nproc = ctx.pick(16, 64) if prop == "C32" else ctx.pick(4, 16)
    cap = ctx.pick(10 ** 9, 6000)  # thorough: a seeded sample of the order-sensitive cases goes to the extra processes
    if len(inexact) > cap:
        inexact = random.Random(ctx.seed).sample(inexact, cap)
    runs = run_harness(ctx, conc, 2, "merge_all")
    runs_more = run_harness(ctx, inexact, nproc - 2, "merge_inexact") if inexact else []
    ctx.note("fresh_processes_for_order_sensitive_cases", nproc)
    ctx.note("concrete_cases", len(conc))
    ctx.note("order_sensitive_concrete_cases", len(inexact))
    seen = {}

    def report(sig, detail):
        seen.setdefault(sig, []).append(detail)

    for cc in conc:
        case = cases[cc["idx"]]
        cls = case["cls"]
        outs = [r[cc["id"]] for r in runs] + [r[cc["id"]] for r in runs_more if cc["id"] in r]
        detail = {"files": cc["files"], "form": cc["form"], "classes": cls}
        panics = [o["panic"] for o in outs if o["panic"]]
        if panics:
            if prop == "C31":
                report("C31/panic/merge/" + merge_class(cls),
                       dict(detail, panic=panics[0], panicking_processes=len(panics), processes=len(outs)))
            continue  # crash freedom is owned by C31; nothing to compare for C32
        if prop == "C31":
            continue
        raws = [json.dumps(o["raw"], sort_keys=True) + "|" + str(o["typed"]) for o in outs]
        if len(set(raws)) > 1:
            report("C32/nondeterministic/" + merge_class(cls),
                   dict(detail, outcomes=sorted(set(raws))[:4], processes=len(outs)))
            continue
        got = outs[0]["raw"]
        if cc["expect_raw"] is not None:
            what = ("arrays" if cls["arrays"] else "scalar") + "/" + ("mixed-spelling" if cls["mixed"] else "same-spelling")
            if cls.get("sibling"):  # a later file sets a key whose name is a string prefix of an earlier sibling's name
                what += "/prefix-sibling"
            if got != cc["expect_raw"]:
                report("C32/later-wins/" + what, dict(detail, expected=cc["expect_raw"], observed=got))
                continue
            if outs[0]["typed_ok"] is False:
                report("C32/typed/" + what, dict(detail, expected_raw=cc["expect_raw"],
                                                 note="serialised Emmyrc of load_configs differs from from_value(expected_raw)"))
                continue
        if got != cc["model_raw"]:
            ctx.divergence("merge model %s != real %s for %s" % (json.dumps(cc["model_raw"]), json.dumps(got),
                                                                json.dumps(cc["files"])))
    for i, c in enumerate(cases):
        weight = sum(max(1, f["n"]) for f in c["files"])
        ctx.count(("merge", i, tuple(cfgs)), nontrivial=weight >= 2)
    ctx.validated(len(conc))
    rnd = random.Random(ctx.seed)
    for cc in rnd.sample(conc, min(4, len(conc))):
        ctx.sample({"files": cc["files"], "expected_by_reference": cc["expect_raw"], "model_result": cc["model_raw"]})
    for sig, ds in sorted(seen.items()):
        ctx.violation(sig, {"count": len(ds), "first": ds[0], "more": ds[1:4]})
    return len(cases)


# ---- the path part (C31 only) ----------------------------------------------------------------------------
def run_paths(ctx):
    cfg = ctx.pick("ConfigPath_q", "ConfigPath_t")
    cases = tlc_cases(ctx, "ConfigPath", [cfg], "PATH")
    vlib.build(["vh-analysis"])
    conc = []
    for i, c in enumerate(cases):
        p = path_str(c["toks"])
        cfgjson = {"workspace": {"workspaceRoots": [p, p], "library": [p, {"path": p, "ignoreDir": [p]}],
                                 "ignoreDir": [p]}, "resource": {"paths": [p]}}
        conc.append({"id": "p%d" % i, "idx": i, "files": [{"name": ".emmyrc.json", "text": json.dumps(cfgjson)}],
                     "pre": True, "ws": "/ws", "expect_raw": None, "path": p})
    runs = run_harness(ctx, conc, 1, "paths")
    seen = {}
    for cc in conc:
        c = cases[cc["idx"]]
        o = runs[0][cc["id"]]
        if o["panic"]:
            sig = "C31/panic/path/" + ("tilde" if c["tilde"] else "other")
            seen.setdefault(sig, []).append({"path": cc["path"], "config": cc["files"][0]["text"], "panic": o["panic"],
                                             "env": {"HOME": "/home/u", "a": "/e"}, "workspace": "/ws"})
            continue
        exp, sub = path_str(c["exp"]), path_str(c["sub"])
        want = {"workspaceRoots": [exp], "library": [exp, {"path": exp, "ignoreDir": [sub], "ignoreGlobs": []}],
                "packages": [], "ignoreDir": [exp], "resourcePaths": [exp]}
        if o["paths"] != want:
            ctx.divergence("path model: %r expands to %r in the model, real %s" % (cc["path"], exp, json.dumps(o["paths"])))
        ctx.count(("path", cc["path"]), nontrivial=len(c["toks"]) >= 2)
    ctx.validated(len(conc))
    rnd = random.Random(ctx.seed + 1)
    for cc in rnd.sample(conc, min(4, len(conc))):
        ctx.sample({"path": cc["path"], "expected_expansion": path_str(cases[cc["idx"]]["exp"])})
    for sig, ds in sorted(seen.items()):
        ctx.violation(sig, {"count": len(ds), "first": ds[0], "more": ds[1:4]})
    return len(cases)
