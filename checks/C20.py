"""C20: configuration controls which diagnostics are reported and how. DiagRules.tla part 2 enumerates the
decision table (workspace kind, meta, file enable/disable, workspace disable/enables, default, diagnostics.enable;
severity and globals rows) with the verdict demanded by the property text; every row is concretised as an Emmyrc
JSON + a program that triggers ~20 codes + meta / library / std placement and replayed through diagnose_file."""
import json
import os
import random
import sys

sys.path.insert(0, os.path.dirname(__file__))
import _diag  # noqa: E402
import vlib  # noqa: E402

# one trigger per code; `print`, `assert`, `depr` are defined at the end so that no std lib is needed
PROGRAM = """foo()
baz()
local u = 1
depr()
local r = 1
local r = 2
print(r)
local p, q = 1
print(p, q)
local c <const> = 1
c = 2
---@unknowntag zz
local k = 1
print(k)
function gf(a) return a end
---@param x integer
local function tf(x) return x end
tf("s")
tf()
tf(1, 2)
---@type string
local s = 1
print(s)
local t = { a = 1, a = 2 }
print(t)
if true then print(1) end
assert(true)
---@return integer
local function rf() return "x" end
rf()
---@type string?
local ns
print(ns:len())
---@param yy integer
local function up(x) return x end
up(1)

---@deprecated
function depr() end
function print(...) end
function assert(...) end
"""
# documented in docs/config/emmyrc_json_EN.md ("Disabled by default")
OFF_BY_DEFAULT = ["code-style-check", "incomplete-signature-doc", "missing-global-doc", "unknown-doc-tag",
                  "non-literal-expressions-in-assert"]
SEV_NUM = {"error": 1, "warning": 2, "information": 3, "hint": 4}
PLACE = {"main": "main/a.lua", "lib": "lib/a.lua", "std": "std/a.lua"}


def header(row, code):
    h = ""
    if row["M"]:
        h += "---@meta\n"
    if row["FE"]:
        h += "---@diagnostic enable: %s\n" % code
    if row["FD"]:
        h += "---@diagnostic disable: %s\n" % code
    return h + ("\n" if h else "")


def emmyrc(row, code):
    d = {"enable": bool(row["E"])}
    if row["WD"]:
        d["disable"] = [code]
    if row["WE"]:
        d["enables"] = [code]
    return {"diagnostics": d}


def codes_of(o, path):
    r = o["results"][path]
    return None if r is None else {d["code"] for d in r}


def chain_sig(row, what):
    if row["kf"] and what == "reported":
        return "C20/chain/meta-file+file-enable/reported"
    flags = "".join(k for k in ("M", "FE", "WD", "FD", "WE") if row[k]) or "-"
    return "C20/chain/ws=%s/E=%d/%s/D=%d/%s" % (row["W"], row["E"], flags, row["D"], what)


def replay(ctx):
    rec = json.load(open(ctx.replay))
    d = rec["detail"]["first"]
    path = d.get("path", "main/a.lua")
    case = {"id": 0, "emmyrc": d["emmyrc"], "std": False, "files": [{"path": path, "text": d["program"]}], "query": [path]}
    o = _diag.run_diag(ctx, [case], "replay")[0]
    ctx.count(json.dumps(case, sort_keys=True))
    if "panic" in o:
        ctx.violation(rec["signature"], {"count": 1, "first": dict(d, panic=o["panic"]), "more": []})
        return
    res = o["results"][path] or []
    sig = rec["signature"]
    if sig.startswith("C20/severity/override"):
        again = {x["sev"] for x in res if x["code"] == d["code"]} != {d["expected"]}
    elif sig.startswith("C20/globals/") and "name" in d:
        names = {x["msg"].rsplit(" ", 1)[-1] for x in res if x["code"] == "undefined-global"}
        again = (d["name"] in names) != d["expected_reported"]
    elif "code" in d and "expected" in d:
        again = (d["code"] in {x["code"] for x in res}) != (d["expected"] == "report")
    else:
        raise vlib.ToolError("replay of %s not supported" % sig)
    if again:
        ctx.violation(sig, rec["detail"])


def run(ctx):
    vlib.build(["vh-analysis"])
    if ctx.replay:
        return replay(ctx)
    res = vlib.tlc("DiagRules", "DiagRules_cfg", workers=2, timeout=300)
    if res.violated:
        raise vlib.ToolError("DiagRules.tla part 2: %s\n%s" % (res.violated, res.trace_text[:3000]))
    ctx.add_tlc(res)
    rows = [r for tag, r in res.json if tag == "ROW"]
    chain = [r for r in rows if r["kind"] == "chain"]
    sev = [r for r in rows if r["kind"] == "severity"]
    glob = [r for r in rows if r["kind"] == "globals"]
    if len(chain) != 384 or len(sev) != 4 or len(glob) != 16:
        raise vlib.ToolError("unexpected table size %d/%d/%d" % (len(chain), len(sev), len(glob)))

    # --- which codes does PROGRAM trigger at all (all codes enabled, main workspace, plain file)?
    base = _diag.run_diag(ctx, [_diag.one_file_case(0, PROGRAM, {"diagnostics": {"enables": OFF_BY_DEFAULT}}),
                                _diag.one_file_case(1, PROGRAM)], "base")
    if "panic" in base[0] or "panic" in base[1]:
        ctx.violation("C12/panic/diagnose_file", {"program": PROGRAM, "panic": base[0].get("panic") or base[1].get("panic")})
        return
    trig = sorted(codes_of(base[0], "main/a.lua"))
    default_sev = {}
    for d in base[0]["results"]["main/a.lua"]:
        default_sev.setdefault(d["code"], set()).add(d["sev"])
    ctx.note("triggered_codes", trig)
    on = [c for c in trig if c not in OFF_BY_DEFAULT]
    off = [c for c in trig if c in OFF_BY_DEFAULT]
    if len(on) < 10 or len(off) < 2:
        raise vlib.ToolError("trigger program lost its triggers: on=%r off=%r" % (on, off))
    rnd = random.Random(ctx.seed)
    if ctx.quick:
        targets = sorted(rnd.sample(on, 5) + rnd.sample(off, 2) + ["undefined-global"])
        targets = sorted(set(targets))
    else:
        targets = trig
    ctx.note("target_codes", targets)

    cases, meta = [], []
    for row in chain:
        for code in targets:
            if (code not in OFF_BY_DEFAULT) != bool(row["D"]):
                continue   # D is a fact about the code, not a free choice
            text = header(row, code) + PROGRAM
            path = PLACE[row["W"]]
            cases.append({"id": len(cases), "emmyrc": emmyrc(row, code), "std": False,
                          "files": [{"path": path, "text": text}], "query": [path]})
            meta.append(("chain", row, code, text, path))
    for row in sev:
        for code in targets:
            rc = {"diagnostics": {"enables": OFF_BY_DEFAULT, "severity": {code: row["S"]}}}
            cases.append(_diag.one_file_case(len(cases), PROGRAM, rc))
            meta.append(("severity", row, code, PROGRAM, "main/a.lua"))
    for row in glob:
        d = {}
        if row["G"]:
            d["globals"] = sorted(row["G"])
        if row["R"] != "none":
            d["globalsRegex"] = [row["R"]]
        cases.append(_diag.one_file_case(len(cases), PROGRAM, {"diagnostics": d}))
        meta.append(("globals", row, None, PROGRAM, "main/a.lua"))
    if os.environ.get("VERIF_SELFTEST") == "corrupt-expected":
        k, row, code, text, path = meta[len(meta) // 3]
        row = dict(row, stated="report" if row["stated"] == "silent" else "silent")
        meta[len(meta) // 3] = (k, row, code, text, path)
    order = sorted(range(len(cases)), key=lambda i: json.dumps(cases[i]["emmyrc"], sort_keys=True))
    out = _diag.run_diag(ctx, [cases[i] for i in order], timeout=ctx.pick(900, 3000))

    viol, div = {}, {}

    def bad(sig, detail):
        viol.setdefault(sig, []).append(detail)

    for i, (kind, row, code, text, path) in enumerate(meta):
        o = out[i]
        rc = cases[i]["emmyrc"]
        if "panic" in o:
            ctx.violation("C12/panic/diagnose_file", {"program": text, "emmyrc": rc, "panic": o["panic"]})
            continue
        got = codes_of(o, path)
        rep = got or set()
        if kind == "chain":
            if o["ws"][path] != row["W"] or o["meta"][path] != bool(row["M"]):
                raise vlib.ToolError("placement not as intended: %r %r" % (o["ws"], o["meta"]))
            observed = code in rep
            if row["stated"] != "unspecified" and observed != (row["stated"] == "report"):
                what = "reported" if observed else "not-reported"
                bad(chain_sig(row, what), {"emmyrc": rc, "path": path, "program": text, "code": code,
                                           "expected": row["stated"], "observed": what,
                                           "spec_waiver_KF_MetaFileEnable": row["kf"]})
            if observed != bool(row["coded"]):
                div.setdefault(chain_sig(row, "coded=%s" % row["coded"]), []).append(code)
            # every other code keeps its default verdict
            quiet = (not row["E"]) or row["W"] != "main" or row["M"]
            for y in trig:
                if y == code:
                    continue
                exp = (not quiet) and (y not in OFF_BY_DEFAULT)
                if (y in rep) != exp:
                    bad("C20/other-code/ws=%s/E=%d/M=%d/%s" % (row["W"], row["E"], row["M"],
                                                                "reported" if y in rep else "not-reported"),
                        {"emmyrc": rc, "path": path, "program": text, "code": y, "configured_code": code,
                         "expected": "report" if exp else "silent"})
            ctx.count((json.dumps(rc, sort_keys=True), path, text[:80]), n=len(trig),
                      nontrivial=row["E"] and (row["FE"] or row["WD"] or row["FD"] or row["WE"] or row["M"] or row["W"] != "main"))
        elif kind == "severity":
            sevs = {d["sev"] for d in o["results"][path] if d["code"] == code}
            if sevs != {SEV_NUM[row["expect"]]}:
                bad("C20/severity/override-ignored", {"emmyrc": rc, "program": text, "code": code,
                                                        "expected": SEV_NUM[row["expect"]], "observed": sorted(sevs)})
            for d in o["results"][path]:
                if d["code"] != code and d["sev"] not in default_sev.get(d["code"], set()):
                    bad("C20/severity/other-code-changed", {"emmyrc": rc, "program": text, "code": d["code"]})
            ctx.count((json.dumps(rc, sort_keys=True), "sev"), nontrivial=True)
        else:
            names = {d["msg"].rsplit(" ", 1)[-1] for d in o["results"][path] if d["code"] == "undefined-global"}
            for name in ("foo", "baz"):
                if (name in names) != bool(row[name]):
                    bad("C20/globals/%s" % ("listed-name-reported" if name in names else "unlisted-name-hidden"),
                        {"emmyrc": rc, "program": text, "name": name, "expected_reported": bool(row[name])})
            others = (rep - {"undefined-global"}) ^ (set(on) - {"undefined-global"})
            if others:
                bad("C20/globals/other-code-changed", {"emmyrc": rc, "program": text, "codes": sorted(others)})
            ctx.count((json.dumps(rc, sort_keys=True), "glob"), nontrivial=bool(row["G"]) or row["R"] != "none")
    ctx.validated(len(meta))
    ctx.note("table_rows", {"chain": len(chain), "severity": len(sev), "globals": len(glob)})
    ctx.rule("cases = decision-table rows (TLC) x target codes with the matching default; distinct (emmyrc, placement, header); "
             "non-trivial = diagnostics enabled and at least one switch / meta / non-main placement in effect")
    ctx.assume("default-off codes as documented in docs/config/emmyrc_json_EN.md; rows where the property text does not decide "
               "(file enables and disables the same code; file `enable` of a default-off code) are not judged")
    for m in rnd.sample(meta, min(4, len(meta))):
        ctx.sample({"kind": m[0], "row": m[1], "code": m[2], "path": m[4]})
    for k, codes in sorted(div.items()):
        ctx.divergence("chain as transcribed does not explain the code: %s for %d codes e.g. %s" % (k, len(codes), codes[0]))
    for sig, fs in sorted(viol.items()):
        ctx.violation(sig, {"count": len(fs), "first": fs[0], "more": fs[1:3]})
