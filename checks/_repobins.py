"""Build CLI binaries of the code under test (emmylua_check, emmylua_doc_cli) from REPO's current working
tree into a harness-side target dir, so black-box checks always run what is in the tree.  (builderE2)"""
import fcntl
import os
import subprocess
import time

import vlib

# own target dir + a cheaper release profile (opt-level 1, incremental): /repo changes often (fix: commits) and
# a black-box check of a CLI does not need opt-level 3; the profile is set by env so /repo is untouched.
TARGET = os.path.join(vlib.HARNESS, "target", "repo-bins-o1")
PROFILE_ENV = {"CARGO_PROFILE_RELEASE_OPT_LEVEL": "1", "CARGO_PROFILE_RELEASE_CODEGEN_UNITS": "64",
               "CARGO_PROFILE_RELEASE_INCREMENTAL": "true", "CARGO_PROFILE_RELEASE_DEBUG": "false"}


def build(packages, timeout=3000):
    """cargo build --release -p <packages> of REPO; returns {package: path of the binary}."""
    os.makedirs(TARGET, exist_ok=True)
    lock = open(os.path.join(TARGET, ".vbuild.lock"), "w")
    fcntl.flock(lock, fcntl.LOCK_EX)
    try:
        cmd = ["cargo", "build", "--offline", "--release", "--manifest-path", os.path.join(vlib.REPO, "Cargo.toml"),
               "--target-dir", TARGET]
        # always the same package set, so that feature unification (and hence the cached artifacts) is stable
        for p in sorted(set(packages) | {"emmylua_check", "emmylua_doc_cli"}):
            cmd += ["-p", p]
        t0 = time.time()
        env = vlib.cargo_env()
        env.update(PROFILE_ENV)
        p = subprocess.run(cmd, env=env, stdout=subprocess.PIPE, stderr=subprocess.STDOUT, text=True,
                           timeout=timeout)
        vlib.log("repo-bins build (%s): rc=%d %.0fs" % (" ".join(packages), p.returncode, time.time() - t0))
        if p.returncode != 0:
            raise vlib.ToolError("build of %s from %s failed:\n%s" % (packages, vlib.REPO, p.stdout[-6000:]))
    except subprocess.TimeoutExpired as ex:
        raise vlib.ToolError("build of %s timed out" % (packages,)) from ex
    finally:
        fcntl.flock(lock, fcntl.LOCK_UN)
        lock.close()
    out = {}
    for pk in packages:
        b = os.path.join(TARGET, "release", pk)
        if not os.path.exists(b):
            raise vlib.ToolError("binary %s missing after build" % b)
        out[pk] = b
    return out
