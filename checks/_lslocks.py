"""C28 driver pieces: mine lock programs from the real server, reduce them to hold-segments, model-check
LsLocks.tla instantiated with them, classify blocked states."""
import json
import os

import vlib


def mine(ctx):
    vlib.build(["vh-ls"])
    root = ctx.workfile("mine")
    p = vlib.run_bin("vh_ls_mine", [root], timeout=900)
    recs = vlib.ndjson(p.stdout)
    progs = [r for r in recs if "program" in r]
    inline = [r["inline"] for r in recs if "inline" in r and isinstance(r["inline"], dict)]
    panics = [r for r in recs if "panics" in r]
    if not progs or not inline:
        raise vlib.ToolError("miner produced nothing:\n" + p.stderr[-2000:])
    return progs, inline[0], panics


def opstr(ops):
    return " ".join("%s:%s.%s" % (o[0][0], o[1], o[2]) for o in ops)


def segments(progs):
    """Split every mined program where the task holds nothing: a deadlock involves each task inside one
    hold-segment, earlier segments can always be run to completion first, so the set of blocked
    configurations of the programs equals that of their segments run as independent tasks.
    Returns list of {"name","ops","sources":[program@segment,...]} deduplicated by op sequence."""
    table = {}
    for p in progs:
        held = 0
        cur = []
        k = 0
        for op in p["ops"]:
            cur.append(op)
            held += 1 if op[0] == "acq" else -1
            if held == 0:
                key = opstr(cur)
                table.setdefault(key, {"ops": cur, "sources": []})["sources"].append("%s@%d" % (p["program"], k))
                cur = []
                k += 1
        if cur:  # program ended while holding (should not happen)
            key = opstr(cur) + " (unterminated)"
            table.setdefault(key, {"ops": cur, "sources": []})["sources"].append("%s@%d" % (p["program"], k))
    segs = []
    for i, (key, v) in enumerate(sorted(table.items())):
        segs.append({"name": "S%02d" % i, "shape": key, "ops": v["ops"], "sources": sorted(v["sources"])})
    return segs


def scenarios_of(seg):
    return sorted({s.split("#")[0] for s in seg["sources"]})


def model_check(ctx, segs, k, greedy, timeout):
    path = ctx.workfile("programs_%d.ndjson" % k)
    with open(path, "w") as f:
        for s in segs:
            f.write(json.dumps({"name": s["name"], "ops": s["ops"]}) + "\n")
    cfg = "LsLocks_%d%s" % (k, "g" if greedy else "f")
    res = vlib.tlc("LsLocks", cfg, workers=ctx.pick(4, 8), timeout=timeout, env={"PROGRAMS": path})
    if res.violated:
        raise vlib.ToolError("LsLocks: unexpected TLC violation %s\n%s" % (res.violated, res.trace_text[:1500]))
    ctx.add_tlc(res)
    blocked = [b for tag, b in res.json if tag == "BLOCKED"]
    reacq = [b for tag, b in res.json if tag == "REACQUIRE"]
    return res, blocked, reacq


def _incompatible(held, mode):
    """held = <<reads, excl>> of another task; mode = requested"""
    r, x = held
    return x > 0 or (mode != "R" and r > 0)


def cycle_signature(b, segs):
    """Mechanism key of a blocked state = the tasks on a wait-for cycle (bystanders that merely queue behind
    the cycle are dropped). Edge t -> u: t waits for lock l and u holds l incompatibly, or u is queued ahead of t
    on l (FIFO). Each cycle task is written `relevant-holds>waited-lock`, followed by the handler scenarios
    that contribute that hold-segment when it holds something the cycle needs (so a NEW handler joining a known
    cycle changes the signature and is reported)."""
    byname = {s["name"]: s for s in segs}
    tasks = b["tasks"]
    n = len(tasks)
    waits = {}
    holds = {}
    for i, t in enumerate(tasks):
        if t["waits"]:
            waits[i] = (t["waits"][0], t["waits"][1])
        holds[i] = {h[0]: (h[1][0], h[1][1]) for h in t["holds"]}
    queues = b.get("queues", {})
    edges = {i: set() for i in range(n)}
    for i, (l, m) in waits.items():
        for u in range(n):
            if u != i and l in holds[u] and _incompatible(holds[u][l], m):
                edges[i].add(u)
            if u == i and l in holds[u] and m != "R":
                edges[i].add(u)
        q = [x - 1 for x in queues.get(l, [])]
        if i in q:
            for u in q[:q.index(i)]:
                edges[i].add(u)
    # nodes on cycles: i reaches i
    def reach(src):
        seen, st = set(), list(edges[src])
        while st:
            x = st.pop()
            if x in seen:
                continue
            seen.add(x)
            st.extend(edges[x])
        return seen
    core = [i for i in range(n) if i in reach(i)]
    waited = {waits[i][0] for i in core}
    parts = []
    for i in core:
        rel = sorted("%s.%s" % (l, "R" if h[0] > 0 else "X") for l, h in holds[i].items() if l in waited)
        seg = byname[tasks[i]["prog"]]
        part = "%s>%s.%s" % ("+".join(rel) or "-", waits[i][0], waits[i][1])
        if rel:
            part += "[%s]" % ",".join(x.replace("req:", "").replace("notif:", "") for x in scenarios_of(seg))
        parts.append(part)
    return " | ".join(sorted(set(parts))) if parts else "no-cycle:" + json.dumps(b["tasks"])
