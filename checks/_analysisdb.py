"""Shared driver for C08 / C09 / C10 (and the workspace generator of C11): AnalysisDb.tla histories replayed into
a real EmmyLuaAnalysis by harness/vh-analysis/src/bin/vh_analysisdb.rs.

TLC prints one line per transition of the reduced state graph (selected by EmitSel): the compact history that
leads to it and the expected abstract state after it.  Every printed history is replayed; the obligation of the
property is judged at its last step (earlier steps are judged by the histories that end there).
"""
import concurrent.futures
import json
import os
import random
import re

import vlib

SIZE_MAP = {
    "vfs_file_id_map": ["vfs.file_id_map", "vfs.file_path_map"],
    "vfs_live": ["vfs.file_data.live"],
    "vfs_tree_map": ["vfs.tree_map", "vfs.line_index_map"],
    "decl_trees": ["decl.decl_trees"],
    "flow_trees": ["flow.file_flow_tree"],
    "file_references": ["reference.file_references"],
    "module_file_module_map": ["module.file_module_map", "module.module_nodes.file_ids"],
    "module_nodes": ["module.module_nodes"],
    "module_fuzzy": ["module.module_name_to_file_ids"],
    "module_fuzzy_items": ["module.module_name_to_file_ids.items"],
    "type_file_types": ["type.file_types"],
    "type_full_name": ["type.full_name_type_map"],
    "type_locations": ["type.full_name_type_map.locations", "type.file_types.items"],
    "type_global_names": ["type.global_name_type_map"],
    "type_supers": ["type.supers"],
    "type_supers_items": ["type.supers.items"],
    "global_decl": ["global.global_decl"],
    "global_decl_items": ["global.global_decl.items"],
    "property_properties": ["property.properties", "property.property_owners_map"],
    "property_in_filed_owner": ["property.in_filed_owner"],
    "property_in_filed_owner_items": ["property.in_filed_owner.items"],
    "member_members": ["member.members"],
    "dependency_files": ["dependency.dependencies"],
    "dependency_items": ["dependency.dependencies.items"],
    "diag_disabled": ["diagnostic.file_diagnostic_disabled"],
    "type_generic_params": ["type.generic_params"],
    "operator_operators": ["operator.operators", "operator.type_operators_map.items", "operator.in_filed_operator_map.items"],
    "operator_owners": ["operator.type_operators_map"],
    "operator_files": ["operator.in_filed_operator_map"],
}


# contents with functions: signatures / return docs have property entries of their own, which the spec's property
# slot (descriptions of types) does not count; the property sizes of such workspaces are compared by `same` only
FUNC_CONTENTS = {"ObjDef", "ObjBar1", "ObjBar2", "UseObj"}


def path_of(letter, dirs=None):
    """path of the file with this letter; `dirs` = the spec's root layout of the workspace (letter -> root dir)"""
    return "%s/%s.lua" % ((dirs or {}).get(letter, "/ws"), letter)


def real_sizes(abstract):
    out = {}
    for k, v in abstract.items():
        for name in SIZE_MAP[k]:
            out[name] = v
    return out


def model_of(step):
    """abstract expected state of the spec -> the `model` object understood by vh_analysisdb"""
    obs = step["obs"]
    dirs = step.get("dirs")
    path_of = lambda letter: globals()["path_of"](letter, dirs)
    return {
        "desc": {t: (None if d == "<no-type>" else d) for t, d in obs["desc"].items()},
        "typelocs": {t: [path_of(p) for p in ps] for t, ps in obs["typelocs"].items()},
        "globals": {g: [path_of(p) for p in ps] for g, ps in obs["globals"].items()},
        "members": {t: [[m[0], path_of(m[1])] for m in ms] for t, ms in obs["members"].items()},
        "gtype": {g: [[path_of(m[0]), m[1]] for m in ms] for g, ms in obs.get("gtype", {}).items()},
        "gmembers": {g: [[m[0], path_of(m[1])] for m in ms] for g, ms in obs.get("gmembers", {}).items()},
        "modules": {r: (None if p == "<none>" else path_of(p)) for r, p in obs["modules"].items()},
        "supers": {t: sorted(ss) for t, ss in obs["supers"].items()},
        "inherit": {t: [[m[0], path_of(m[1])] for m in ms] for t, ms in obs.get("inherit", {}).items()},
        "gen": {t: list(ps) for t, ps in obs["gen"].items()},
        "ops": {t: {mm: [[o[0], path_of(o[1])] for o in seq] for mm, seq in per.items()} for t, per in obs["ops"].items()},
        "sizes": real_sizes({k: v for k, v in step["sizes"].items()
                             if not (k.startswith("property_") and FUNC_CONTENTS & set(step["files"].values()))}),
    }


def run_tlc_many(ctx, cfgs, workers_each, timeout):
    """run several TLC configurations of AnalysisDb concurrently (<= 4 workers in total for quick)"""
    def one(cfg):
        return cfg, vlib.tlc("AnalysisDb", cfg, workers=workers_each, timeout=timeout,
                             metadir=os.path.join(ctx.work, "tlc_" + cfg))
    # at most 4 (quick) / 8 (thorough) TLC workers in total
    with concurrent.futures.ThreadPoolExecutor(max_workers=max(1, min(len(cfgs), ctx.pick(4, 8) // workers_each))) as ex:
        return list(ex.map(one, cfgs))


def histories(res, cfg):
    """-> (texts, list of histories); a history = list of (compact step, full expected step or None).
    Every printed record is one transition of the reduced state graph (or an initial state) together with the
    history that leads to it; the expected state of an earlier step is known when that prefix was printed too."""
    texts = None
    by_hist = {}
    for tag, payload in res.json:
        if tag == "TEXTS":
            texts = payload
        elif tag == "S":
            key = json.dumps(payload["h"], sort_keys=True)
            by_hist[key] = payload
    if texts is None:
        raise vlib.ToolError("AnalysisDb/%s printed no TEXTS" % cfg)
    if not by_hist:
        raise vlib.ToolError("AnalysisDb/%s printed no history" % cfg)
    out = []
    for key, payload in by_hist.items():
        h = payload["h"]
        steps = []
        for k in range(1, len(h) + 1):
            pk = json.dumps(h[:k], sort_keys=True)
            steps.append((h[k - 1], by_hist[pk]["step"] if pk in by_hist else None))
        out.append(steps)
    return texts, out


def to_case(cid, hist, texts, prop):
    steps = []
    for i, (c, full) in enumerate(hist):
        op = c["op"]
        if op in ("load", "batch"):
            # registration order is a, b, c (ids); a batch hands the files over in that order as well
            reg = sorted(p for p, v in c["init"].items() if v != "-")
            st = {"op": op, "files": [[path_of(p), texts[c["init"][p]]] for p in reg], "order": c["order"]}
        elif op == "update":
            st = {"op": "update", "path": path_of(c["p"]), "text": texts[c["c"]]}
        elif op in ("unset", "remove"):
            st = {"op": op, "path": path_of(c["p"])}
        elif op == "reindex":
            st = {"op": "reindex"}
        else:
            raise vlib.ToolError("unknown op " + op)
        if full is None:
            steps.append(st)
            continue
        st["model"] = model_of(full)
        if prop == "C08" and full["same_as"] >= 0:
            st["same_as"] = full["same_as"]
        if prop == "C09" and op == "reindex":
            st["fresh"] = True
        if prop == "C10" and op in ("unset", "remove"):
            st["fresh"] = True
            st["absent"] = [path_of(p) for p in full["absent"]]
        if prop == "C08" and op in ("load", "reindex"):
            st["fresh"] = True      # the start must be consistent: equal to a fresh analysis
        steps.append(st)
    return {"id": cid, "requires": ["a", "b", "c", "d"], "steps": steps}


def describe(hist):
    out = []
    for c, full in hist:
        if c["op"] in ("load", "batch"):
            out.append("%s{%s}" % (c["op"], ",".join("%s=%s" % (p, v) for p, v in sorted(c["init"].items()) if v != "-")))
        elif c["op"] == "update":
            out.append("update(%s,%s)" % (c["p"], c["c"]))
        elif c["op"] == "reindex":
            out.append("reindex")
        else:
            out.append("%s(%s)" % (c["op"], c["p"]))
    return " ; ".join(out)


def gen_path(p):
    p = re.sub(r"/(ws|liba|libb)/[abcd]\.lua", "*", p)
    p = re.sub(r"/\d+(?=/|$)", "/#", p)
    return p.strip("/")


def classify_same(diffs, full, model_matches=False):
    """C08: signature per differing dump path"""
    sigs = set()
    paths = [d[0] for d in diffs]
    # the spec's KF_Migr (members of a global path are listed under the class of the global only by the analysis of
    # the binding file): applies when the model predicts the deviation AND the real member lists are exactly the
    # ones the model predicts for this step
    if "migr" in full["dev"] and model_matches:
        return {"C08/global-path-member-not-remigrated/members-of-the-class"}
    glob_first = any(re.fullmatch(r"/globals/[^/]+/first", p) for p in paths)
    for p in paths:
        if re.fullmatch(r"/types/[^/]+/desc", p):
            sigs.add("C08/property-slot-single-valued/description" if "slot" in full["dev"] else "C08/unexplained/types-desc")
        elif p.startswith("/sizes/property.") and "slot" in full["dev"]:
            sigs.add("C08/property-slot-single-valued/description")
        elif p.startswith("/sizes/module."):
            sigs.add("C08/module-index-leak/sizes")
        elif re.fullmatch(r"/globals/[^/]+/first", p) or (glob_first and p.endswith("/tokens")):
            sigs.add("C08/global-decl-order/definition")
        elif re.fullmatch(r"/types/[^/]+/(generic|render)", p) or p == "/sizes/type.generic_params":
            sigs.add("C08/generic-header/params")
        elif re.fullmatch(r"/types/[^/]+/operators/[^/]+", p):
            sigs.add("C08/operator-order/" + p.rsplit("/", 1)[1])
        elif p.startswith("/sizes/"):
            sigs.add("C08/size-drift/" + p[len("/sizes/"):])
        else:
            sigs.add("C08/unexplained/" + gen_path(p))
    return sigs


def run(ctx, prop):
    # q5/t5: generic partial class (header in one file, header-less re-declaration in another), generic alias, a user
    # that instantiates both; q6/t6: operators / call overload of one class declared in two files and a user
    # q7/t7 (second seeded round): a global instance whose class and inferred binding live in one file and whose
    # member `bar` is defined in two other files (members of a global path migrated to the class)
    tier = {"C08": (["AnalysisDb_q", "AnalysisDb_q2", "AnalysisDb_q3", "AnalysisDb_q4", "AnalysisDb_q5", "AnalysisDb_q6", "AnalysisDb_q7"],
                    ["AnalysisDb_t", "AnalysisDb_t2", "AnalysisDb_t3", "AnalysisDb_t4", "AnalysisDb_t5", "AnalysisDb_t6", "AnalysisDb_t7"]),
            "C09": (["AnalysisDb_c09_q", "AnalysisDb_c09_q2"],
                    ["AnalysisDb_c09_t", "AnalysisDb_c09_t2", "AnalysisDb_c09_t3"]),
            # q3/t4: partial class whose inheritance edge lives in one declaring file only, base class, user of the
            # inherited field (after seeded review)
            # q4/t5 (second seeded round): a `---@meta` file and ordinary files defining the same member of the class
            # table declared in a fourth file, every id order, removal of every file
            "C10": (["AnalysisDb_c10_q", "AnalysisDb_c10_q2", "AnalysisDb_c10_q3", "AnalysisDb_c10_q4"],
                    ["AnalysisDb_c10_t", "AnalysisDb_c10_t2", "AnalysisDb_c10_t3", "AnalysisDb_c10_t4", "AnalysisDb_c10_t5"])}[prop]
    cfgs = ctx.pick(*tier)
    if os.environ.get("ADB_ONLY"):      # development aid: restrict to the named configurations
        cfgs = os.environ["ADB_ONLY"].split(",")
    results = run_tlc_many(ctx, cfgs, workers_each=ctx.pick(1, 2), timeout=ctx.pick(900, 2400))
    vlib.build(["vh-analysis"])
    all_hists = []
    texts = None
    for cfg, res in results:
        ctx.add_tlc(res)
        if res.violated:
            # the model itself (transcribed rules vs Ideal) breaks a design-level invariant that is not waived
            ctx.violation("%s/model/%s" % (prop, res.violated), {"cfg": cfg, "invariant": res.violated,
                                                               "trace": res.trace_text[:6000]})
            continue
        texts, hs = histories(res, cfg)
        all_hists += [(cfg, h) for h in hs]
    if not all_hists:
        return
    # judged histories only: the ones that contain an obligation of this property
    def has_obligation(h):
        for c, full in h[-1:]:
            if full is None:
                continue
            if prop == "C08" and full["same_as"] >= 0:
                return True
            if prop == "C09" and c["op"] == "reindex":
                return True
            if prop == "C10" and c["op"] in ("unset", "remove"):
                return True
        return False
    judged = [(cfg, h) for cfg, h in all_hists if has_obligation(h)]
    cases = [to_case(i, h, texts, prop) for i, (cfg, h) in enumerate(judged)]
    path = os.path.join(ctx.work, "cases.ndjson")
    with open(path, "w") as f:
        for c in cases:
            f.write(json.dumps(c) + "\n")
    p = vlib.run_bin("vh_analysisdb", [path], timeout=ctx.pick(900, 3000))
    out = vlib.ndjson(p.stdout)
    if len(out) != len(cases):
        raise vlib.ToolError("vh_analysisdb answered %d of %d cases\n%s" % (len(out), len(cases), p.stderr[-2000:]))
    found = {}      # signature -> list of details

    def add(sig, cid, i, what):
        found.setdefault(sig, []).append({"history": describe(judged[cid][1]), "step": i, "observed": what,
                                          "case": cases[cid]})
    obligations = 0
    model_mismatch = 0
    for r in out:
        cid = r["id"]
        hist = judged[cid][1]
        if "harness_panic" in r:
            raise vlib.ToolError("vh_analysisdb failed on case %s: %s" % (cid, r["harness_panic"]))
        for s in r["steps"]:
            i = s["i"]
            c, full = hist[i]
            if full is None:
                if "panic" in s:
                    add("%s/panic/%s" % (prop, c["op"]), cid, i, s["panic"][:300])
                continue
            if "panic" in s:
                add("%s/panic/%s" % (prop, c["op"]), cid, i, s["panic"][:300])
                continue
            if s.get("model"):
                model_mismatch += 1
                ctx.divergence({"history": describe(hist), "step": i, "model_vs_real": s["model"][:4]})
            if prop == "C08":
                if "same" in s:
                    obligations += 1
                    if s["same"]:
                        for sig in classify_same(s["same"], full, model_matches=not s.get("model")):
                            add(sig, cid, i, s["same"][:6])
                if s.get("fresh"):
                    # the start of the history is not consistent: not a C08 verdict, but worth knowing
                    ctx.divergence({"history": describe(hist), "step": i, "start_differs_from_fresh": s["fresh"][:4]})
            elif prop == "C09" and c["op"] == "reindex":
                obligations += 1
                for d in s.get("fresh", []):
                    if d[0] in ("/sizes/vfs.file_id_map", "/sizes/vfs.file_path_map"):
                        # path interning of files whose content was unset is Vfs history, judged against the model
                        continue
                    add("C09/" + gen_path(d[0]), cid, i, s["fresh"][:6])
                if "fresh_panic" in s:
                    add("C09/panic/fresh", cid, i, s["fresh_panic"][:300])
            elif prop == "C10" and c["op"] in ("unset", "remove"):
                obligations += 1
                for m in s.get("mentions", []):
                    where = gen_path(m[0])
                    if re.fullmatch(r"files/\*/requires/#", where):
                        add("C10/dependency-edge-to-removed-file", cid, i, s["mentions"][:6])
                    else:
                        add("C10/mention/" + where, cid, i, s["mentions"][:6])
                # super edges / inherited members are owned by the declaring file (the spec's InheritIdeal: the
                # expectation after a removal is the fresh one): anything beyond it is a fact of the removed file
                for d in s.get("model", []):
                    kind, _, tname = d[0].partition("/")
                    if kind in ("supers", "inherit"):
                        want = {json.dumps(x) for x in d[1]}
                        stale = [x for x in d[2] if json.dumps(x) not in want]
                        if stale:
                            add("C10/stale/%s/%s" % ("super-type" if kind == "supers" else "inherited-member", tname),
                                cid, i, {"expected": d[1], "observed": d[2]})
                # Analysis errors recorded for the REMAINING files are not re-computed when another file is edited
                # (no dependency tracking on type names): after an earlier `update` step they may be stale with
                # respect to a fresh analysis. That staleness is not a trace of the removed file, so it is not judged
                # by C10 (false alarm found by the thorough tier: load{a=UseHp,b=FooInh,c=ClsPlain}; update(c,Base);
                # unset(a) kept b's "type Base not found" error).
                edited_before = any(cc["op"] == "update" for cc, _f in hist[:i])

                def stale_analysis_errors(name):
                    return edited_before and name.startswith("diagnostic.diagnostics")

                # memory: every modelled map must not be larger than in Ideal(remaining) ...
                ideal = real_sizes(full["ideal_sizes"])
                fresh_sizes = {d[0][len("/sizes/"):]: (d[1], d[2]) for d in s.get("fresh", []) if d[0].startswith("/sizes/")}
                dep_edge = any(re.fullmatch(r"files/\*/requires/#", gen_path(m[0])) for m in s.get("mentions", []))
                model_bad = {d[0][len("sizes/"):]: (d[1], d[2]) for d in s.get("model", []) if d[0].startswith("sizes/")}
                for name, (want, got) in model_bad.items():
                    if stale_analysis_errors(name):
                        continue
                    if name in ideal and isinstance(got, int) and got > ideal[name]:
                        if name.startswith("dependency.") and dep_edge:
                            add("C10/dependency-edge-to-removed-file", cid, i, {name: [ideal[name], got]})
                        else:
                            add("C10/leak/" + name, cid, i, {name: [ideal[name], got]})
                # the model may itself predict a leak (transcribed rule): judge against Ideal as well
                for k, v in full["sizes"].items():
                    if v > full["ideal_sizes"][k]:
                        names = SIZE_MAP[k]
                        if stale_analysis_errors(names[0]):
                            continue
                        if k.startswith("dependency_"):
                            add("C10/dependency-edge-to-removed-file", cid, i, {names[0]: [full["ideal_sizes"][k], v]})
                        else:
                            add("C10/leak/" + names[0], cid, i, {names[0]: [full["ideal_sizes"][k], v]})
                # ... and when nothing that remains shared or used what the removed file provided, ALL maps
                # must be as small as in a fresh analysis of the remaining files
                # (the same must hold for every earlier removal of the history, else the remaining files still
                # carry what they cached about an earlier removed file)
                earlier_ok = all(f is not None and f["independent"] for cc, f in hist[:i] if cc["op"] in ("unset", "remove"))
                if full["independent"] and earlier_ok:
                    for name, (fresh_v, got) in fresh_sizes.items():
                        if name in ("vfs.file_id_map", "vfs.file_path_map"):
                            continue        # interning after unset: judged through the model sizes
                        if stale_analysis_errors(name):
                            continue
                        if isinstance(got, int) and isinstance(fresh_v, int) and got > fresh_v:
                            if name.startswith("dependency.") and dep_edge:
                                add("C10/dependency-edge-to-removed-file", cid, i, {name: [fresh_v, got]})
                            else:
                                add("C10/leak/" + name, cid, i, {name: [fresh_v, got]})
                        elif got != fresh_v:
                            ctx.divergence({"history": describe(hist), "step": i, "fewer_entries_than_fresh": {name: [fresh_v, got]}})
        key = describe(hist)
        nontrivial = len(hist) >= 2 and sum(1 for v in hist[0][0]["init"].values() if v != "-") >= 2
        ctx.count(key, n=0, nontrivial=nontrivial)
    ctx.cov["evaluations"] = obligations
    ctx.validated(len(cases))
    ctx.note("histories_enumerated", len(all_hists))
    ctx.note("histories_replayed", len(cases))
    ctx.note("model_vs_real_mismatching_steps", model_mismatch)
    ctx.cov["exhaustive"] = True
    ctx.rule("every history AnalysisDb.tla admits under the configuration (3 paths, the content alphabet of the cfg, "
             "<= MaxSteps steps) enumerated by TLC with VIEW reduction; every transition of the reduced graph that carries an "
             "obligation of %s is replayed with the history leading to it step by step into a real EmmyLuaAnalysis; evaluations = obligations judged; "
             "non-trivial = at least 2 live files at the start and at least one step after the load" % prop)
    rnd = random.Random(ctx.seed)
    for cfg, h in rnd.sample(judged, min(5, len(judged))) if judged else []:
        ctx.sample({"cfg": cfg, "history": describe(h), "expected_after_last_step": {k: h[-1][1][k] for k in ("obs", "sizes", "dev")}})
    ctx.assume("facts of each Lua snippet as abstracted in spec/AnalysisDb.tla (Decl/Desc/Mem/Glob/Req/DOff); "
               "bound to the code by comparing the model's observables and map sizes with the real ones at every step")
    for sig, ds in sorted(found.items()):
        ctx.violation(sig, {"count": len(ds), "first": ds[0], "more": [{k: d[k] for k in ("history", "step", "observed")} for d in ds[1:4]]})
