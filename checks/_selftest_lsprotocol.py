#!/usr/bin/env python3
"""Self-test of the trace / result binding of C24-C26 (no harness build needed).

A hand-written good stream must be accepted by spec/LsProtocolTrace.tla with an all-good verdict; corrupting
one field (response kind), dropping one event, duplicating one and answering an id that was never sent must
be rejected / flagged.  A good result record must pass spec/LsResults.tla, one corrupted coordinate must not.
Exit 0 = the binding rejects what it should."""
import json
import os
import shutil
import sys

HERE = os.path.dirname(os.path.abspath(__file__))
sys.path.insert(0, os.path.join(os.path.dirname(HERE), "lib"))
sys.path.insert(0, HERE)
import vlib  # noqa: E402
import _lsproto as L  # noqa: E402


class Ctx:
    id = "selftest"

    def __init__(self):
        self.work = os.path.join(vlib.VERIF, ".work", "selftest_lsprotocol")
        shutil.rmtree(self.work, ignore_errors=True)
        os.makedirs(self.work)
        self.div = []

    def pick(self, q, t):
        return q

    def add_tlc(self, res):
        pass

    def divergence(self, d):
        self.div.append(d)


def req(i, cls="valid"):
    return {"e": "csend", "m": {"k": "req", "id": i, "cls": cls}}


def resp(i, r="ok"):
    return {"e": "ssend", "id": i, "r": r}


GOOD = [{"e": "reset", "phase": "ready"}, req(1), {"e": "csend", "m": {"k": "cancel", "id": 1, "cls": "-"}},
        resp(1, "err-32800"), req(2, "bad"), resp(2, "err-32602"), req(3, "unknown"), resp(3, "err-32601"),
        req(4), resp(4), {"e": "quiesce"}]


def main():
    ctx = Ctx()
    fails = []
    runs = [
        {"key": "good", "log": GOOD, "nids": 5},
        {"key": "dropped", "log": [e for e in GOOD if e != resp(4)], "nids": 5},
        {"key": "duplicated", "log": GOOD[:-1] + [resp(4), {"e": "quiesce"}], "nids": 5},
        {"key": "orphan", "log": GOOD[:-1] + [resp(5), {"e": "quiesce"}], "nids": 5},
        # a cancel that arrives after the result (entry still registered) is answered as well
        {"key": "late-cancel-answered", "log": [GOOD[0], req(1), resp(1), {"e": "csend", "m": {"k": "cancel", "id": 1, "cls": "-"}},
                                                resp(1, "err-32800"), {"e": "quiesce"}], "nids": 5},
        {"key": "late-cancel-ignored", "log": [GOOD[0], req(1), resp(1), {"e": "csend", "m": {"k": "cancel", "id": 1, "cls": "-"}},
                                               {"e": "quiesce"}], "nids": 5},
        # an unknown method answered as if it had been dispatched and cancelled: no branch of the code does that
        {"key": "corrupted", "log": [resp(3, "err-32800") if e == resp(3, "err-32601") else e for e in GOOD], "nids": 5},
    ]
    v = L.validate_traces(ctx, runs, tag="selftest")

    def ids(key):
        return {i["id"]: i for i in v[key][0]["ids"]} if v.get(key) else None

    if not v.get("good") or not v["good"][0]["exactlyOne"]:
        fails.append("good stream not accepted with exactlyOne")
    d = ids("dropped")
    if not d or d[4]["n"] != 0 or v["dropped"][0]["exactlyOne"]:
        fails.append("dropped response not flagged")
    d = ids("duplicated")
    if not d or d[4]["n"] != 2 or d[4]["how"] != "duplicate":
        fails.append("duplicate response not flagged")
    d = ids("late-cancel-answered")
    if not d or d[1]["n"] != 2 or d[1]["how"] != "duplicate":
        fails.append("second answer by a late cancel not flagged")
    if not v.get("late-cancel-ignored") or not v["late-cancel-ignored"][0]["exactlyOne"]:
        fails.append("late cancel without a second answer not accepted")
    d = ids("orphan")
    if not d or d.get(5, {}).get("how") != "orphan":
        fails.append("orphan response not flagged")
    if v.get("corrupted") is not None or not any(x.get("run") == "corrupted" for x in ctx.div):
        fails.append("corrupted response kind was explained")
    # result predicates
    good = {"kind": "symbols", "lines": [10, 5, 0], "nodes": [[0, [0, 0, 1, 5], [0, 2, 0, 4]], [1, [1, 0, 1, 5], [1, 1, 1, 2]]]}
    bad = json.loads(json.dumps(good))
    bad["nodes"][1][2] = [1, 1, 1, 6]          # selection range leaves its range (and the line)
    sem_good = {"kind": "semtok", "lines": [10, 5, 0], "data": [0, 0, 5, 1, 0, 0, 6, 2, 2, 1, 1, 0, 5, 3, 0], "ntypes": 24, "nmods": 10}
    sem_bad = json.loads(json.dumps(sem_good))
    sem_bad["data"][6] = 3                      # second token starts inside the first
    path = os.path.join(ctx.work, "results.ndjson")
    with open(path, "w") as f:
        for r in (good, bad, sem_good, sem_bad):
            f.write(json.dumps(r) + "\n")
    res = vlib.tlc("LsResults", "LsResults", workers=1, timeout=300, env={"RESULTS": path})
    out = {x["i"]: x["fails"] for t, x in res.json if t == "RES"}
    if out.get(1) != [] or out.get(3) != []:
        fails.append("good result records rejected: %s" % out)
    if "SelectionInRange" not in (out.get(2) or []):
        fails.append("corrupted selection range accepted: %s" % out.get(2))
    if "NonOverlapping" not in (out.get(4) or []):
        fails.append("overlapping semantic tokens accepted: %s" % out.get(4))
    shutil.rmtree(ctx.work, ignore_errors=True)
    for f in fails:
        print("SELFTEST-FAIL lsprotocol:", f)
    print("selftest lsprotocol: %s" % ("ok" if not fails else "FAILED"))
    return 1 if fails else 0


if __name__ == "__main__":
    sys.exit(main())
