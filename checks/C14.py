"""C14: rename and references agree with name resolution. Scope.tla programs; for every local declaration the spec
gives the class {declaration} + {uses resolving to it} (and TLC proves on the reference that renaming exactly that
class to a fresh name preserves the resolution structure, and that dropping any use from it does not). The real
`textDocument/references` and `textDocument/rename` handlers are driven in-process at every member of every class."""
import json
import os
import random
import sys

sys.path.insert(0, os.path.dirname(__file__))
import _scope  # noqa: E402
import vlib  # noqa: E402

FRESH = "zz9"


def jobs_for(ctx):
    if ctx.quick:
        return [("Scope_c14", dict(workers=4, timeout=1500))]
    return [("Scope_c14", dict(workers=6, timeout=2400)),
            ("Scope_c14s", dict(workers=1, timeout=2400, simulate="num=60", depth=9, seed=ctx.seed))]


def pos_of(text):
    starts = [0]
    for i, ch in enumerate(text):
        if ch == "\n":
            starts.append(i + 1)
    import bisect

    def f(off):
        ln = bisect.bisect_right(starts, off) - 1
        return ln, off - starts[ln]
    return f


def apply_edits(text, edits):
    """edits: [(line, col, line, col2, new)] non-overlapping, single-line."""
    lines = text.split("\n")
    for sl, sc, el, ec, new in sorted(edits, reverse=True):
        lines[sl] = lines[sl][:sc] + new + lines[sl][ec:]
    return "\n".join(lines)


def run(ctx):
    if ctx.replay:
        rec = json.load(open(ctx.replay))
        d = rec["detail"]["first"]
        programs = [{"text": d["program"], "classes": [{"decl": tuple(d["class"][0]), "members": [tuple(x) for x in d["class"]],
                                  "alias": "alias-local" in rec["signature"]}],
                     "points": [tuple(d["asked_at"])]}]
    else:
        cases, info = _scope.generate(ctx, jobs_for(ctx))
        ctx.note("mined_constants", info["mined_constants"])
        cases = [c for c in cases if not c["kf"] and c["decls"]]
        rnd = random.Random(ctx.seed)
        n = ctx.pick(2500, 30000)
        if len(cases) > n:
            cases = rnd.sample(cases, n)
        programs = []
        for c in cases:
            text, off = _scope.concretise(c["items"])
            at = pos_of(text)
            classes = []
            for d in sorted(c["decls"]):
                members = sorted([d] + [u for u, t in c["ref"].items() if t == d])
                it = c["items"][d // 10 - 1]
                alias = it["k"] in ("local", "local2") and it["e"]["t"] == "name"
                classes.append({"decl": at(off[d]), "members": [at(off[m]) for m in members], "alias": alias})
            programs.append({"text": text, "classes": classes, "points": None})
    vlib.build(["vh-ls"])
    rows, plan = [], []
    for i, p in enumerate(programs):
        pts = []
        for ci, cl in enumerate(p["classes"]):
            for m in cl["members"]:
                if p["points"] is None or tuple(m) in p["points"]:
                    pts.append((ci, tuple(m)))
        rows.append({"id": i, "text": p["text"], "points": [list(m) for _, m in pts]})
        plan.append(pts)
    path = os.path.join(ctx.work, "cases.ndjson")
    _scope.write_ndjson(path, rows)
    root = os.path.join(ctx.work, "ws")
    os.makedirs(root, exist_ok=True)
    pr = vlib.run_bin("vh_ls_refs", [path, root], timeout=ctx.pick(1500, 6000))
    out = vlib.ndjson(pr.stdout)
    summary = [o["summary"] for o in out if "summary" in o]
    if not summary or summary[0]["cases"] != len(rows):
        raise vlib.ToolError("vh_ls_refs: missing or short summary\n" + pr.stderr[-2000:])
    for pmsg in summary[0]["panics"][:3]:
        ctx.violation("C12/panic/ls-handler", {"panic": pmsg})
    ctx.note("lsp_requests", summary[0]["requests"])
    ctx.note("lsp_dropped_or_error", summary[0]["dropped"])
    viol = {}
    renamed = []   # (program index, new text) to be re-resolved
    for o in out:
        if "id" not in o:
            continue
        p = programs[o["id"]]
        for (ci, at), ans in zip(plan[o["id"]], o["answers"]):
            cl = p["classes"][ci]
            want = sorted((m[0], m[1], m[0], m[1] + 1) for m in cl["members"])
            role = "decl" if tuple(at) == tuple(cl["decl"]) else "use"

            def bad(sig, got):
                viol.setdefault(sig, []).append({"program": p["text"], "asked_at": list(at), "asked_on": role,
                                                 "class": [list(m) for m in cl["members"]], "observed": got})
            refs = ans["refs"]
            if refs is None:
                bad("C14/references/no-result/at-%s" % role, None)
            else:
                got = sorted(tuple(r) for r in refs)
                if got != want:
                    gs, ws = set(got), set(want)
                    kind = "duplicates" if len(gs) != len(got) and gs == ws else \
                        "missing" if gs < ws else "extra" if gs > ws else "different"
                    # `local x = y`: references follows the value to y's declaration when y holds a function
                    fam = "references-alias-local" if cl.get("alias") else "references"
                    bad("C14/%s/%s/at-%s" % (fam, kind, role), refs)
            ren = ans["rename"]
            if ren is None:
                bad("C14/rename/no-result/at-%s" % role, None)
            else:
                got = sorted(tuple(r[:4]) for r in ren)
                gs, ws = set(got), set(want)
                if any(r[4] != FRESH for r in ren):
                    bad("C14/rename/wrong-new-text", ren)
                elif len(gs) != len(got):
                    bad("C14/rename/overlapping-edits/at-%s" % role, ren)
                elif gs != ws:
                    kind = "missing" if gs < ws else "extra" if gs > ws else "different"
                    bad("C14/rename/%s/at-%s" % (kind, role), ren)
                elif role == "decl" and not ctx.replay:
                    renamed.append((o["id"], ci, apply_edits(p["text"], [tuple(r) for r in ren])))
            if ans["other_files"]:
                bad("C14/edits-or-locations-in-other-files", ans)
        ctx.count(p["text"], n=len(plan[o["id"]]), nontrivial=any(len(c["members"]) > 1 for c in p["classes"]))
    # the renamed programs keep their resolution structure (checked with the real resolver, C13's observation point)
    if renamed:
        rnd = random.Random(ctx.seed + 1)
        if len(renamed) > ctx.pick(3000, 30000):
            renamed = rnd.sample(renamed, ctx.pick(3000, 30000))
        rows2, exp2 = [], []
        for k, (pi, ci, new_text) in enumerate(renamed):
            p = programs[pi]
            at_old, at_new = None, pos_of(new_text)
            # offsets in the renamed text: the fresh name is longer, shift per line
            shift = {}
            cl = p["classes"][ci]
            for m in cl["members"]:
                shift.setdefault(m[0], []).append(m[1])

            def move(pt):
                ln, col = pt
                return ln, col + sum(len(FRESH) - 1 for c in shift.get(ln, []) if c < col)
            uses, want = [], []
            for cj, c2 in enumerate(p["classes"]):
                for m in c2["members"]:
                    if tuple(m) != tuple(c2["decl"]):
                        uses.append(move(m))
                        want.append(move(c2["decl"]))
            lines = new_text.split("\n")
            start = [0]
            for ln in lines[:-1]:
                start.append(start[-1] + len(ln) + 1)
            rows2.append({"id": k, "text": new_text, "uses": [start[ln] + col for ln, col in uses]})
            exp2.append([start[ln] + col for ln, col in want])
        path2 = os.path.join(ctx.work, "renamed.ndjson")
        _scope.write_ndjson(path2, rows2)
        vlib.build(["vh-analysis"])
        out2 = vlib.ndjson(vlib.run_bin("vh_scope", [path2], timeout=ctx.pick(600, 3000)).stdout)
        for o in out2:
            if "id" not in o or "got" not in o:
                continue
            if o["got"] != exp2[o["id"]]:
                pi, ci, new_text = renamed[o["id"]]
                viol.setdefault("C14/rename/structure-changed", []).append(
                    {"program": programs[pi]["text"], "renamed": new_text, "expected_decl_offsets": exp2[o["id"]],
                     "observed_decl_offsets": o["got"], "class": [list(m) for m in programs[pi]["classes"][ci]["members"]],
                     "asked_at": list(programs[pi]["classes"][ci]["decl"])})
        ctx.note("renamed_programs_re_resolved", len(rows2))
    ctx.validated(len(programs))
    ctx.note("programs", len(programs))
    ctx.rule("programs = seeded sample of the distinct programs TLC emitted from Scope.tla (all <= 2-item programs over {a,b}; "
             "thorough adds random walks) that have a local declaration and no C13 waiver site; requests = references + rename "
             "at every member of every class; non-trivial = some class has at least one use")
    ctx.assume("classes come from Scope!Reference (C13 decides whether the analyser resolves like the reference); a use that "
               "resolves to a global is not a rename point")
    for p in programs[:3]:
        ctx.sample({"program": p["text"], "classes[line,col]": p["classes"]})
    for sig, fs in sorted(viol.items()):
        ctx.violation(sig, {"count": len(fs), "first": fs[0], "more": fs[1:3]})
