"""C03 Valid Lua is never reported as a syntax error: LuaGrammar.tla derivations replayed into LuaParser, 5.5 judged by luars."""
import os
import random
import re
import sys

sys.path.insert(0, os.path.dirname(__file__))
import _parser as P
import vlib

LEVELS6 = ["Lua51", "Lua52", "Lua53", "Lua54", "Lua55", "LuaJIT2"]
# compile-time errors of the reference that are not syntax errors (the property speaks of syntax reasons only)
SEMANTIC = re.compile(r"break outside|not declared|no visible label|already defined|assign to const|outside a vararg|"
                      r"to-be-closed|jumps into the scope|unknown attribute|too many|overflow|goto .* jumps")


ORDER = ["Lua51", "Lua52", "Lua53", "Lua54", "Lua55"]


def feature(tokens, level):
    """The construct of the program that version `level` lacks (signature component for missed errors)."""
    t = tokens
    below = lambda v: level in ORDER and ORDER.index(level) < ORDER.index(v)   # noqa: E731
    for i, x in enumerate(t):
        if x in ("//", "&", "|", "<<", ">>", "~") and below("Lua53"):
            return "bitop-or-idiv"
        if x in ("const", "close") and i > 0 and t[i - 1] == "<" and below("Lua54"):
            return "attrib"
        if x == "global" and below("Lua55"):
            return "global"
        if x == "t" and below("Lua55"):
            return "named-vararg"
        if x == "goto":
            if level == "Lua51" and i + 1 < len(t) and t[i + 1] not in ("=",) and (i == 0 or t[i - 1] != "local"):
                return "goto"
            if level != "Lua51" and (i + 1 < len(t) and t[i + 1] == "=" or (i > 0 and t[i - 1] == "local")):
                return "goto-as-name"
        if x == "::" and below("Lua52"):
            return "label"
        if "\\u" in x and below("Lua53"):
            return "escape-u"
        if ("\\x" in x or "\\z" in x) and below("Lua52"):
            return "escape-x-z"
        if x.startswith("0x") and ("." in x or "p" in x) and below("Lua52"):
            return "hexfloat"
        if ("LL" in x or x == "2i"):
            return "jit-number"
    if ";" in t and below("Lua52"):
        return "empty-statement"
    return "other"


def errclass(msg):
    msg = msg or ""
    msg = re.sub(r"'[^']*'", "'_'", msg)
    return re.sub(r"[^A-Za-z_' ]+", "", msg)[:60].strip().replace(" ", "-")


def run(ctx):
    res = vlib.tlc("LuaGrammar", ctx.pick("LuaGrammar_q", "LuaGrammar_t"), workers=4, timeout=ctx.pick(900, 3000), xmx="8g")
    ctx.add_tlc(res)
    if res.violated:
        raise vlib.ToolError("LuaGrammar: unexpected TLC verdict %s" % res.violated)
    tables = [t for tag, t in res.json if tag == "TABLE"]
    progs = [p for tag, p in res.json if tag == "PROG"]
    if not tables or not progs:
        raise vlib.ToolError("LuaGrammar printed no programs")
    table = tables[0]
    D = {}
    C = {}
    for p in progs:
        t = tuple(p["t"])
        if p["m"]:
            C.setdefault(t, p["m"])
        else:
            D.setdefault(t, set()).add(p["v"])
    cases = []
    for t in sorted(D):
        levels = list(LEVELS6)
        if "LuaJIT2" in D[t]:
            levels += ["LuaJIT", "LuaJIT3"]      # supersets of the legacy LuaJIT level: positive direction only
        cases.append({"t": list(t), "levels": levels, "luars": True})
    ncorr = 0
    for t in sorted(C):
        if t in D:
            continue
        ncorr += 1
        cases.append({"t": list(t), "levels": ["Lua55"], "luars": True, "m": C[t]})
    vlib.build(["vh-parser"])
    out = P.run_chunks(ctx, "errors", cases, "errs", chunk=ctx.pick(15000, 60000), par=ctx.pick(2, 4), timeout=ctx.pick(900, 3000))
    # run_chunks restarts the case index per chunk; results come back in order
    if len(out) != len(cases):
        raise vlib.ToolError("vh_parse errors judged %d of %d cases" % (len(out), len(cases)))

    def plain(t, level):
        soft = set(table["soft"].get(level, []))
        return tuple((table["plain_str"] if x.startswith('"') else table["plain_num"]) if x in soft else x for x in t)

    viol = {}
    stats = {"positive": 0, "negative_grammar": 0, "negative_reference": 0, "reference_accepts_corrupted": 0,
             "spec_vs_reference_agree": 0, "semantic_rejections_skipped": 0}

    def add(sig, detail):
        viol.setdefault(sig, []).append(detail)

    for c, o in zip(cases, out):
        t = tuple(c["t"])
        text = " ".join(c["t"])
        lu = o["luars"]
        lu_ok = lu == "ok"
        lu_sem = (not lu_ok) and bool(SEMANTIC.search(lu))
        if "m" in c:
            # corrupted 5.5 program: the reference implementation is the only judge
            e = o["errs"]["Lua55"]
            if lu_sem:
                stats["semantic_rejections_skipped"] += 1
            elif lu_ok:
                # luars accepts a text the grammar cannot derive: if the parser agrees this is one more positive case;
                # if not, nothing but luars says it is valid Lua (luars 0.26 accepts e.g. `function return ( ) end`),
                # so it is recorded as a divergence, not an alarm
                stats["reference_accepts_corrupted"] += 1
                ctx.count(("c", t), nontrivial=len(t) >= 3)
                if e != 0:
                    ctx.divergence({"luars_accepts_underivable_text": text, "parser_error": o["first"].get("Lua55")})
            else:
                stats["negative_reference"] += 1
                ctx.count(("c", t), nontrivial=len(t) >= 3)
                if e == 0:
                    add("C03/missed-error/Lua55/corrupt-%s" % c["m"][0],
                        {"text": text, "level": "Lua55", "judge": "luars: " + lu, "corruption": c["m"]})
            continue
        der = D[t]
        for lv in c["levels"]:
            e = o["errs"][lv]
            base = "LuaJIT2" if lv in ("LuaJIT", "LuaJIT3") else lv
            derivable = base in der
            if lv == "Lua55":
                # cross-validation of the transcription: derivable <=> the reference accepts
                if derivable != lu_ok and not lu_sem:
                    ctx.divergence({"spec_vs_luars": text, "derivable_at_5.5": derivable, "luars": lu})
                    derivable = lu_ok
                elif lu_sem:
                    stats["semantic_rejections_skipped"] += 1
                    continue
                else:
                    stats["spec_vs_reference_agree"] += 1
            if derivable:
                stats["positive"] += 1
                ctx.count((lv, t), nontrivial=len(t) >= 3)
                if e != 0:
                    add("C03/false-error/%s/%s" % (lv, errclass(o["first"].get(lv))),
                        {"text": text, "level": lv, "judge": "derivable in LuaGrammar.tla" + (" and accepted by luars" if lv == "Lua55" else ""),
                         "parser_error": o["first"].get(lv), "errors": e})
            elif lv in table["neg"] and (lv == "Lua55" or plain(t, lv) not in D or lv not in D[plain(t, lv)]):
                stats["negative_grammar" if lv != "Lua55" else "negative_reference"] += 1
                ctx.count((lv, t), nontrivial=len(t) >= 3)
                if e == 0:
                    add("C03/missed-error/%s/%s" % (lv, feature(plain(t, lv), lv)),
                        {"text": text, "level": lv, "derivable_at": sorted(der),
                         "judge": "luars: " + lu if lv == "Lua55" else "needs a production the %s grammar does not have" % lv})
    for sig, ds in sorted(viol.items()):
        ds.sort(key=lambda d: (len(d["text"]), d["text"]))
        ctx.violation(sig, {"count": len(ds), "first": ds[0], "more": [d["text"] for d in ds[1:6]],
                            "replay": "vh_parse errors <file with {\"text\":..., \"levels\":[...], \"luars\":true}>"})
    ctx.validated(len(cases))
    ctx.note("judgements", stats)
    ctx.note("programs", len(D))
    ctx.note("corrupted_programs", ncorr)
    ctx.cov["exhaustive"] = True
    ctx.rule("one case = (program, level): every program of <= MaxTokens tokens derivable in LuaGrammar.tla at any of 6 "
             "versions, judged at every level (derivable => no error; not derivable at a manual version => error), plus "
             "every single-token corruption of the short 5.5 programs judged by luars; non-trivial = >= 3 tokens")
    rnd = random.Random(ctx.seed)
    keys = sorted(D)
    for t in rnd.sample(keys, min(6, len(keys))):
        ctx.sample({"program": " ".join(t), "derivable_at": sorted(D[t])})
    ctx.assume("Lua 5.1-5.4 and LuaJIT are judged by the transcribed grammar only (no reference implementation installed); "
               "5.5 by luars 0.26 (every generated program cross-validated: derivable <=> accepted)")
