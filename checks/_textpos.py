"""Shared driver for C22 / C23: TextPos.tla cases replayed into LineIndex / LuaDocument."""
import json
import os
import random

import vlib


def signature(f):
    """Mechanism key of a failing observation (text class + failure kind), used for known findings."""
    letters = f["t"]
    cls = []
    if "E" in letters:
        cls.append("astral")
    if "e" in letters:
        cls.append("bmp")
    if "r" in letters:
        cls.append("cr")
    return "%s/%s/%s" % (f["prop"], f["fail"], "+".join(cls) or "ascii")


def run(ctx, prop):
    cfg = ctx.pick("TextPos_q", "TextPos_t")
    res = vlib.tlc("TextPos", cfg, workers=ctx.pick(4, 8), timeout=ctx.pick(300, 1500))
    ctx.add_tlc(res)
    if res.violated:
        raise vlib.ToolError("TextPos reference violates its own law %s:\n%s" % (res.violated, res.trace_text[:2000]))
    cases = [c for tag, c in res.json if tag == "CASE"]
    if len(cases) != res.distinct:
        raise vlib.ToolError("case extraction lost cases: %d printed, %d distinct states" % (len(cases), res.distinct))
    vlib.build(["vh-analysis"])
    path = ctx.workfile("cases.ndjson")
    with open(path, "w") as f:
        for c in cases:
            f.write(json.dumps(c) + "\n")
    p = vlib.run_bin("vh_textpos", [path], timeout=ctx.pick(600, 3000))
    out = vlib.ndjson(p.stdout)
    summary = [o["summary"] for o in out if "summary" in o]
    if not summary:
        raise vlib.ToolError("vh_textpos produced no summary\n" + p.stderr[-2000:])
    fails = [o for o in out if "fail" in o and o["prop"] == prop]
    ctx.cov["evaluations"] = summary[0]["evaluations"]
    for c in cases:
        t = c["t"]
        nontrivial = len(t) >= 2 and (prop == "C22" or any(x in t for x in "eEr"))
        ctx.count("".join(t), n=0, nontrivial=nontrivial)
    ctx.validated(len(cases))
    ctx.cov["exhaustive"] = True
    ctx.rule("every text of length <= MaxLen over {a, e-acute, emoji, LF, CR} enumerated by TLC with the LSP reference "
             "position of every character boundary; replayed into LineIndex and (every other text) into Vfs/LuaDocument incl. to_lsp_range/to_rowan_range over all boundary pairs; "
             "non-trivial = length >= 2" + ("" if prop == "C22" else " and contains a non-ASCII character or CR"))
    rnd = random.Random(ctx.seed)
    for c in rnd.sample(cases, min(5, len(cases))):
        ctx.sample({"text_letters": "".join(c["t"]), "lines[start,end,units]": c["lines"], "pos[off,line,col16,inCRLF]": c["pos"]})
    ctx.assume("LSP 3.17 position semantics as transcribed in spec/TextPos.tla (UTF-16 default encoding)")
    seen = {}
    for f in fails:
        sig = signature(f)
        seen.setdefault(sig, []).append(f)
    for sig, fs in sorted(seen.items()):
        ctx.violation(sig, {"count": len(fs), "first": fs[0], "more": fs[1:4]})
