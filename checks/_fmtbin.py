"""Build the real `luafmt` binary from /repo's current working tree into a harness-side target dir."""
import fcntl
import os
import subprocess
import time

import vlib

TARGET = os.path.join(vlib.HARNESS, "target", "repo-bins")


def build_luafmt(timeout=3000):
    # development / mutation-testing aid: use a luafmt built elsewhere (e.g. from a scratch worktree)
    if os.environ.get("VERIF_LUAFMT"):
        vlib.log("using luafmt from VERIF_LUAFMT=" + os.environ["VERIF_LUAFMT"])
        return os.environ["VERIF_LUAFMT"]
    os.makedirs(TARGET, exist_ok=True)
    lock = open(os.path.join(TARGET, ".vbuild.lock"), "w")
    fcntl.flock(lock, fcntl.LOCK_EX)
    try:
        cmd = ["cargo", "build", "--offline", "--release", "-p", "emmylua_formatter", "--bin", "luafmt",
               "--manifest-path", os.path.join(vlib.REPO, "Cargo.toml"), "--target-dir", TARGET]
        t0 = time.time()
        p = subprocess.run(cmd, env=vlib.cargo_env(), stdout=subprocess.PIPE, stderr=subprocess.STDOUT,
                           text=True, timeout=timeout)
        vlib.log("build luafmt: rc=%d %.0fs" % (p.returncode, time.time() - t0))
        if p.returncode != 0:
            raise vlib.ToolError("luafmt build failed:\n" + p.stdout[-6000:])
    finally:
        fcntl.flock(lock, fcntl.LOCK_UN)
        lock.close()
    path = os.path.join(TARGET, "release", "luafmt")
    if not os.path.exists(path):
        raise vlib.ToolError("luafmt binary missing after build: " + path)
    return path
