#!/usr/bin/env python3
"""Binding self-tests of the lead's checks (run by bin/vsetup): each corrupts one expected value / one mined
parameter and requires the machinery to notice. Exit 0 = all noticed."""
import json
import os
import subprocess
import sys

VERIF = os.path.dirname(os.path.dirname(os.path.abspath(__file__)))
sys.path.insert(0, os.path.join(VERIF, "lib"))
sys.path.insert(0, os.path.join(VERIF, "checks"))
import vlib  # noqa: E402
import _lslocks  # noqa: E402

work = os.path.join(VERIF, ".work", "_selftest_lead")
os.makedirs(work, exist_ok=True)
fails = []


def check(name, ok):
    print("selftest %-40s %s" % (name, "ok" if ok else "FAILED"))
    if not ok:
        fails.append(name)


# 1. TextPos: a corrupted expected position must be reported by vh_textpos
case = {"t": ["a", "E", "n", "a"], "lines": [[0, 5, 3], [6, 7, 1]],
        "pos": [[0, 0, 0, 0], [1, 0, 1, 0], [5, 0, 3, 0], [6, 1, 0, 0], [7, 1, 1, 0]]}
good = os.path.join(work, "tp_good.ndjson")
bad = os.path.join(work, "tp_bad.ndjson")
open(good, "w").write(json.dumps(case) + "\n")
c2 = json.loads(json.dumps(case))
c2["pos"][2] = [5, 0, 2, 0]          # emoji counted as one unit
open(bad, "w").write(json.dumps(c2) + "\n")
g = vlib.ndjson(vlib.run_bin("vh_textpos", [good]).stdout)
b = vlib.ndjson(vlib.run_bin("vh_textpos", [bad]).stdout)
check("textpos accepts the reference case", not [o for o in g if "fail" in o])
check("textpos rejects a corrupted position", bool([o for o in b if "fail" in o]))

# 2. LsLocks: an ABBA pair of mined-looking programs must produce a blocked state, a consistent order none
class Ctx:  # minimal stand-in
    def __init__(self):
        self.cov = {"states": 0, "transitions": 0}
    def workfile(self, n):
        return os.path.join(work, n)
    def pick(self, q, t):
        return q
    def add_tlc(self, r):
        pass
abba = [{"program": "x#0", "ops": [["acq", "an", "R"], ["acq", "wm", "W"], ["rel", "wm", "W"], ["rel", "an", "R"]]},
        {"program": "y#0", "ops": [["acq", "wm", "R"], ["acq", "an", "W"], ["rel", "an", "W"], ["rel", "wm", "R"]]}]
res, blocked, _ = _lslocks.model_check(Ctx(), _lslocks.segments(abba), 2, True, 300)
check("lslocks finds the ABBA deadlock", len(blocked) > 0)
okp = [{"program": "x#0", "ops": [["acq", "wm", "R"], ["acq", "an", "R"], ["rel", "an", "R"], ["rel", "wm", "R"]]},
       {"program": "y#0", "ops": [["acq", "wm", "R"], ["acq", "an", "W"], ["rel", "an", "W"], ["rel", "wm", "R"]]}]
res, blocked, _ = _lslocks.model_check(Ctx(), _lslocks.segments(okp), 2, True, 300)
check("lslocks accepts a consistent lock order", len(blocked) == 0)

# 3. LsSync replay: a schedule with one corrupted expected state must be reported as diverged
consts = dict(Uris='{"u1"}', Texts='{"t1"}', MaxMsgs=2, MsgKinds='{"open","change","close"}', MaxCfg=0, MaxDisk=0, OnDisk='{}',
              InitOpen='{}', Outside='{}', CfgAddsLib='FALSE', RenameClears='FALSE',
              EnableReindex='FALSE', InlineOpen='TRUE', InlineChange='TRUE', InlineClose='TRUE')
cfg = os.path.join(work, "LsSync_self")
open(cfg + ".cfg", "w").write("SPECIFICATION Spec\nVIEW view\nCONSTANTS\n" + "".join("  %s = %s\n" % kv for kv in consts.items()) + "INVARIANTS Emit\n")
r = vlib.tlc("LsSync", cfg, workers=2, timeout=600)
sched = [j for t, j in r.json if t == "SCHED"]
s = max(sched, key=lambda x: len(x["hist"]))
gp = os.path.join(work, "ls_good.ndjson")
bp = os.path.join(work, "ls_bad.ndjson")
open(gp, "w").write(json.dumps(s) + "\n")
s2 = json.loads(json.dumps(s))
k = max(i for i, h in enumerate(s2["hist"]) if h["st"]["vfs"]["u1"] != "absent")
s2["hist"][k]["st"]["vfs"]["u1"] = "tX"
open(bp, "w").write(json.dumps(s2) + "\n")
g = vlib.ndjson(vlib.run_bin("vh_ls_sync", [os.path.join(work, "root"), gp]).stdout)
b = vlib.ndjson(vlib.run_bin("vh_ls_sync", [os.path.join(work, "root"), bp]).stdout)
check("lssync replays a TLC schedule without divergence", len(g) == 1 and g[0]["diverged"] is None)
check("lssync reports a corrupted expected state", len(b) == 1 and b[0]["diverged"] is not None)

import shutil
shutil.rmtree(work, ignore_errors=True)
sys.exit(1 if fails else 0)
