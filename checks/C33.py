"""C33: ModuleIndex.tla (reference resolver vs transcribed LuaModuleIndex, all add / re-add / remove histories)
replayed into the real module index through EmmyLuaAnalysis (vh_analysisdb with a probe file)."""
import concurrent.futures
import json
import os
import random

import vlib

PROBE = "/p/probe.lua"


def path_of(seg):
    return "/" + "/".join(seg)


def emmyrc(cfg):
    rc = {"strict": {"requirePath": bool(cfg["strict"])}}
    if cfg["pat"] == "luaonly":
        rc["runtime"] = {"requirePattern": ["?.lua"]}
    elif cfg["pat"] == "main":
        rc["runtime"] = {"requirePattern": ["?/main.lua"]}
    if cfg["map"]:
        rc["workspace"] = {"moduleMap": [{"pattern": "^a", "replace": "b"}]}
    return rc


def roots(cfg):
    r = [{"path": "/w", "kind": "main"}]
    if cfg["roots"] == "w+lib":
        r.append({"path": "/w/lib", "kind": "lib"})
    elif cfg["roots"] == "w+o":
        r.append({"path": "/o", "kind": "lib"})
    return r


def text_of(f):
    # a plain table: go-to-definition follows a require call into the module only for table / function values
    return "local M = { tag_%s = 1 }\nreturn M\n" % f


def run(ctx):
    cfgs = ctx.pick(["ModuleIndex_q", "ModuleIndex_q2"], ["ModuleIndex_t", "ModuleIndex_t2", "ModuleIndex_t3"])

    def one(cfg):
        return cfg, vlib.tlc("ModuleIndex", cfg, workers=ctx.pick(2, 2), timeout=ctx.pick(900, 2400),
                             metadir=os.path.join(ctx.work, "tlc_" + cfg))
    with concurrent.futures.ThreadPoolExecutor(max_workers=len(cfgs)) as ex:
        results = list(ex.map(one, cfgs))
    vlib.build(["vh-analysis"])
    records = []
    files = None
    for cfg, res in results:
        ctx.add_tlc(res)
        if res.violated:
            # reference and transcription disagree outside the waived deviation, or a tree invariant breaks in the model
            ctx.violation("C33/model/%s" % res.violated, {"cfg": cfg, "invariant": res.violated, "trace": res.trace_text[:6000]})
            continue
        n = 0
        for tag, payload in res.json:
            if tag == "FILES":
                files = payload
            elif tag == "S":
                records.append((cfg, payload))
                n += 1
    if not records or files is None:
        return
    cases = []
    for i, (cfg, rec) in enumerate(records):
        step = rec["step"]
        reqs = sorted(".".join(r["req"]) for r in step["res"])
        slash = [r.replace(".", "/") for r in reqs if "." in r][:3]
        steps = []
        for h in rec["h"]:
            p = path_of(files[h["f"]])
            if h["op"] in ("add", "readd"):
                steps.append({"op": "update", "path": p, "text": text_of(h["f"])})
            else:
                steps.append({"op": "remove", "path": p})
        steps[-1]["probe_out"] = True
        cases.append({"id": i, "cfg": emmyrc(step["cfg"]), "roots": roots(step["cfg"]),
                      "probe": {"path": PROBE, "reqs": reqs + slash}, "steps": steps})
    path = os.path.join(ctx.work, "cases.ndjson")
    with open(path, "w") as f:
        for c in cases:
            f.write(json.dumps(c) + "\n")
    p = vlib.run_bin("vh_analysisdb", [path], timeout=ctx.pick(900, 3000))
    out = vlib.ndjson(p.stdout)
    if len(out) != len(cases):
        raise vlib.ToolError("vh_analysisdb answered %d of %d cases\n%s" % (len(out), len(cases), p.stderr[-2000:]))
    found = {}

    def describe(rec):
        c = rec["step"]["cfg"]
        return "cfg{pat=%s,map=%s,strict=%s,roots=%s} ; %s" % (
            c["pat"], c["map"], c["strict"], c["roots"],
            " ; ".join("%s(%s)" % (h["op"], path_of(files[h["f"]])) for h in rec["h"]))

    def add(sig, i, what):
        found.setdefault(sig, []).append({"history": describe(records[i][1]), "observed": what, "case": cases[i]})
    evaluations = 0
    mism = 0
    for r in out:
        i = r["id"]
        cfgname, rec = records[i]
        step = rec["step"]
        if "harness_panic" in r:
            raise vlib.ToolError("vh_analysisdb failed on case %s: %s" % (i, r["harness_panic"]))
        last = r["steps"][-1]
        if any("panic" in s for s in r["steps"]):
            add("C33/panic", i, [s.get("panic") for s in r["steps"] if "panic" in s][:1])
            continue
        probe = last["probe"]
        present = set(step["present"].keys()) if isinstance(step["present"], dict) else set()
        pth = {f: path_of(files[f]) for f in files}
        for res in step["res"]:
            for variant in (".".join(res["req"]), "/".join(res["req"])):
                if variant not in probe:
                    continue
                evaluations += 1
                got = probe[variant]
                want_ref = None if res["ref"] == "none" else pth[res["ref"]]
                want_find = None if res["find"] == "none" else pth[res["find"]]
                shape = "%s,pat=%s" % ("dir-module-by-plain-name" if res["kf"] else "req", step["cfg"]["pat"])
                # 1. the three consumers agree with each other
                if got["find"] is not None:
                    f = [k for k, v in pth.items() if v == got["find"]]
                    fname = f[0] if f else "?"
                    if fname not in present:
                        add("C33/resolves-to-removed-file", i, {variant: got})
                    if got["type"] != "{ tag_%s = 1 }" % fname or not (got["decl"] or "").startswith("decl:%s@" % got["find"]):
                        add("C33/definition-or-type-disagrees-with-find_module", i, {variant: got})
                else:
                    if got["type"] != "unknown" or not (got["decl"] or "decl:" + PROBE).startswith("decl:" + PROBE):
                        add("C33/definition-or-type-disagrees-with-find_module", i, {variant: got})
                # 2. the resolution is the one the property demands
                if got["find"] != want_ref:
                    if res["kf"]:
                        add("C33/one-module-name-per-file/" + shape, i, {variant: {"want": want_ref, "got": got["find"]}})
                    else:
                        add("C33/wrong-resolution/" + shape, i, {variant: {"want": want_ref, "got": got["find"]}})
                # 3. conformance with the transcription
                if got["find"] != want_find:
                    mism += 1
                    ctx.divergence({"history": describe(rec), "req": variant, "model_find": want_find, "real": got["find"]})
        # tree shape
        tree = last["tree"]
        want_names = sorted(".".join(nm) for nm in step["names"])
        want_files = sorted("%s=%s" % (".".join(x["name"]), pth[x["f"]]) for x in step["files_in_nodes"])
        ms = last["module_sizes"]
        evaluations += 1
        if tree["empty"]:
            add("C33/tree/empty-node", i, tree["empty"])
        if tree["bad_parent"]:
            add("C33/tree/parent-link", i, tree["bad_parent"])
        if tree["reachable"] != ms["module.module_nodes"]:
            add("C33/tree/unreachable-node", i, {"reachable": tree["reachable"], "module_nodes": ms["module.module_nodes"]})
        if tree["files_in_nodes"] != tree["infos"]:
            add("C33/tree/file-map-vs-nodes", i, {"nodes": tree["files_in_nodes"], "file_module_map": tree["infos"]})
        if tree["names"] != want_names or tree["files_in_nodes"] != want_files:
            add("C33/tree/differs-from-model", i, {"names": [want_names, tree["names"]], "files": [want_files, tree["files_in_nodes"]]})
        sz = step["sizes"]
        for k, name in (("module_nodes", "module.module_nodes"), ("file_module_map", "module.file_module_map"),
                        ("fuzzy", "module.module_name_to_file_ids"), ("fuzzy_items", "module.module_name_to_file_ids.items")):
            if ms[name] != sz[k]:
                add("C33/tree/size/" + name, i, {name: [sz[k], ms[name]]})
        ctx.count(describe(rec), n=0, nontrivial=len(rec["h"]) >= 2)
    ctx.cov["evaluations"] = evaluations
    ctx.validated(len(cases))
    ctx.note("transitions_replayed", len(cases))
    ctx.note("model_vs_real_mismatching_requests", mism)
    ctx.cov["exhaustive"] = True
    ctx.rule("every transition of ModuleIndex.tla (all add / re-add / remove histories up to MaxSteps over the file "
             "universe, for every configuration of the cfg) replayed with the history leading to it; evaluations = "
             "(request, state) resolutions compared + tree checks; non-trivial = history of >= 2 steps")
    rnd = random.Random(ctx.seed)
    for cfgname, rec in rnd.sample(records, min(5, len(records))):
        ctx.sample({"history": describe(rec), "expected": {".".join(x["req"]): [x["find"], x["ref"]] for x in rec["step"]["res"]}})
    ctx.assume("reference resolver Resolve in spec/ModuleIndex.tla (any configured pattern, most specific root, module-map "
               "normalisation on both sides, exact before fuzzy suffix, ties by lowest file id)")
    for sig, ds in sorted(found.items()):
        ctx.violation(sig, {"count": len(ds), "first": ds[0], "more": [{k: d[k] for k in ("history", "observed")} for d in ds[1:4]]})

