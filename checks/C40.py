"""C40 JSON-schema conversion: SchemaGen.tla generates the schemas and judges the recorded results."""
import json
import os
import random
import re

import vlib

SUB = {"<q>": '"', "<nl>": "\n", "<bs>": "\\", "<e2>": "é", "<e4>": "\U0001F600", "<cr>": "\r", "<tab>": "\t", "<nul>": "\0",
       "<u2028>": "\u2028", "<vt>": "\x0b", "<ff>": "\x0c"}


def subst(v):
    if isinstance(v, str):
        for k, r in SUB.items():
            v = v.replace(k, r)
        return v
    if isinstance(v, list):
        return [subst(x) for x in v]
    if isinstance(v, dict):
        return {subst(k): subst(x) for k, x in v.items()}
    return v


def features(schema):
    """which odd ingredients a schema contains (for the signature of a failing case)"""
    txt = json.dumps(schema)
    f = []
    for mark, name in (("<q>", "quote"), ("<nl>", "newline"), ("<bs>", "backslash"), ("<cr>", "cr"), ("<tab>", "tab"),
                       ("<nul>", "nul"), ("<u2028>", "u2028"), ("<vt>", "vt"), ("]]", "long-bracket-close"), ("--", "dashes")):
        if mark in txt:
            f.append(name)
    return f


def odd_keys(v, acc):
    if isinstance(v, dict):
        for k, x in v.items():
            acc.add(k)
            odd_keys(x, acc)
    elif isinstance(v, list):
        for x in v:
            odd_keys(x, acc)
    return acc


def run(ctx):
    res = vlib.tlc("SchemaGen", ctx.pick("SchemaGen_q", "SchemaGen_t"), workers=ctx.pick(4, 8), timeout=ctx.pick(900, 3000))
    ctx.add_tlc(res)
    cases = sorted((c for t, c in res.json if t == "CASE"), key=lambda c: json.dumps(c, sort_keys=True))
    if len(cases) != res.distinct or not cases:
        raise vlib.ToolError("case extraction lost cases: %d printed, %d distinct states" % (len(cases), res.distinct))
    vlib.build(["vh-tools"])
    cpath = os.path.join(ctx.work, "cases.ndjson")
    with open(cpath, "w") as f:
        for i, c in enumerate(cases):
            f.write(json.dumps({"id": i, "schema": subst(c["schema"])}) + "\n")
    p = vlib.run_bin("vh_schema", [cpath], timeout=ctx.pick(900, 3000))
    # not vlib.ndjson: str.splitlines would also split at the U+2028 / VT / FF that some generated strings contain
    out = [json.loads(l) for l in p.stdout.split("\n") if l.startswith("{")]
    records = [o for o in out if "id" in o]
    if len(records) != len(cases) or not any("summary" in o for o in out):
        raise vlib.ToolError("vh_schema: %d records for %d cases\n%s" % (len(records), len(cases), p.stderr[-2000:]))
    if os.environ.get("VERIF_CORRUPT"):  # binding self-test: one corrupted record must be rejected by TLC
        records[0]["errors"] += 1
        records[0]["first_error"] = "corrupted by VERIF_CORRUPT"
    rpath = os.path.join(ctx.work, "results.ndjson")
    with open(rpath, "w") as f:
        for r in records:
            f.write(json.dumps({k: r[k] for k in ("id", "panic", "errors", "declares")}) + "\n")
    jres = vlib.tlc("SchemaGen", "SchemaGen_judge", workers=ctx.pick(4, 8), timeout=ctx.pick(900, 3000),
                    env={"SCHEMA_RESULTS": rpath})
    ctx.add_tlc(jres)
    if jres.violated:
        raise vlib.ToolError("SchemaGen judge run failed: %s\n%s" % (jres.violated, jres.trace_text[:2000]))
    if jres.distinct != len(records):
        raise vlib.ToolError("SchemaGen judged %d of %d records" % (jres.distinct, len(records)))
    verdicts = [v for t, v in jres.json if t == "VERDICT"]
    ctx.cov["evaluations"] = len(records)
    for i, c in enumerate(cases):
        ctx.count(("schema", json.dumps(c, sort_keys=True)), n=0, nontrivial=True)
    ctx.validated(len(records))
    ctx.rule("every schema of three families enumerated by TLC: (A) title x property name x property schema x description "
             "over fixed $defs, (B) definition name x definition schema x description under a root that references it; "
             "schema nodes of nesting depth 1 (quick) / 2 (thorough) over primitive types, nullable type arrays, enums, "
             "consts, $ref, arrays, objects, additionalProperties, anyOf/oneOf/allOf; names and strings include space, "
             "quote, keyword, empty, dash, non-ASCII, newline, backslash; (C) one odd string (lone CR, CR LF, tab, NUL, VT/FF, "
             "U+2028, `]]`, `--`, `--[[`, astral, trailing backslash, quote, CR next to quote / backslash, ...) in one of 22 "
             "string positions (title, definition name, property names, enum / const values inline and in definitions, every "
             "kind of description) of an otherwise plain schema; every schema is non-trivial (a root object with a property "
             "and, except in some C positions, a definition)")
    rnd = random.Random(ctx.seed)
    for i in rnd.sample(range(len(cases)), min(3, len(cases))):
        ctx.sample({"schema": subst(cases[i]["schema"]), "annotation_text": records[i]["text"], "root_type_name": records[i]["root"],
                    "syntax_errors": records[i]["errors"], "declares_root": records[i]["declares"]})
    ctx.assume("'declares the reported root type' = the parsed annotation text contains a ---@class or ---@alias tag whose "
               "name token is root_type_name; 'parses without syntax errors' = LuaParser reports no error for the text")
    groups = {}
    for v in verdicts:
        r = records[v["idx"] - 1]
        c = cases[r["id"]]
        if not v["nopanic"]:
            kind = "panic"
        elif not v["parses"]:
            kind = "syntax-error"
        else:
            kind = "root-not-declared"
        sch = c["schema"]
        if kind == "root-not-declared":
            title = sch.get("title")
            cls = "no-title" if title is None else ("title:" + ("plain" if title == "Config" else "space" if " " in title else "quote"))
        elif kind == "syntax-error":
            # mechanism = the kind of annotation line the first error points into + the odd character on it
            m = re.search(r"range: (\d+)\.\.(\d+)", r["first_error"])
            text = r["text"]
            off = min(int(m.group(1)), len(text.encode())) if m else 0
            btext = text.encode()
            ls = btext.rfind(b"\n", 0, off) + 1
            le = btext.find(b"\n", off)
            line = btext[ls:le if le >= 0 else len(btext)].decode(errors="replace")
            if line.startswith('---@field ["[string]'):
                where = "index-signature"
            elif line.startswith('---@field ["'):
                where = "field-name"
            elif line.startswith("---@field"):
                where = "field-type"
            elif line.startswith("---|"):
                where = "alias-variant"
            elif line.startswith("---@class") or line.startswith("---@alias"):
                where = "type-name"
            elif not line.startswith("--"):
                where = "broken-line"
            else:
                where = "other"
            odd = [n for ch, n in (('\\', "backslash"), ('"', "quote"), ("\r", "cr"), ("\t", "tab"), ("\0", "nul"))
                   if ch in line.replace('["', "").replace('"]', "")]
            cls = where + ("/" + "+".join(odd) if odd and where != "index-signature" else "")
        else:
            cls = "+".join(features(sch)) or "plain"
        if c["fam"] == "C":   # one odd string in one position: position and ingredients of the string name the class
            cls = "%s/%s" % (c["slot"], "+".join(features(c["odd"])) or "plain")
        sig = "C40/%s/%s" % (kind, cls)
        groups.setdefault(sig, []).append({"schema": subst(sch), "annotation_text": r["text"], "root_type_name": r["root"],
                                           "syntax_errors": r["errors"], "first_error": r["first_error"], "panic": r["msg"]})
    for sig, ds in sorted(groups.items()):
        ctx.violation(sig, {"count": len(ds), "first": ds[0], "more": ds[1:3]})
