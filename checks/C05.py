"""C05: formatting never changes or loses code (FmtGen inputs -> real formatter -> FmtTokens verdicts)."""
import os
import sys

sys.path.insert(0, os.path.dirname(__file__))
import _fmt  # noqa: E402
import vlib  # noqa: E402


def comment_texts(toks):
    """one string per comment: its tokens' texts joined (whitespace-insensitive)"""
    out, cur = [], None
    for t in toks:
        if t["k"] == "#Comment":
            cur = []
            out.append(cur)
        elif t.get("c") and cur is not None:
            cur.append("".join(t["t"].split()))
    return ["".join(x) for x in out]


def comment_signature(case, o, v):
    """a run stuck at a comment: which comment was dropped / duplicated / moved, and what surrounds it in the source"""
    from collections import Counter
    toks = o["in"]
    ci, co = comment_texts(toks), comment_texts(o["out"])
    heads = [n for n, t in enumerate(toks) if t["k"] == "#Comment"]
    lost = list((Counter(ci) - Counter(co)).elements())
    extra = list((Counter(co) - Counter(ci)).elements())
    pos = min(v["i"] - 1, len(toks) - 1)
    text = case["text"].encode("utf-8")

    def surroundings(idx):
        end = idx
        while end + 1 < len(toks) and toks[end + 1].get("c") and toks[end + 1]["k"] != "#Comment":
            end += 1
        before = [t for t in toks[:idx] if not t.get("c")]
        after = [t for t in toks[end + 1:] if not t.get("c")]
        stop = toks[end]["o"] + len(toks[end]["t"].encode("utf-8"))
        rest = text[stop:].split(b"\n")[0].strip()
        if (before and before[-1]["k"] == "TkSemicolon") or (after and after[0]["k"] == "TkSemicolon"):
            return 0, "next-to-semicolon"       # between a statement and its `;`, or trailing an empty statement
        if rest and not rest.startswith(b"--"):
            return 1, "inline-before-code"      # `stat --[[ c ]] stat` on one line
        return 2, "plain"

    if lost:
        what, cands = "dropped", [h for h, x in zip(heads, ci) if x in lost]
    elif extra and any(x in ci for x in extra):
        what, cands = "duplicated", [h for h, x in zip(heads, ci) if x in extra]
    else:
        what, cands = "moved", sorted(heads, key=lambda h: abs(h - pos))[:2]
    where = min(surroundings(h) for h in cands)[1] if cands else "plain"
    return "C05/comment-%s/%s" % (what, where)


def signature(case, v, prev="", o=None, prev_is_comment=False):
    """mechanism key of a rejected run (what the automaton could not explain, not where)"""
    why = v["why"]
    if why != "stuck":
        return "C05/%s" % why
    a, b, cfg = v["a"], v["b"], v["cfg"]
    code_a, code_b = not a.get("c"), not b.get("c")
    if v.get("semiHazard"):
        return "C05/semicolon-dropped-before-paren"
    if a["k"] == "#Unparsed":
        return "C05/unparsed-tail-dropped"
    if a["k"] == "#Comment" and b["k"] == "#Comment":
        # the doc sub-tree parses to another structure: key by the first node kind that differs
        x, y = a["t"], b["t"]
        n = 0
        while n < min(len(x), len(y)) and x[n] == y[n]:
            n += 1
        while n > 0 and x[n - 1] not in "()":
            n -= 1
        ka, kb = x[n:].split("(")[0].split(")")[0], y[n:].split("(")[0].split(")")[0]
        return "C05/doc-structure-changed/%s->%s" % (ka or "end", kb or "end")
    if not code_a and not code_b and a["k"] == b["k"]:
        return "C05/comment-text-changed/%s" % a["k"]
    if (not code_a or not code_b) and o is not None:
        return comment_signature(case, o, v)
    if code_a and a["k"] == "TkSemicolon" and cfg["keepSemi"]:
        return "C05/semicolon-not-preserved/after-%s" % ("comment" if prev_is_comment else prev)
    if code_b and b["k"] == "TkSemicolon" and a["k"] != "TkSemicolon":
        return "C05/semicolon-inserted-or-moved/after-%s" % prev
    if code_a and a["k"] == "TkLeftParen" and cfg["parens"] == "Omit" and b["k"] in ("TkString", "TkLongString", "TkLeftBrace"):
        return "C05/omit-parens-drops-arguments"
    return "C05/stuck/code/%s->%s" % (a["k"], b["k"])


def run(ctx):
    _fmt.selftest(ctx)
    cases = _fmt.gen_cases(ctx, n_single=ctx.pick(1500, 100000), n_sim=ctx.pick(300, 3000), max_files=ctx.pick(6, 1000))
    # dense families (spec/FmtFocus.tla): escape-sequence strings x quote_style x call-parens (all), doc blocks x emmy_doc
    # options (all), trailing-comment groups x comment options (quick: the min_spaces = 2 third)
    quick_keep = lambda c: c["src"] != "focus/comment" or c["cfg"]["comments"]["line_comment_min_spaces_before"] == 2
    cases += _fmt.focus_cases(ctx, len(cases), keep=quick_keep if ctx.quick else None)
    out = _fmt.run_formatter(ctx, cases)
    runs = []
    by_id = {c["id"]: c for c in cases}
    found = {}
    for c in cases:
        o = out[c["id"]]
        if "panic" in o:
            found.setdefault("C05/panic", []).append({"src": c["src"], "text": c["text"][:400], "cfg": c["cfg"], "panic": o["panic"]})
            continue
        # the part of the source the parser did not even tokenise (lossless-tree defect, C01) must not vanish
        in_toks, out_toks = o["in"], o["out"]
        runs.append(_fmt.fmt_run(c["id"], c["cfg"], in_toks, out_toks, o["in_err"], o["out_err"], o["out_text"] == c["text"]))
    verdict = _fmt.judge(ctx, runs, "c05")
    used_total = {}
    for r in runs:
        tg, v = verdict[r["id"]]
        c = by_id[r["id"]]
        nontrivial = len(r["in"]) >= 3 and not r["inErr"]
        ctx.count((c["text"], str(c["cfg"])), nontrivial=nontrivial)
        if tg == "ACC":
            for u in v["used"]:
                used_total[u] = used_total.get(u, 0) + 1
            continue
        o = out[c["id"]]
        a_off = o["in"][v["i"] - 1]["o"] if v["why"] == "stuck" and v["i"] <= len(o["in"]) else 0
        b_off = o["out"][v["j"] - 1]["o"] if v["why"] == "stuck" and v["j"] <= len(o["out"]) else 0
        prev = ""
        if v["why"] == "stuck":
            code = [t for t in o["in"][: v["i"] - 1] if not t.get("c")]
            prev = code[-1]["k"] if code else "start"
        pic = v["why"] == "stuck" and 2 <= v["i"] <= len(o["in"]) + 1 and bool(o["in"][v["i"] - 2].get("c"))
        found.setdefault(signature(c, v, prev, o, pic), []).append({
            "src": c["src"], "cfg": c["cfg"], "verdict": {k: v[k] for k in v if k != "id"},
            "source_near": _fmt.snippet(c["text"], a_off, 120), "output_near": _fmt.snippet(o["out_text"], b_off, 120),
            "text": c["text"] if len(c["text"]) < 600 else None})
    ctx.validated(len(runs))
    ctx.note("normalisations_exercised", used_total)
    first = lambda pre: [c for c in cases if c["src"].startswith(pre)][:1]
    for c in cases[:3] + first("std/") + first("focus/quote") + first("focus/comment") + first("focus/doc") + first("focus/semi"):
        ctx.sample({"src": c["src"], "text": c["text"][:200],
                    "cfg": c["cfg"] if c["src"].startswith("focus/") else _fmt.model_cfg(c["cfg"])})
    for sig, ds in sorted(found.items()):
        srcs = sorted({d["src"] for d in ds})
        ctx.violation(sig, {"count": len(ds), "sources": srcs[:12], "first": ds[0], "more": ds[1:3]})
    ctx.rule("a case = (program, configuration); programs: every single statement of FmtGen.tla x 4 corner configurations "
             "(sampled in quick), TLC-simulated multi-statement programs x random lattice points, bundled std files x "
             "lattice points; FmtFocus.tla families: strings with escape sequences next to quotes x quote_style x call-parens, "
             "trailing-comment groups x comment options, doc blocks x emmy_doc options, `stat;` + comments + `(`-statement "
             "(family semi), blank lines directly inside brackets / blocks (family blank); "
             "non-trivial = source without syntax errors and >= 3 tokens")
    ctx.assume("tokens are those of emmylua_parser on both sides (a token the lexer loses on both sides is invisible here; C01)")
    ctx.assume("allowed normalisations as written in spec/FmtTokens.tla; `;` <-> `,` between table fields counts as a separator normalisation")
