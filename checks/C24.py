"""C24 Every client request gets exactly one response.

1. TLC model-checks spec/LsProtocol.tla: the design with error answers satisfies ExactlyOne / AtMostOne /
   NoOrphan / NoLeak / CancelAnswer / NeverDead in every phase with an asynchronous wire; the design of
   the pinned tree (drop / silent / die) must violate ExactlyOne (the model can fail).
2. SR: TLC enumerates every behaviour of <= MaxMsgs client messages against a ready server (synchronous
   delivery, every interleaving of the task steps TaskRespond / TaskPanic / TaskRemove with the main loop);
   each behaviour is concretised for the registered request methods and replayed through the REAL dispatch
   functions under the deterministic scheduler (task held at its first lock request = "running"; injected
   panic at that point = "handler panics"; wrapper task held at its final `cancellations` lock request =
   "responded", so the main loop handles the messages the behaviour places between the answer and the
   removal of the cancellation entry, e.g. $/cancelRequest for the id just answered); responses are
   compared with the behaviour's.
3. TV: the recorded in/out stream of every replay, and of the real binary over stdio (initialize
   handshake, requests queued during initialization, shutdown/exit), is judged by
   spec/LsProtocolTrace.tla; the C24 predicate is evaluated by TLC at every quiescence point.
"""
import json
import os
import random
import sys

sys.path.insert(0, os.path.dirname(__file__))
import vlib
import _lsproto as L


def sig_of(problem, how, method):
    return "C24/%s/%s/%s" % (problem, how, method)


def judge(ctx, key, verdicts, info_by_aid, detail):
    """verdicts of one run (list of VERDICT objects) -> violations"""
    bad = 0
    for v in verdicts or []:
        for i in v["ids"]:
            meta = info_by_aid.get(i["id"], {})
            method = meta.get("method", "?")
            how = i["how"] if i["how"] != "-" else "unread"
            if i["how"] == "orphan":
                problem = "orphan-response"
            elif i["n"] == 0:
                problem = "no-response"
            elif i["n"] > 1:
                problem = "duplicate-response"
            else:
                continue
            bad += 1
            d = dict(detail)
            d.update({"request": meta, "responses": i["r"], "explanation": i["how"], "server_phase": v["phase"]})
            ctx.violation(sig_of(problem, how, method), d)
    return bad


def model_check(ctx):
    res = vlib.tlc("LsProtocol", ctx.pick("LsProtocol_q", "LsProtocol_t"), workers=ctx.pick(4, 8),
                   timeout=ctx.pick(600, 2400))
    ctx.add_tlc(res)
    if res.violated:
        raise vlib.ToolError("LsProtocol (answering design) violates %s:\n%s" % (res.violated, res.trace_text[:3000]))
    ctx.note("design_states", res.distinct)
    pin = vlib.tlc("LsProtocol", "LsProtocol_pinned", workers=2, timeout=600)
    ctx.add_tlc(pin)
    if pin.violated != "ExactlyOne":
        raise vlib.ToolError("LsProtocol with drop/silent/die semantics does not violate ExactlyOne: the model has no teeth")
    ctx.note("pinned_design", "ExactlyOne violated by the drop/silent/die design after %d states (expected)" % pin.distinct)
    # the two steps of the wrapper task (answer; lock the map and remove) are distinguished: a `cancel` that answers
    # by itself must be caught answering an id a second time between them
    ca = vlib.tlc("LsProtocol", "LsProtocol_cancelanswer", workers=2, timeout=600)
    ctx.add_tlc(ca)
    if ca.violated != "AtMostOne" or "cancel-answer-after-result" not in ca.trace_text:
        raise vlib.ToolError("LsProtocol with an answering `cancel` does not violate AtMostOne between TaskRespond and "
                             "TaskRemove: the model does not separate the answer from the removal of the entry")
    ctx.note("answering_cancel_design", "AtMostOne violated by a cancel between answer and removal after %d states (expected)"
             % ca.distinct)


def mine_holdable(ctx):
    """PM: which request handlers reach a lock request (a scheduling point) at all"""
    runs = []
    for i, (m, p) in enumerate(L.METHODS.items()):
        runs.append({"run": "mine|" + m, "sched": True,
                     "steps": [L.open_step(), {"op": "req", "id": 1, "method": m, "params": p, "hold": True},
                               {"op": "finish", "id": 1}]})
    out = L.play_inprocess(ctx, runs, tag="mine")
    holdable = []
    for r in out:
        m = r["run"].split("|", 1)[1]
        held = [e for e in r["events"] if e["ev"] == "held"]
        # held and answered only after the finish step
        if held and held[0]["ok"]:
            holdable.append(m)
    return holdable


def inprocess(ctx):
    gen = vlib.tlc("LsProtocol", ctx.pick("LsProtocol_gen_q", "LsProtocol_gen_t"), workers=ctx.pick(4, 8),
                   timeout=ctx.pick(600, 2400))
    ctx.add_tlc(gen)
    if gen.violated:
        raise vlib.ToolError("LsProtocol generation config violates %s" % gen.violated)
    behs = [b for t, b in gen.json if t == "BEH"]
    if not behs:
        raise vlib.ToolError("no behaviours generated")
    behs.sort(key=lambda b: json.dumps(b["hist"], sort_keys=True))
    vlib.build(["vh-ls"])
    holdable = mine_holdable(ctx)
    ctx.note("methods_with_scheduling_point", len(holdable))
    if len(holdable) < 10:
        raise vlib.ToolError("only %d request handlers reach a scheduling point" % len(holdable))
    allm = list(L.METHODS.keys())
    rnd = random.Random(ctx.seed)
    runs, infos, expected = [], {}, {}

    def add(beh, key, offset, pool0=None):
        def pick(j, cls):
            pool = (pool0 or holdable) if cls in ("ok", "panic") else allm
            return pool[(offset + 11 * j) % len(pool)]
        run, info = L.concretise(beh, key, pick, variant=offset)
        runs.append(run)
        infos[key] = info
        expected[key] = beh

    def shape(beh):
        msgs = [h["m"] for h in beh["hist"] if h["a"] == "ClientSend"]
        reqs = [m for m in msgs if m["k"] == "req"]
        single = (len(reqs) == 1 and reqs[0]["cls"] != "unknown"
                  and all(m["k"] == "req" or (m["k"] == "cancel" and m["id"] == 1) for m in msgs))
        # does every task finish right after its request was read (no message in between)?
        immediate = True
        hs = beh["hist"]
        for i, h in enumerate(hs):
            if h["a"] == "SrvRecv" and h["m"]["k"] == "req" and h["m"]["cls"] in ("ok", "panic"):
                nxt = hs[i + 1] if i + 1 < len(hs) else {}
                if not (nxt.get("a") in ("TaskRespond", "TaskPanic") and nxt.get("id") == h["m"]["id"]):
                    immediate = False
        return len(msgs), single, (reqs[0]["cls"] if reqs else None), immediate

    def window_cancels(beh):
        """ids cancelled between their TaskRespond/TaskPanic and their TaskRemove (read by the main loop there)"""
        open_, hit = set(), set()
        for h in beh["hist"]:
            if h["a"] in ("TaskRespond", "TaskPanic"):
                open_.add(h["id"])
            elif h["a"] == "TaskRemove":
                open_.discard(h["id"])
            elif h["a"] == "SrvRecv" and h["m"]["k"] == "cancel" and h["m"]["id"] in open_:
                hit.add(h["m"]["id"])
        return hit

    long_ones = []
    window_long = []
    for bi, beh in enumerate(behs):
        nmsgs, single, cls, immediate = shape(beh)
        if single and nmsgs <= ctx.pick(2, 3):
            # every registered method goes through every single-request (+ cancel of it) behaviour; a
            # handler without a scheduling point can only play the behaviours in which it finishes at once
            pool = allm if cls not in ("ok", "panic") or (cls == "ok" and immediate) else holdable
            for k in range(len(pool)):
                add(beh, "b%d.%d" % (bi, k), k, pool0=pool)
        elif nmsgs <= 2:
            add(beh, "b%d" % bi, rnd.randrange(1000))
        elif window_cancels(beh):
            window_long.append((bi, beh))
        else:
            long_ones.append((bi, beh))
    # the longer behaviours are sampled; those with a cancel between answer and removal get their own quota
    limit = ctx.pick(300, 5000)
    if len(long_ones) > limit:
        long_ones = rnd.sample(long_ones, limit)
    wlimit = ctx.pick(150, 3000)
    if len(window_long) > wlimit:
        window_long = rnd.sample(window_long, wlimit)
    ctx.note("sampled_long_behaviours", len(long_ones) + len(window_long))
    for bi, beh in sorted(long_ones + window_long, key=lambda x: x[0]):
        add(beh, "b%d" % bi, rnd.randrange(1000))
    out = L.play_inprocess(ctx, runs, tag="beh")
    if len(out) != len(runs):
        raise vlib.ToolError("vh_lsproto played %d of %d runs" % (len(out), len(runs)))
    traces = []
    aid_info = {}
    for r in out:
        key = r["run"]
        info = infos[key]
        log, idmap, nids = L.abstract_run(r["events"], info)
        traces.append({"key": key, "log": log, "nids": nids})
        aid_info[key] = {a: dict(info.get(c, {}), id=c) for c, a in idmap.items()}
    verdicts = L.validate_traces(ctx, traces, tag="inproc")
    methods_seen = set()
    window_runs, window_methods = 0, set()
    for r, run in zip(out, runs):
        key = r["run"]
        info = infos[key]
        beh = expected[key]
        # was the interleaving "cancel of id between its answer and the removal of its entry" really driven:
        # the wrapper task of id observed parked at cancellations.M while the cancel was delivered
        wc = window_cancels(beh)
        if wc:
            parked_ok = {e["id"] for e in r["events"] if e["ev"] == "held_remove" and e["ok"]}
            if wc <= parked_ok:
                window_runs += 1
                window_methods.update(info[i]["method"] for i in wc)
            else:
                ctx.divergence({"what": "wrapper task was not parked at the cancellation map after its answer", "run": key,
                                "ids": sorted(wc - parked_ok)})
        # SR: responses per id as the behaviour says
        real = {}
        for e in r["events"]:
            if e["ev"] == "ssend" and e["kind"] == "resp":
                real.setdefault(e["id"], []).append(L.resp_kind(e))
        panics = [e["msg"] for e in r["events"] if e["ev"] == "panic"]
        nontrivial = len([s for s in run["steps"] if s["op"] not in ("finish", "respond", "remove")]) >= 3
        classes = tuple((h["a"], h.get("m", {}).get("k"), h.get("m", {}).get("cls"), h.get("m", {}).get("id"), h.get("id"))
                        for h in beh["hist"])
        ctx.count((classes, tuple(sorted(i["method"] for i in info.values()))), nontrivial=nontrivial)
        for i in info.values():
            methods_seen.add(i["method"])
        detail = {"run": run, "observed_responses": real, "expected_responses": beh["resp"], "panics": panics[:3]}
        nbad = judge(ctx, key, verdicts.get(key), aid_info[key], detail)
        if verdicts.get(key) is not None:
            ctx.validated(1)
        if nbad == 0:
            for rid, meta in info.items():
                exp = beh["resp"][rid - 1]
                if real.get(rid, []) != exp:
                    ctx.divergence({"what": "response differs from the behaviour's (property holds)", "run": key,
                                    "id": rid, "method": meta["method"], "expected": exp, "observed": real.get(rid, [])})
        unheld = [e for e in r["events"] if e["ev"] == "held" and not e["ok"]
                  and info.get(e["id"], {}).get("method") in holdable]
        if unheld:
            ctx.divergence({"what": "request task did not reach a scheduling point", "run": key})
        if len(ctx.cov["samples"]) < 4 and nontrivial and key.endswith("7"):
            ctx.sample({"behaviour": [dict(h) for h in beh["hist"][1:]], "methods": {k: v["method"] for k, v in info.items()},
                        "responses": real})
    ctx.note("behaviours", len(behs))
    ctx.note("runs_with_cancel_between_answer_and_removal", window_runs)
    ctx.note("methods_cancelled_between_answer_and_removal", len(window_methods))
    if window_runs == 0 or len(window_methods) < 38:
        raise vlib.ToolError("the cancel-between-answer-and-removal interleaving was driven for %d runs / %d of 38 methods"
                             % (window_runs, len(window_methods)))
    ctx.note("inprocess_runs", len(runs))
    ctx.note("methods_exercised", len(methods_seen - {L.UNKNOWN_METHOD}))
    if len(methods_seen - {L.UNKNOWN_METHOD}) < 38:
        raise vlib.ToolError("only %d of 38 registered methods were exercised" % len(methods_seen))


# ------------------------------------------------------------------------------------------------
# black box
# ------------------------------------------------------------------------------------------------
def init_params(root, good=True):
    p = {"processId": None, "rootUri": "file://" + root, "capabilities": {"workspace": {"configuration": False}},
         "workspaceFolders": [{"uri": "file://" + root, "name": "ws"}]}
    if not good:
        p["capabilities"] = {"workspace": 17}
    return p


def blackbox(ctx):
    binary = L.build_server_binary()
    root = os.path.join(ctx.work, "bbws")
    os.makedirs(root, exist_ok=True)
    with open(os.path.join(root, "a.lua"), "w") as f:
        f.write(L.DOC)
    uri = "file://" + root + "/a.lua"
    tbl = L.method_table(uri=uri)
    names = list(tbl.keys())
    rnd = random.Random(ctx.seed)
    did_open = {"method": "textDocument/didOpen",
                "params": {"textDocument": {"uri": uri, "languageId": "lua", "version": 1, "text": L.DOC}}}

    def script_handshake(s, info):
        """bad initialize, request before initialize, then the normal life cycle"""
        info[1] = {"kind": "req", "cls": "valid", "method": "textDocument/hover(before initialize)"}
        s.send({"id": 1, "method": "textDocument/hover", "params": tbl["textDocument/hover"]})
        s.pump([1], idle=0.3)
        info[2] = {"kind": "initialize", "cls": "bad", "method": "initialize"}
        s.send({"id": 2, "method": "initialize", "params": init_params(root, good=False)})
        if s.pump([2], idle=0.3, maximum=20) == "eof":
            return
        info[3] = {"kind": "initialize", "cls": "ok", "method": "initialize"}
        s.send({"id": 3, "method": "initialize", "params": init_params(root)})
        if s.pump([3], idle=0.2) == "eof":
            return
        s.send({"method": "initialized", "params": {}})
        s.send(did_open)
        info[4] = {"kind": "req", "cls": "valid", "method": "textDocument/hover"}
        s.send({"id": 4, "method": "textDocument/hover", "params": tbl["textDocument/hover"]})
        s.pump([4], idle=0.5)
        info[5] = {"kind": "shutdown", "cls": "-", "method": "shutdown"}
        s.send({"id": 5, "method": "shutdown"})
        s.pump([5], idle=0.2)
        s.send({"method": "exit"})

    def script_queued(s, info):
        """a burst written right behind `initialized`: queued while the init task runs"""
        info[1] = {"kind": "initialize", "cls": "ok", "method": "initialize"}
        s.send({"id": 1, "method": "initialize", "params": init_params(root)})
        if s.pump([1], idle=0.0) == "eof":
            return
        s.send({"method": "initialized", "params": {}})
        s.send(did_open)
        ids = []
        rid = 1
        picks = rnd.sample(names, ctx.pick(6, 14))
        for j, m in enumerate(picks):
            rid += 1
            cls = ["valid", "bad", "missing", "valid"][j % 4]
            info[rid] = {"kind": "req", "cls": cls, "method": m}
            msg = {"id": rid, "method": m}
            if cls == "valid":
                msg["params"] = tbl[m]
            elif cls == "bad":
                msg["params"] = 42
            s.send(msg)
            ids.append(rid)
            if j % 3 == 1:
                s.send({"method": "$/cancelRequest", "params": {"id": rid}})
        rid += 1
        info[rid] = {"kind": "req", "cls": "unknown", "method": L.UNKNOWN_METHOD}
        s.send({"id": rid, "method": L.UNKNOWN_METHOD, "params": {}})
        ids.append(rid)
        s.pump(ids, idle=1.0, maximum=90)
        rid += 1
        info[rid] = {"kind": "shutdown", "cls": "-", "method": "shutdown"}
        s.send({"id": rid, "method": "shutdown"})
        s.pump([rid], idle=0.2)
        s.send({"method": "exit"})

    def script_after_shutdown(s, info):
        """a request between shutdown and exit"""
        info[1] = {"kind": "initialize", "cls": "ok", "method": "initialize"}
        s.send({"id": 1, "method": "initialize", "params": init_params(root)})
        if s.pump([1], idle=0.0) == "eof":
            return
        s.send({"method": "initialized", "params": {}})
        info[2] = {"kind": "req", "cls": "valid", "method": "workspace/symbol"}
        s.send({"id": 2, "method": "workspace/symbol", "params": tbl["workspace/symbol"]})
        s.pump([2], idle=0.5, maximum=90)
        info[3] = {"kind": "shutdown", "cls": "-", "method": "shutdown"}
        s.send({"id": 3, "method": "shutdown"})
        s.pump([3], idle=0.2)
        info[4] = {"kind": "req", "cls": "valid", "method": "textDocument/hover(after shutdown)"}
        s.send({"id": 4, "method": "textDocument/hover", "params": tbl["textDocument/hover"]})
        s.pump([4], idle=0.2, maximum=10)
        s.send({"method": "exit"})

    scripts = [("handshake", script_handshake), ("queued-during-init", script_queued),
               ("after-shutdown", script_after_shutdown)]
    traces, keep = [], {}
    for name, fn in scripts:
        s = L.StdioServer(binary, root)
        info = {}
        try:
            fn(s, info)
            rc = s.wait_exit(timeout=60)
            if rc is None:
                # never conclude from a timeout: keep the observation, do not judge the run
                ctx.divergence({"what": "server process did not exit within 60 s after the script", "script": name})
                s.kill()
                continue
        finally:
            s.kill()
        events = s.events + [{"ev": "quiesce"}]
        log, idmap, nids = L.abstract_run(events, info, phase="pre")
        traces.append({"key": "bb|" + name, "log": log, "nids": nids})
        keep["bb|" + name] = (info, idmap, s, rc)
    verdicts = L.validate_traces(ctx, traces, tag="stdio")
    for key, (info, idmap, s, rc) in keep.items():
        aid = {a: dict(info.get(c, {}), id=c) for c, a in idmap.items()}
        stderr = "".join(s.stderr)[-1500:]
        detail = {"transport": "stdio, real emmylua_ls binary", "script": key, "exit_code": rc, "stderr_tail": stderr,
                  "stream": [e for e in s.events if e["ev"] != "ssend" or e["kind"] == "resp"][:60]}
        for e in detail["stream"]:
            e.pop("result", None)
        v = verdicts.get(key)
        if v is None:
            continue
        ctx.validated(1)
        ctx.count(("bb", key), nontrivial=True)
        # a missing response only counts when the process is observably gone (exit status), never
        # because of elapsed time: every script ends with the process exit
        judge(ctx, key, v, aid, detail)
    ctx.note("stdio_scripts", len(traces))


def shutdown_phase(ctx):
    """SR + TV of the shutdown phase on the real AsyncConnection::handle_shutdown (in-process, untimed)"""
    gen = vlib.tlc("LsProtocol", "LsProtocol_shut", workers=ctx.pick(4, 8), timeout=ctx.pick(600, 2400))
    ctx.add_tlc(gen)
    if gen.violated:
        raise vlib.ToolError("LsProtocol_shut violates %s" % gen.violated)
    cases, infos, expected = [], {}, {}
    seen = set()
    for t, b in gen.json:
        if t != "BEH":
            continue
        msgs = [h["m"] for h in b["hist"] if h["a"] == "ClientSend"]
        if not msgs or msgs[-1]["k"] != "exit":
            continue
        if any(m["k"] == "req" and m["cls"] != "ok" for m in msgs):
            continue
        after = [{"k": m["k"], "id": m["id"]} for m in msgs]
        key = json.dumps(after)
        if key in seen:
            continue
        seen.add(key)
        name = "sd%d" % len(cases)
        cases.append({"run": name, "after": after})
        info = {}
        for m in msgs:
            if m["k"] == "req":
                info[m["id"]] = {"kind": "req", "cls": "valid", "method": "textDocument/hover(after shutdown)"}
        infos[name] = info
        expected[name] = b
    if not cases:
        raise vlib.ToolError("no shutdown behaviours generated")
    path = os.path.join(ctx.work, "shutdown.ndjson")
    with open(path, "w") as f:
        for c in cases:
            f.write(json.dumps(c) + "\n")
    p = vlib.run_bin("vh_lsshutdown", [path], timeout=600)
    out = L.split_runs(vlib.ndjson(p.stdout))
    if len(out) != len(cases):
        raise vlib.ToolError("vh_lsshutdown played %d of %d cases" % (len(out), len(cases)))
    traces, aid = [], {}
    for r in out:
        # the shutdown request itself (id 1000) is the model's initial phase "shutdown": it must have been answered
        sd = [e for e in r["events"] if e.get("id") == 1000 and e["ev"] == "ssend"]
        if len(sd) != 1 or not sd[0]["ok"]:
            ctx.violation("C24/shutdown-not-answered", {"run": r["run"], "events": r["events"]})
        r["events"] = [e for e in r["events"] if e.get("id") != 1000]
        log, idmap, nids = L.abstract_run(r["events"], infos[r["run"]], phase="shutdown")
        traces.append({"key": r["run"], "log": log, "nids": max(nids, 1)})
        aid[r["run"]] = {a: dict(infos[r["run"]].get(c, {}), id=c) for c, a in idmap.items()}
    verdicts = L.validate_traces(ctx, traces, tag="shutdown")
    for r, c in zip(out, cases):
        key = r["run"]
        v = verdicts.get(key)
        if v is None:
            continue
        ctx.validated(1)
        ctx.count(("shutdown", json.dumps(c["after"])), nontrivial=len(c["after"]) >= 2)
        real = {}
        for e in r["events"]:
            if e["ev"] == "ssend":
                real.setdefault(e["id"], []).append(L.resp_kind(e))
        ex = [e for e in r["events"] if e["ev"] == "exit"]
        detail = {"transport": "in-process AsyncConnection::handle_shutdown over Connection::memory()",
                  "messages_after_shutdown": c["after"], "observed_responses": real,
                  "handle_shutdown_returned": ex[0] if ex else None}
        nbad = judge(ctx, key, v, aid[key], detail)
        if nbad == 0:
            for rid in infos[key]:
                exp = expected[key]["resp"][rid - 1]
                if real.get(rid, []) != exp:
                    ctx.divergence({"what": "response differs from the behaviour's (property holds)", "run": key,
                                    "id": rid, "expected": exp, "observed": real.get(rid, [])})
    ctx.note("shutdown_scripts", len(cases))


def run(ctx):
    model_check(ctx)
    inprocess(ctx)
    shutdown_phase(ctx)
    if os.environ.get("VERIF_SKIP_STDIO") == "1":
        # developer switch (mutation experiments in a scratch copy): skips building/running the real binary
        ctx.note("stdio", "skipped by VERIF_SKIP_STDIO")
    else:
        blackbox(ctx)
    ctx.rule("distinct (TLC behaviour, concrete methods) pairs replayed through the real dispatch under the deterministic "
             "scheduler + stdio scripts; non-trivial = at least 2 client messages besides didOpen")
    ctx.assume("the in-process session (harness/vh-ls) feeds the real on_request_handler/on_notification_handler one "
               "message at a time like LspServer::run; the initialize handshake, the init queue and shutdown are only "
               "executed by the stdio scripts")
    ctx.assume("client scripts are legal LSP: fresh request ids, `initialized` right after the initialize answer, "
               "nothing after `exit`")
