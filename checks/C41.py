import os, sys
sys.path.insert(0, os.path.dirname(__file__))
import _minilua


def run(ctx):
    _minilua.run(ctx, "C41")
