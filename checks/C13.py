"""C13: names resolve per Lua scoping. Scope.tla programs (+ expected use->declaration maps from the
reference resolver) replayed into the real declaration analysis / SemanticModel::find_decl."""
import os
import random
import sys

sys.path.insert(0, os.path.dirname(__file__))
import _scope  # noqa: E402
import vlib  # noqa: E402


def jobs_for(ctx):
    if ctx.quick:
        return [("Scope_q", dict(workers=4, timeout=900)),
                ("Scope_q1", dict(workers=4, timeout=900)),
                ("Scope_qs", dict(workers=1, timeout=900, simulate="num=24", depth=9, seed=ctx.seed))]
    return [("Scope_t", dict(workers=6, timeout=1800)),
            ("Scope_t1", dict(workers=6, timeout=1800)),
            ("Scope_t2", dict(workers=6, timeout=1800)),
            ("Scope_t3", dict(workers=8, timeout=2400)),
            ("Scope_ts", dict(workers=1, timeout=2400, simulate="num=300", depth=9, seed=ctx.seed))]


def replay(ctx):
    """Re-run one recorded violation: the program, the use and the expected declaration are in the file."""
    import json
    rec = json.load(open(ctx.replay))
    d = rec["detail"]["first"]
    vlib.build(["vh-analysis"])
    path = os.path.join(ctx.work, "replay.ndjson")
    _scope.write_ndjson(path, [{"id": 0, "text": d["program"], "uses": [d["use_offset"]]}])
    out = vlib.ndjson(vlib.run_bin("vh_scope", [path], timeout=120).stdout)
    got = out[0]["got"][0] if "got" in out[0] else out[0]
    norm = -1 if got in (-1, -2) else got
    ctx.count(d["program"])
    if norm != d["expected_decl_offset"]:
        ctx.violation(rec["signature"], {"count": 1, "first": dict(d, observed_decl_offset=got), "more": []})


def run(ctx):
    if ctx.replay:
        return replay(ctx)
    cases, info = _scope.generate(ctx, jobs_for(ctx))
    ctx.note("mined_constants", info["mined_constants"])
    ctx.note("tlc_agree_violations", len(info["agree_violations"]))
    if info["agree_violations"]:
        ctx.note("tlc_agree_counterexample", info["agree_violations"][0])
    if os.environ.get("VERIF_SELFTEST") == "corrupt-expected":
        # binding self-test: falsify one expected value; the run must end with a VIOLATION
        c = next(c for c in cases if any(v != 0 for v in c["ref"].values()))
        u = next(u for u, v in sorted(c["ref"].items()) if v != 0)
        c["ref"][u] = 0
    rows, meta = [], []
    for i, c in enumerate(cases):
        text, off = _scope.concretise(c["items"])
        uses = sorted(c["ref"])
        rows.append({"id": i, "text": text, "uses": [off[u] for u in uses]})
        meta.append((text, off, uses))
    path = os.path.join(ctx.work, "cases.ndjson")
    _scope.write_ndjson(path, rows)
    out = vlib.ndjson(vlib.run_bin("vh_scope", [path], timeout=ctx.pick(600, 3000)).stdout)
    summary = [o["summary"] for o in out if "summary" in o]
    if not summary or summary[0]["cases"] != len(cases):
        raise vlib.ToolError("vh_scope: missing or short summary")
    viol, div, kf_seen, panics = {}, {}, 0, []
    for o in out:
        if "id" not in o:
            continue
        c = cases[o["id"]]
        text, off, uses = meta[o["id"]]
        if "panic" in o:
            panics.append({"text": text, "panic": o["panic"]})
            continue
        inv = {v: k for k, v in off.items()}
        nontrivial = False
        for u, g in zip(uses, o["got"]):
            got = inv.get(g, -9) if g >= 0 else (0 if g in (-1, -2) else g)
            want = c["ref"][u]
            if want != 0 or got != 0:
                nontrivial = True
            if got != want:
                sig = _scope.signature("C13", c["items"], u, want, got)
                viol.setdefault(sig, []).append({"program": text, "use_offset": off[u], "expected_decl_offset":
                                                 off.get(want, -1), "observed_decl_offset": g,
                                                 "spec_waiver_KF_HeaderClosure": u in c["kf"]})
                if u in c["kf"]:
                    kf_seen += 1
            if got != c["tr"][u]:
                key = _scope.signature("tr", c["items"], u, c["tr"][u], got)
                div.setdefault(key, []).append(text)
        ctx.count(text, n=len(uses), nontrivial=nontrivial)
    ctx.validated(len(cases) - len(panics))
    ctx.note("programs", len(cases))
    ctx.note("exhaustive_part", "all programs of <= 2 generated items over {a,b} with closures; all of 3 items over {a} "
             "without closures" + ("" if ctx.quick else "; all of 3 items over {a} with closures; all of 4 items over {a} "
             "without closures (every 2nd replayed); all of 3 items over {a,b} with closures (Agree on all, every 16th replayed)"))
    ctx.rule("distinct programs (by text) emitted by TLC from Scope.tla and replayed; every name use of each is judged "
             "against Reference(prog); non-trivial = at least one use that resolves (or is expected to resolve) to a local")
    ctx.assume("Lua 5.4 manual 3.3.7/3.5 scoping as transcribed in Scope!RefWalk; find_decl queried with SemanticDeclLevel::NoTrace")
    rnd = random.Random(ctx.seed)
    for c in rnd.sample(cases, min(4, len(cases))):
        text, off, uses = _scope.concretise(c["items"])[0], None, None
        ctx.sample({"program": text, "expected(use->decl, abstract positions)": sorted(c["ref"].items())})
    for key, texts in sorted(div.items()):
        ctx.divergence("transcription (with mined constants) does not explain the code: %s, %d uses, e.g. %r" %
                       (key, len(texts), texts[0]))
    for p in panics[:5]:
        ctx.violation("C12/panic/decl-analysis", p)
    for sig, fs in sorted(viol.items()):
        ctx.violation(sig, {"count": len(fs), "first": fs[0], "more": fs[1:3]})
