"""C11: AnalysisDb.tla with Batch = TRUE (the initial batch is analysed in EVERY order, TLC checks confluence);
each workspace is then analysed through the real batch API (update_files_by_uri) in several FRESH PROCESSES
(fresh hash seeds) and the full dumps are compared with each other and with the model."""
import concurrent.futures
import json
import os
import random
import sys

sys.path.insert(0, os.path.dirname(__file__))
import _analysisdb as adb
import vlib


def flat(prefix, v, out):
    if isinstance(v, dict):
        for k, x in v.items():
            flat(prefix + "/" + k, x, out)
    else:
        out[prefix] = json.dumps(v, sort_keys=True)


def IsCy(content):
    return content.startswith("Cy")


def run(ctx):
    # q / t: conflict-heavy acyclic alphabet (3 files); q2 / t2: require cycles of 2 and 3 files (plus files that
    # require a cycle member) whose members contribute to the same class table / global / class field; a fourth
    # file declares the class table
    # q3 / t3 (second seeded round): workspaces with THREE roots (library /liba, library /libb, main /ws; the layout
    # is part of the spec: DirOf / LibDirs / RootOrder) where a library requires the inferred export of the other
    # library (in either direction) and publishes it as a global that main reads
    cfgs = ctx.pick(["AnalysisDb_c11_q", "AnalysisDb_c11_q2", "AnalysisDb_c11_q3"],
                    ["AnalysisDb_c11_t", "AnalysisDb_c11_t2", "AnalysisDb_c11_t3"])
    if os.environ.get("ADB_ONLY"):      # development aid: restrict to the named configurations
        cfgs = os.environ["ADB_ONLY"].split(",")
    results = adb.run_tlc_many(ctx, cfgs, workers_each=ctx.pick(2, 4), timeout=ctx.pick(900, 2400))
    texts = None
    by_ws = {}
    generated = 0
    for cfg, res in results:
        ctx.add_tlc(res)
        generated += res.generated
        if res.violated:
            # a workspace that is NOT order sensitive by the spec's own predicate gives different results in two orders
            ctx.violation("C11/model/%s" % res.violated, {"cfg": cfg, "trace": res.trace_text[:6000]})
            return
        for tag, payload in res.json:
            if tag == "TEXTS":
                texts = payload
            elif tag == "S":
                init = payload["h"][0]["init"]
                key = json.dumps(init, sort_keys=True)
                by_ws.setdefault(key, []).append(payload)
    if not by_ws or texts is None:
        raise vlib.ToolError("AnalysisDb/%s printed nothing" % cfgs)
    # the spec's structural predicate OrderSensitive must be EXACT: the outcomes over all batch orders differ
    # exactly in the workspaces it names (Confluent, checked by TLC, is one direction; this is the other)
    for key, recs in by_ws.items():
        multi = len({json.dumps(r["step"]["obs"], sort_keys=True) for r in recs}) > 1
        if multi != recs[0]["step"]["order_sensitive"]:
            raise vlib.ToolError("AnalysisDb: OrderSensitive is %s but the batch orders give %s outcome(s) for %s"
                                 % (recs[0]["step"]["order_sensitive"], "several" if multi else "one", key))
    vlib.build(["vh-analysis"])
    keys = sorted(by_ws)
    cases = []
    lib_cases = 0
    for i, key in enumerate(keys):
        init = json.loads(key)
        reg = sorted(p for p, v in init.items() if v != "-")
        dirs = by_ws[key][0]["step"].get("dirs") or {}
        libs = by_ws[key][0]["step"].get("libs") or []
        step = {"op": "batch", "files": [[adb.path_of(p, dirs), texts[init[p]]] for p in reg]}
        # the model's result for the file-id order (what a batch that sorts by file id must give)
        ideal = [r for r in by_ws[key] if r["step"]["dev"] == []]
        if ideal:
            step["model"] = adb.model_of(ideal[0]["step"])
        case = {"id": i, "requires": ["a", "b", "c", "d"], "steps": [step]}
        if libs:
            # main first, then the libraries in the spec's order (their workspace ids ascend in this order)
            case["roots"] = [{"path": "/ws", "kind": "main"}] + [{"path": d, "kind": "lib"} for d in libs]
            lib_cases += 1
        cases.append(case)
    path = os.path.join(ctx.work, "cases.ndjson")
    with open(path, "w") as f:
        for c in cases:
            f.write(json.dumps(c) + "\n")
    nproc = ctx.pick(8, 32)

    def one(k):
        p = vlib.run_bin("vh_analysisdb", [path, "dump"], timeout=ctx.pick(900, 3000))
        out = vlib.ndjson(p.stdout)
        if len(out) != len(cases):
            raise vlib.ToolError("vh_analysisdb (process %d) answered %d of %d cases" % (k, len(out), len(cases)))
        return out
    with concurrent.futures.ThreadPoolExecutor(max_workers=4) as ex:
        runs = list(ex.map(one, range(nproc)))
    found = {}
    sensitive_model = 0
    cyc_sensitive = 0
    mism = 0
    for i, key in enumerate(keys):
        recs = by_ws[key]
        init = json.loads(key)
        name = "batch{%s}" % ",".join("%s=%s" % (p, v) for p, v in sorted(init.items()) if v != "-")
        outcomes = {json.dumps(r["step"]["obs"], sort_keys=True) for r in recs}
        if len(outcomes) > 1 or recs[0]["step"]["order_sensitive"]:
            sensitive_model += 1
        flats = []
        panics = []
        for run_ in runs:
            s = run_[i]["steps"][0] if run_[i].get("steps") else {}
            if "panic" in s or "harness_panic" in run_[i]:
                panics.append(s.get("panic") or run_[i].get("harness_panic"))
                continue
            o = {}
            flat("", s["dump"], o)
            flats.append(o)
        if panics:
            found.setdefault("C11/panic", []).append({"workspace": name, "observed": panics[:2], "case": cases[i]})
            continue
        allkeys = set().union(*[set(f) for f in flats])
        for k in sorted(allkeys):
            vals = {f.get(k) for f in flats}
            if len(vals) > 1:
                sig = "C11/differs-between-processes/" + adb.gen_path(k)
                found.setdefault(sig, []).append({"workspace": name, "observed": {k: sorted(map(str, vals))[:4]},
                                                  "model_says_order_sensitive": len(outcomes) > 1, "case": cases[i]})
        # conformance with the model: the result of the file-id order (what a sorted batch must give); compared by
        # the harness (model_diff: descriptions, type locations, globals, members incl. the kept `Tab.x`, generic
        # parameters, operators, module resolution, sizes)
        bad = runs[0][i]["steps"][0].get("model") or []
        if bad:
            mism += 1
            ctx.divergence({"workspace": name, "model_vs_real": bad[:4]})
        if recs[0]["step"]["order_sensitive"] and any(IsCy(v) for v in init.values()):
            cyc_sensitive += 1
        ctx.count(name, n=nproc, nontrivial=sum(1 for v in init.values() if v != "-") >= 2)
    ctx.validated(len(cases) * nproc)
    ctx.note("workspaces", len(cases))
    ctx.note("workspaces_with_two_library_roots", lib_cases)
    ctx.note("fresh_processes_per_workspace", nproc)
    ctx.note("analysis_orders_explored_by_tlc", generated)
    ctx.note("workspaces_where_the_order_of_cycle_members_decides_in_the_model", cyc_sensitive)
    ctx.note("workspaces_order_sensitive_in_the_model", sensitive_model)
    ctx.note("model_vs_real_mismatching_workspaces", mism)
    ctx.cov["exhaustive"] = True
    ctx.rule("every workspace of <= 3 files over the cfg's content alphabet, and every workspace of 2- and 3-file require "
             "cycles (+ a file requiring a cycle member, + the file declaring the class table) whose members assign the same "
             "field / global / class field; TLC analyses the batch in every order "
             "(Confluent is a TLC invariant); each workspace goes through EmmyLuaAnalysis::update_files_by_uri in "
             "%d fresh processes, full dumps compared key by key; evaluations = workspace x process; non-trivial = "
             ">= 2 files" % nproc)
    rnd = random.Random(ctx.seed)
    for key in rnd.sample(keys, min(5, len(keys))):
        ctx.sample({"workspace": json.loads(key), "model_outcomes_over_all_orders": len({json.dumps(r["step"]["obs"], sort_keys=True) for r in by_ws[key]})})
    ctx.assume("hash seeds are the only source of run-to-run variation exercised (std RandomState / hashbrown seeds differ "
               "per process); thread timing is not exercised: the analysis of a batch is single threaded")
    for sig, ds in sorted(found.items()):
        ctx.violation(sig, {"count": len(ds), "first": ds[0], "more": [{k: d[k] for k in d if k != "case"} for d in ds[1:4]]})
