"""Shared driver for C15 / C41: MiniLua.tla programs judged against the real analyzer's flow narrowing.

Four passes (DESIGN §6 C15/C41):
  (i)   TLC, BuildSpec: derive programs (random derivations by seed; thorough adds a bounded-exhaustive core);
  (ii)  vh_minilua analyze: the real analyzer's inferred type of the probed variable at every probe, as a set of
        Lua type names ([] = never / unreachable), and whether a use there gets a `need-check-nil` diagnostic;
  (iii) TLC, RunSpec: loads programs + claims (IOEnv.CASES), explores every execution of every program
        (opaque() returns any value, loops any trip count <= MaxIter) and evaluates `Sound` at every probe state;
        every counterexample is printed with the execution that leads to it and its mechanism class;
  (iv)  vh_minilua exec: every counterexample execution and every representative terminated execution is re-run
        in the real Lua VM (luars) with opaque()/count()/items() stubbed to the chosen values; the VM's probe log
        must equal the model's (this validates the semantics module and confirms each violation on a real VM).
Python only transports cases between the tools, de-duplicates and groups by the keys TLC printed.
"""
import concurrent.futures
import json
import os
import random

import vlib

BUILD_CFGS = {
    # property -> tier -> list of (cfg, simulate traces or None for exhaustive BFS)
    "C15": {"quick": [("MiniLua_bxq", None), ("MiniLua_bq", 600), ("MiniLua_bqa", 400)],
            "thorough": [("MiniLua_bx", None), ("MiniLua_bq", 6000), ("MiniLua_bqa", 4000)]},
    "C41": {"quick": [("MiniLua_bxlq", None), ("MiniLua_bql", 1000)],
            "thorough": [("MiniLua_bxl", None), ("MiniLua_bql", 10000)]},
}


def build_programs(ctx, prop):
    jobs = BUILD_CFGS[prop][ctx.tier]

    def one(k, cfg, num):
        md = os.path.join(vlib.VERIF, ".tlc", "MiniLua_%s_%s_%d_%d" % (prop, cfg, os.getpid(), k))
        if num is None:
            return vlib.tlc("MiniLua", cfg, workers=ctx.pick(2, 4), timeout=ctx.pick(600, 3000), metadir=md)
        return vlib.tlc("MiniLua", cfg, workers=1, simulate="num=%d" % num, depth=80,
                        seed=ctx.seed * 100 + k, timeout=ctx.pick(600, 3000), metadir=md)

    with concurrent.futures.ThreadPoolExecutor(max_workers=3) as ex:
        futs = [ex.submit(one, k, cfg, num) for k, (cfg, num) in enumerate(jobs)]
        results = [f.result() for f in futs]
    progs, seen = [], set()
    for (cfg, num), res in zip(jobs, results):
        ctx.add_tlc(res)
        if res.violated:
            raise vlib.ToolError("MiniLua build phase %s: %s\n%s" % (cfg, res.violated, res.trace_text[:2000]))
        got = [c for tag, c in res.json if tag == "PROG"]
        if not got:
            raise vlib.ToolError("MiniLua build phase %s printed no program\n%s" % (cfg, res.out[-2000:]))
        if num is None:
            ctx.cov["exhaustive_core"] = ctx.cov.get("exhaustive_core", 0) + len(got)
        for p in got:
            key = json.dumps(p, sort_keys=True)
            if key not in seen:
                seen.add(key)
                progs.append(p)
    return progs


def has_loop(p):
    return any(i["op"] in ("while", "repeat", "fornum", "forin") for i in p)


def has_branch(p):
    return any(i["op"] in ("if", "while", "until") and i["c"]["sh"] != "T" for i in p)


def narrow_key(prog, v):
    """Condition forms that mention v, for the signature of a violation no waiver predicate covers."""
    ks = set()
    for ins in prog:
        c = ins.get("c") or {}
        for l in c.get("l", []):
            if l["v"] == v:
                ks.add(("not-" if l["neg"] else "") + l["k"])
        if c.get("l") and c.get("sh") in ("AND", "OR") and any(l["v"] == v for l in c["l"]):
            ks.add(c["sh"].lower())
        if c.get("l") and c.get("n") and any(l["v"] == v for l in c["l"]):
            ks.add("outer-not")
    src = {ins["e"] if ins["e"].startswith("opaque") else "lit" for ins in prog
           if ins["op"] in ("local", "assign") and ins["v"] == v}
    return ",".join(sorted(ks)) + "/" + ",".join(sorted(src))


def run(ctx, prop):
    progs = build_programs(ctx, prop)
    cases = [{"id": i + 1, "prog": p} for i, p in enumerate(progs)]
    vlib.build(["vh-analysis"])

    # ---- pass (ii): claims of the real analyzer
    cin = os.path.join(ctx.work, "programs.ndjson")
    with open(cin, "w") as f:
        for c in cases:
            f.write(json.dumps(c) + "\n")
    p = vlib.run_bin("vh_minilua", ["analyze", cin], timeout=ctx.pick(600, 3000))
    out = vlib.ndjson(p.stdout)
    if not any("summary" in o for o in out):
        raise vlib.ToolError("vh_minilua analyze produced no summary\n" + p.stderr[-2000:])
    ana = {o["id"]: o for o in out if "id" in o}
    if len(ana) != len(cases):
        raise vlib.ToolError("vh_minilua analyze: %d results for %d programs" % (len(ana), len(cases)))
    cpath = os.path.join(ctx.work, "cases.ndjson")
    n_claims = n_noclaim = n_unreach = n_nildiag = 0
    with open(cpath, "w") as f:
        for c in cases:
            a = ana[c["id"]]
            if "panic" in a:
                ctx.divergence("analyzer panicked (crash-freedom is C12's subject) on:\n%s\n%s" % (a["text"], a["panic"]))
            if a.get("syntax_errors"):
                ctx.divergence("analyzer reports a syntax error for a generated program:\n%s" % a["text"])
            pm = {q["i"]: q for q in a.get("probes", [])}
            claims = []
            for j, ins in enumerate(c["prog"]):
                q = pm.get(j + 1)
                nil = bool(q and "need-check-nil" in q.get("diag", []))
                if q is None or q["ty"] is None:
                    claims.append({"has": False, "ty": [], "hasfine": False, "fine": [], "nildiag": nil})
                    n_noclaim += 1 if ins["op"] == "probe" else 0
                else:
                    claims.append({"has": True, "ty": q["ty"], "hasfine": True, "fine": q["fine"], "nildiag": nil})
                    n_claims += 1
                    n_unreach += 0 if q["ty"] else 1
                n_nildiag += 1 if nil else 0
            f.write(json.dumps({"id": c["id"], "prog": c["prog"], "claims": claims}) + "\n")
    ctx.note("programs", len(cases))
    ctx.note("programs_with_loops", sum(1 for c in cases if has_loop(c["prog"])))
    ctx.note("probe_claims", n_claims)
    ctx.note("probe_claims_unreachable", n_unreach)
    ctx.note("probes_without_claim(any/unknown)", n_noclaim)
    ctx.note("probes_with_nil_diagnostic", n_nildiag)

    # ---- pass (iii): TLC explores every execution of every program against the claims (in chunks: the cases are
    # TLC values held in memory)
    CHUNK = 12000
    lines = open(cpath).read().splitlines()
    rjson = []
    for k in range(0, len(lines), CHUNK):
        chunk_path = os.path.join(ctx.work, "cases_%d.ndjson" % (k // CHUNK))
        with open(chunk_path, "w") as f:
            f.write("\n".join(lines[k:k + CHUNK]) + "\n")
        res = vlib.tlc("MiniLua", "MiniLua_run", workers=ctx.pick(4, 8), timeout=ctx.pick(900, 3000),
                       env={"CASES": chunk_path}, xmx=ctx.pick("4g", "8g"))
        ctx.add_tlc(res)
        if res.violated:
            raise vlib.ToolError("MiniLua run phase: %s\n%s" % (res.violated, res.trace_text[:3000]))
        rjson += res.json
    viol = [o for t, o in rjson if t == "VIOL"]
    fine = [o for t, o in rjson if t == "FINE"]
    nilw = {(o["id"], o["p"]) for t, o in rjson if t == "NILW"}
    reach = {}
    for t, o in rjson:
        if t == "REACH":
            reach.setdefault((o["id"], o["p"]), o)
    runs = [o for t, o in rjson if t == "RUN"]
    by_id = {c["id"]: c for c in cases}
    ran = {o["id"] for o in runs}
    if ran != set(by_id):
        raise vlib.ToolError("run phase: %d of %d programs have a terminated execution" % (len(ran), len(by_id)))
    cut_ids = {o["id"] for o in runs if o["status"] == "cut"}
    ctx.note("programs_with_an_execution_cut_at_the_iteration_bound", len(cut_ids))
    ctx.note("executions_terminated", sum(1 for o in runs if o["status"] == "done"))
    ctx.note("executions_cut_at_iteration_bound", len(runs) - sum(1 for o in runs if o["status"] == "done"))

    # ---- pass (iv): the real Lua VM
    # one representative (shortest) execution per (program, probe, runtime type) counterexample
    reps = {}
    for o in viol:
        k = (o["id"], o["p"], o["type"], tuple(sorted(o["mech"]["exit"])), tuple(sorted(o["mech"]["back"])))
        if k not in reps or len(o["choices"]) < len(reps[k]["choices"]):
            reps[k] = o
    rnd = random.Random(ctx.seed)
    vm_runs = []
    for o in reps.values():
        vm_runs.append({"kind": "viol", "obs": o})
    sample = runs if len(runs) <= ctx.pick(12000, 80000) else rnd.sample(runs, ctx.pick(12000, 80000))
    for o in sample:
        vm_runs.append({"kind": "run", "obs": o})
    rpath = os.path.join(ctx.work, "runs.ndjson")
    with open(rpath, "w") as f:
        for n, r in enumerate(vm_runs):
            o = r["obs"]
            f.write(json.dumps({"id": o["id"], "run": n, "prog": by_id[o["id"]]["prog"], "choices": o["choices"],
                                "max_probes": len(o["log"]) if r["kind"] == "viol" else 64}) + "\n")
    p = vlib.run_bin("vh_minilua", ["exec", rpath], timeout=ctx.pick(600, 3000))
    vm = {o["run"]: o for o in vlib.ndjson(p.stdout) if "run" in o}
    if len(vm) != len(vm_runs):
        raise vlib.ToolError("vh_minilua exec: %d results for %d runs\n%s" % (len(vm), len(vm_runs), p.stderr[-2000:]))
    agreed = 0
    for n, r in enumerate(vm_runs):
        o, got = r["obs"], vm[n]
        want = [list(x) for x in o["log"]]
        if r["kind"] == "viol":
            ok = got["log"] == want and got["status"] in ("probelimit", "finished")
        elif o["status"] == "done":
            ok = got["log"] == want and got["status"] == "finished"
        else:  # cut at the iteration bound: the model's log is a prefix of the VM's
            ok = got["log"][:len(want)] == want
        if not ok:
            raise vlib.ToolError("MiniLua semantics disagree with the Lua VM (model bug, not a verdict):\n%s\nchoices=%s\n"
                                 "model log=%s status=%s\nVM log=%s status=%s" % (
                                     got["text"], o["choices"], want, o.get("status"), got["log"], got["status"]))
        agreed += 1
        r["vm"] = got
    ctx.validated(agreed)
    ctx.note("vm_runs_agreeing_with_model", agreed)

    # ---- evidence accounting
    for c in cases:
        a = ana[c["id"]]
        ctx.count(json.dumps(c["prog"], sort_keys=True), n=len(a.get("probes", [])),
                  nontrivial=has_branch(c["prog"]))
    ctx.rule("programs derived by TLC from spec/MiniLua.tla (<= MaxLen instructions over locals, literals, opaque(), "
             "if/elseif/else, while/repeat/for/break, probes); evaluations = probe claims judged on every execution; "
             "non-trivial = the program has at least one non-literal condition")
    for c in rnd.sample(cases, min(4, len(cases))):
        a = ana[c["id"]]
        ctx.sample({"program": a["text"], "claims": [[q["i"], q["v"], q["repr"], q["diag"]] for q in a.get("probes", [])]})
    ctx.assume("Lua semantics of the fragment as transcribed in spec/MiniLua.tla; cross-checked against luars on every "
               "representative execution in this run")
    ctx.assume("an inferred type outside {nil, boolean, number, string, table, function, unions, literals} (e.g. any) "
               "makes no claim")

    # ---- verdicts
    # C15 owns violations whose value never left the loop it was assigned in (plain narrowing, loop-carried);
    # C41 owns violations where it did, and every violation at a probe that follows a loop.
    groups = {}
    for k, o in reps.items():
        ex, back = sorted(o["mech"]["exit"]), sorted(o["mech"]["back"])
        prog = by_id[o["id"]]["prog"]
        if prop == "C15" and ex:
            continue
        if prop == "C41" and not (ex or o["after"]):
            continue
        if not ex and not back:
            sig = "%s/narrowing/%s" % (prop, narrow_key(prog, o["v"]))
        else:
            sig = "%s/loop/exit=%s/back=%s" % (prop, "+".join(ex) or "-", "+".join(back) or "-")
        claim = next(q for q in ana[o["id"]]["probes"] if q["i"] == o["p"])
        groups.setdefault(sig, []).append({
            "program": ana[o["id"]]["text"], "probe_instruction": o["p"], "variable": o["v"],
            "analyzer_claims": claim["repr"], "claimed_lua_types": claim["ty"],
            "runtime_type_at_probe": o["type"], "opaque_returns": o["choices"], "probe_log": o["log"],
            "confirmed_by_lua_vm": True})
    for sig, items in sorted(groups.items()):
        items.sort(key=lambda d: (len(d["program"]), d["program"]))
        ctx.violation(sig, {"count": len(items), "first": items[0], "more": items[1:4]})

    if prop == "C41":
        dgroups = {}
        judged = 0
        for (pid, pi), o in sorted(reach.items()):
            if not o["guard"]:
                continue
            # the use directly follows a break-free loop whose exit condition is false whenever v is nil
            # (ExitGuard, evaluated by TLC over all environments): no execution, however long, arrives with nil
            judged += 1
            if (pid, pi) in nilw:
                raise vlib.ToolError("MiniLua: ExitGuard holds but TLC found nil at the use (model bug): program %d "
                                     "instruction %d\n%s" % (pid, pi, ana[pid]["text"]))
            sig = "C41/nil-diagnostic/%s" % o["guard"]
            claim = next(q for q in ana[pid]["probes"] if q["i"] == pi)
            dgroups.setdefault(sig, []).append({
                "program": ana[pid]["text"], "use_at_instruction": pi, "variable": claim["v"],
                "analyzer_type_at_use": claim.get("use_repr"), "diagnostics_on_use": claim["diag"],
                "runtime": "the loop has no break and its exit condition is false whenever the variable is nil "
                           "(checked by TLC over all environments); TLC reaches the use with: %s" % o["choices"]})
        for sig, items in sorted(dgroups.items()):
            items.sort(key=lambda d: (len(d["program"]), d["program"]))
            ctx.violation(sig, {"count": len(items), "first": items[0], "more": items[1:4]})
        ctx.note("nil_diagnostics_after_guarding_loop_judged", judged)

    # finer than the property: boolean constants (true/false) claimed but the other one observed
    seenf = set()
    for o in fine:
        k = (o["id"], o["p"])
        if k in seenf:
            continue
        seenf.add(k)
        if len(seenf) <= 10:
            claim = next(q for q in ana[o["id"]]["probes"] if q["i"] == o["p"])
            ctx.divergence("finer than the property (Lua type is right, literal class is not): claimed %s, value %s at "
                           "instruction %d of:\n%s" % (claim["repr"], o["val"], o["p"], ana[o["id"]]["text"]))
    ctx.note("fine_mismatches", len(seenf))
