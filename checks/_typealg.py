"""Shared helpers for C16 / C17 / C18 (TypeAlgebra specifications replayed through vh_typealg)."""
import json
import os

import vlib


def prelude(world, fields=True):
    """Lua declarations of the WORLD the specification describes (classes with parents, alias, enum,
    generic class)."""
    lines = []
    classes = world["classes"]
    # parents first is not required by the analyser, but keep the text deterministic
    for name in sorted(classes):
        parents = classes[name]
        lines.append("---@class %s%s" % (name, (": " + ", ".join(parents)) if parents else ""))
        if fields:
            lines.append("---@field f_%s integer" % name.lower())
        lines.append("")
    for name, origin in sorted(world.get("alias", {}).items()):
        lines.append("---@alias %s %s" % (name, origin))
        lines.append("")
    for name, keys in sorted(world.get("enum", {}).items()):
        lines.append("---@enum %s" % name)
        lines.append("local %s = { %s }" % (name, ", ".join("%s = %d" % (k, i + 1) for i, k in enumerate(keys))))
        lines.append("")
    for name, param in sorted(world.get("generic", {}).items()):
        lines.append("---@class %s<%s>" % (name, param))
        lines.append("---@field v %s" % param)
        lines.append("")
    return "\n".join(lines) + "\n"


def make_canon(aliasnorm):
    expanded = {}

    def canon(d):
        if d is None:
            return None
        if d["k"] == "ref" and d["n"] in expanded:
            return expanded[d["n"]]
        ms = [canon(x) for x in d["m"]]
        if d["k"] == "union":
            flat = []
            for m in ms:
                j = json.loads(m)
                if j[0] == "union":
                    flat += j[1]
                else:
                    flat.append(m)
            ms = sorted(set(flat))
            if len(ms) == 1:
                return ms[0]
            return json.dumps(["union", ms])
        if d["k"] == "rec":
            return json.dumps(["rec", sorted(zip(d["keys"], ms))])
        return json.dumps([d["k"], d["n"], ms])

    for name, n in aliasnorm.items():
        expanded[name] = canon(n)
    return canon


def write_cases(ctx, name, header, cases):
    path = os.path.join(ctx.work, name)
    with open(path, "w") as f:
        f.write(json.dumps(header) + "\n")
        for c in cases:
            f.write(json.dumps(c) + "\n")
    return path


def run_harness(mode, path, timeout):
    p = vlib.run_bin("vh_typealg", [mode, path], timeout=timeout, check=False)
    out = vlib.ndjson(p.stdout)
    summary = [o["summary"] for o in out if "summary" in o]
    if p.returncode != 0 or not summary:
        raise vlib.ToolError("vh_typealg %s rc=%s\n%s" % (mode, p.returncode, p.stderr[-3000:]))
    return out, summary[0]
