import os, sys
sys.path.insert(0, os.path.dirname(__file__))
import _textpos


def run(ctx):
    _textpos.run(ctx, "C22")
