"""C01 Syntax trees are lossless: GreenBuilder design check + TokenSoup replay + ParserTrace validation."""
import os
import random
import sys

sys.path.insert(0, os.path.dirname(__file__))
import _parser as P
import vlib


def run(ctx):
    # (1) design check of the transcribed green-tree builder
    P.green_builder_design_check(ctx)

    # (2) TLC-enumerated token soups, replayed at 8 levels x doc on/off; oracle: tree text = input, tokens tile
    cases = P.soup_cases(ctx)
    vlib.build(["vh-parser"])
    out = P.run_chunks(ctx, "soup", cases, "soup", chunk=ctx.pick(20000, 60000), par=ctx.pick(2, 4),
                       timeout=ctx.pick(900, 3000))
    summaries = [o["summary"] for o in out if "summary" in o]
    hangs = [o for o in out if o.get("fail") in ("hang", "died")]
    if hangs:
        # no tree at all: reported here too (C02 owns termination); nothing else can be judged in this run
        ctx.violation("C01/no-tree/hang", {"count": len(hangs), "first": hangs[0]})
        return
    if sum(s["cases"] for s in summaries) != len(cases):
        raise vlib.ToolError("vh_parse soup judged %d of %d cases" % (sum(s["cases"] for s in summaries), len(cases)))
    ctx.cov["evaluations"] += sum(s["parses"] for s in summaries)
    for c in cases:
        ctx.count(tuple(c["l"]), n=0, nontrivial=len(c["l"]) >= 3)
    fails = [o for o in out if "fail" in o]
    # binding of the lexeme table: byte length stated by the spec = length of the concretised text
    bylen = {tuple(c["l"]): c["n"] for c in cases}
    groups = {}
    for f in fails:
        f["lens"] = P.lexeme_lens(f["l"])
        if sum(f["lens"]) != bylen.get(tuple(f["l"])):
            raise vlib.ToolError("lexeme byte table of _parser.py and TokenSoup.tla disagree on %r" % (f["l"],))
        groups.setdefault(P.soup_signature(f), []).append(f)
    for sig, fs in sorted(groups.items()):
        fs.sort(key=lambda f: (len(f["l"]), f["l"]))
        ctx.violation(sig, {"count": len(fs), "first": fs[0], "more": [{"l": f["l"], "configs": f["configs"]} for f in fs[1:6]],
                            "oracle": "tree text == input and tokens tile 0..len", "replay": "vh_parse soup <file with {\"l\":[...]}>"})

    # (3) trace validation: recorded lexer tokens + mark events + tree of real parses judged by ParserTrace.tla
    tcases = P.pick_trace_cases(ctx, cases, ctx.pick(400, 4000))
    verdicts, panics, tpath = P.record_and_validate(ctx, tcases)
    P.trace_corruption_selftest(ctx, tpath)
    ctx.validated(len(verdicts))
    tviol = {}
    stats = {"bal": 0, "eat": 0, "tile": 0, "root": 0, "tree_eq": 0, "pred_lossless": 0, "early": 0, "crossed": 0}
    for v in verdicts:
        case = tcases[v["case"]]
        for k in ("bal", "eat", "tile", "root", "tree_eq", "pred_lossless"):
            stats[k] += 1 if v[k] else 0
        stats["early"] += 1 if v["early"] else 0
        stats["early_ok"] = stats.get("early_ok", 0) + (1 if v["early_ok"] else 0)
        stats["crossed"] += 1 if v["crossed"] else 0
        bad = [k for k in ("tile", "eat", "bal", "root", "pred_lossless") if not v[k]]
        if v["crashed"] or v["unreach"]:
            bad.append("builder-panic-predicted")
        if not v["real_lossless"]:
            # the property predicate is false on the real tree; the first failed trace invariant localises it
            tviol.setdefault("C01/trace/%s" % (bad[0] if bad else "unexplained"), []).append(
                {"case": case, "verdict": v, "failed_invariants": bad})
        elif bad or not v["tree_eq"] or not v["early_ok"] or v["crossed"]:
            ctx.divergence({"case": case, "verdict": v,
                            "note": "trace invariant / builder precondition / predicted tree differs, but the real tree is lossless"})
    for sig, ds in sorted(tviol.items()):
        ctx.violation(sig, {"count": len(ds), "first": ds[0], "more": [d["case"] for d in ds[1:6]]})
    for pnc in panics:
        ctx.violation("C01/trace/panic", {"case": tcases[pnc["case"]], "panic": pnc})
    ctx.note("trace_invariants_held", stats)
    ctx.note("traces", len(verdicts))
    ctx.cov["exhaustive"] = False
    ctx.rule("one case = one lexeme sequence enumerated by TLC from TokenSoup.tla (all of length <= ExhLen over the full "
             "alphabet, all of length CoreLen over the core alphabet, seeded random prefixes extended by every lexeme), "
             "each parsed at 8 language levels x doc on/off; non-trivial = >= 3 lexemes; traces = sampled cases whose "
             "recorded lexer tokens/mark events/tree were validated step by step by ParserTrace.tla")
    rnd = random.Random(ctx.seed)
    for c in rnd.sample(cases, min(5, len(cases))):
        ctx.sample({"lexemes": c["l"], "bytes": c["n"]})
    if verdicts:
        ctx.sample({"trace_verdict": verdicts[0], "case": tcases[verdicts[0]["case"]]})
    ctx.assume("lexeme alphabet of spec/TokenSoup.tla; builder rules as transcribed in spec/GreenBuilder.tla "
               "(bound to the real builder by predicted-tree = real-tree on every validated trace)")
