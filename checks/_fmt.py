"""Shared machinery of C05 / C06 / C07: FmtGen.tla cases -> real formatter (vh_fmt) -> FmtTokens.tla verdicts."""
import glob
import json
import os
import random

import vlib

STD = os.path.join(vlib.REPO, "crates/emmylua_code_analysis/resources/std")


def gen_cases(ctx, n_single, n_sim, max_files):
    """TLC-generated programs x configurations, plus real files x TLC-enumerated lattice points."""
    rnd = random.Random(ctx.seed)
    single = []
    if n_single > 0:
        res = vlib.tlc("FmtGen", "FmtGen_single", workers=2, timeout=600)
        ctx.add_tlc(res)
        single = [c for t, c in res.json if t == "CASE"]
        if len(single) != res.distinct or not single:
            raise vlib.ToolError("FmtGen single: %d cases for %d states" % (len(single), res.distinct))
        single.sort(key=lambda c: (c["text"], json.dumps(c["cfg"], sort_keys=True)))
        ctx.note("generator_single_statement_space", len(single))
        if n_single < len(single):
            single = rnd.sample(single, n_single)
    res = vlib.tlc("FmtGen", "FmtGen_sim", workers=1, timeout=900, simulate="num=%d" % n_sim, depth=8, seed=ctx.seed)
    ctx.add_tlc(res)
    sim = [c for t, c in res.json if t == "CASE"]
    if not sim:
        raise vlib.ToolError("FmtGen sim produced no cases:\n" + res.out[-1500:])
    cases = []
    for c in single:
        cases.append({"src": "gen1", "text": c["text"], "cfg": c["cfg"]})
    for c in sim:
        cases.append({"src": "gen", "text": c["text"], "cfg": c["cfg"]})
    # real files: bundled std library (+ formatter test fixtures if any) x configurations taken from the
    # TLC-generated cases (lattice points), round robin
    files = sorted(glob.glob(os.path.join(STD, "*.lua")))
    files.sort(key=lambda p: (os.path.getsize(p), p))
    files = files[:max_files] if ctx.quick else files
    cfgs = [c["cfg"] for c in sim]
    per_file = ctx.pick(1, 3)
    for fi, p in enumerate(files):
        text = open(p, encoding="utf-8", errors="replace").read()
        for k in range(per_file):
            cases.append({"src": "std/" + os.path.basename(p), "text": text, "cfg": cfgs[(fi * per_file + k) % len(cfgs)]})
    # fixed probes named by the property text
    cases.append({"src": "probe/nul-in-comment", "text": "local a = 1 -- c\x00c\nlocal b = 2\nreturn a + b\n", "cfg": cfgs[0]})
    cases.append({"src": "probe/syntax-error", "text": "local = = 1\nlocal  t={1,2,}\n", "cfg": cfgs[0]})
    cases.append({"src": "probe/syntax-error2", "text": "if x then\n  f(  \nend\n", "cfg": cfgs[-1]})
    for i, c in enumerate(cases):
        c["id"] = i
    return cases


def run_formatter(ctx, cases, sels=None, tokens=True):
    vlib.build(["vh-fmt"])
    path = os.path.join(ctx.work, "fmt_cases.ndjson")
    with open(path, "w") as f:
        for c in cases:
            o = {"id": c["id"], "text": c["text"], "cfg": c["cfg"]}
            if sels and c["id"] in sels:
                o["sels"] = sels[c["id"]]
            f.write(json.dumps(o) + "\n")
    env = {} if tokens else {"VH_FMT_NO_TOKENS": "1"}
    p = vlib.run_bin("vh_fmt", [path], timeout=ctx.pick(600, 3000), env=env)
    out = {o["id"]: o for o in vlib.ndjson(p.stdout) if "id" in o}
    if len(out) != len(cases):
        raise vlib.ToolError("vh_fmt answered %d of %d cases\n%s" % (len(out), len(cases), p.stderr[-2000:]))
    return out


def model_cfg(cfg):
    o = cfg.get("output", {})
    return {"quote": o.get("quote_style", "Preserve"), "parens": o.get("single_arg_call_parens", "Preserve"),
            "trail": o.get("trailing_comma", "Never"), "keepSemi": bool(o.get("preserve_statement_semicolon", False))}


def norm_tokens(toks):
    out = []
    for t in toks:
        k = t["k"]
        text = t["t"]
        if t.get("c") and k != "#Comment":
            # "ignoring whitespace": comment openers carry their own blanks (`--- @tag`, `--- text`), text ends are trimmed
            if k.endswith("Start") or "Continue" in k:
                text = "".join(text.split())
            else:
                text = text.rstrip()
        out.append({"k": k, "t": text, "v": t.get("v", ""), "c": 1 if t.get("c") else 0,
                    "q": t["t"][:1] if k == "TkString" else ""})
    return out


def fmt_run(rid, cfg, in_toks, out_toks, in_err, out_err, same):
    return {"id": rid, "kind": "fmt", "cfg": model_cfg(cfg), "inErr": bool(in_err), "outErr": int(out_err),
            "same": bool(same), "in": norm_tokens(in_toks), "out": norm_tokens(out_toks)}


def idem_run(rid, same):
    return {"id": rid, "kind": "idem", "cfg": model_cfg({}), "inErr": False, "outErr": 0, "same": bool(same),
            "in": [], "out": []}


def judge(ctx, runs, tag):
    """FmtTokens via TLC: returns {id: ("ACC"|"REJ", info)}; ACC on any path wins."""
    verdict = {}
    chunk = 20000
    total_tokens = 0
    for lo in range(0, len(runs), chunk):
        part = runs[lo:lo + chunk]
        path = os.path.join(ctx.work, "runs_%s_%d.ndjson" % (tag, lo))
        with open(path, "w") as f:
            for r in part:
                total_tokens += len(r["in"]) + len(r["out"])
                f.write(json.dumps(r) + "\n")
        res = vlib.tlc("FmtTokens", "FmtTokens", workers=1, timeout=ctx.pick(900, 3000), env={"RUNS": path},
                       xmx="6g")
        ctx.add_tlc(res)
        if res.violated:
            raise vlib.ToolError("FmtTokens failed: %s\n%s" % (res.violated, res.trace_text[:2000]))
        for tg, o in res.json:
            if tg not in ("ACC", "REJ"):
                continue
            cur = verdict.get(o["id"])
            if tg == "ACC":
                if cur is None or cur[0] != "ACC":
                    verdict[o["id"]] = ("ACC", o)
                else:
                    cur[1]["used"] = sorted(set(cur[1]["used"]) | set(o["used"]))
            elif cur is None or (cur[0] == "REJ" and o["i"] > cur[1]["i"]):
                verdict[o["id"]] = ("REJ", o)
        missing = [r["id"] for r in part if r["id"] not in verdict]
        if missing:
            raise vlib.ToolError("FmtTokens gave no verdict for runs %s\n%s" % (missing[:5], res.out[-1500:]))
    ctx.note("tokens_walked_by_tlc_" + tag, total_tokens)
    return verdict


def snippet(text, off, width=60):
    a = max(0, off - width // 2)
    return text[a:a + width]
