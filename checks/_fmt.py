"""Shared machinery of C05 / C06 / C07: FmtGen.tla cases -> real formatter (vh_fmt) -> FmtTokens.tla verdicts."""
import glob
import json
import os
import random

import vlib

STD = os.path.join(vlib.REPO, "crates/emmylua_code_analysis/resources/std")


def gen_cases(ctx, n_single, n_sim, max_files):
    """TLC-generated programs x configurations, plus real files x TLC-enumerated lattice points."""
    rnd = random.Random(ctx.seed)
    single = []
    if n_single > 0:
        res = vlib.tlc("FmtGen", "FmtGen_single", workers=2, timeout=600)
        ctx.add_tlc(res)
        single = [c for t, c in res.json if t == "CASE"]
        if len(single) != res.distinct or not single:
            raise vlib.ToolError("FmtGen single: %d cases for %d states" % (len(single), res.distinct))
        single.sort(key=lambda c: (c["text"], json.dumps(c["cfg"], sort_keys=True)))
        ctx.note("generator_single_statement_space", len(single))
        if n_single < len(single):
            single = rnd.sample(single, n_single)
    res = vlib.tlc("FmtGen", "FmtGen_sim", workers=1, timeout=900, simulate="num=%d" % n_sim, depth=8, seed=ctx.seed)
    ctx.add_tlc(res)
    sim = [c for t, c in res.json if t == "CASE"]
    if not sim:
        raise vlib.ToolError("FmtGen sim produced no cases:\n" + res.out[-1500:])
    cases = []
    for c in single:
        cases.append({"src": "gen1", "text": c["text"], "cfg": c["cfg"]})
    for c in sim:
        cases.append({"src": "gen", "text": c["text"], "cfg": c["cfg"]})
    # real files: bundled std library (+ formatter test fixtures if any) x configurations taken from the
    # TLC-generated cases (lattice points), round robin
    files = sorted(glob.glob(os.path.join(STD, "*.lua")))
    files.sort(key=lambda p: (os.path.getsize(p), p))
    files = files[:max_files] if ctx.quick else files
    cfgs = [c["cfg"] for c in sim]
    per_file = ctx.pick(1, 3)
    for fi, p in enumerate(files):
        text = open(p, encoding="utf-8", errors="replace").read()
        for k in range(per_file):
            cases.append({"src": "std/" + os.path.basename(p), "text": text, "cfg": cfgs[(fi * per_file + k) % len(cfgs)]})
    # fixed probes named by the property text
    cases.append({"src": "probe/nul-in-comment", "text": "local a = 1 -- c\x00c\nlocal b = 2\nreturn a + b\n", "cfg": cfgs[0]})
    cases.append({"src": "probe/syntax-error", "text": "local = = 1\nlocal  t={1,2,}\n", "cfg": cfgs[0]})
    cases.append({"src": "probe/syntax-error2", "text": "if x then\n  f(  \nend\n", "cfg": cfgs[-1]})
    for i, c in enumerate(cases):
        c["id"] = i
    return cases


def run_formatter(ctx, cases, sels=None, tokens=True):
    vlib.build(["vh-fmt"])
    path = os.path.join(ctx.work, "fmt_cases.ndjson")
    with open(path, "w") as f:
        for c in cases:
            o = {"id": c["id"], "text": c["text"], "cfg": c["cfg"]}
            if sels and c["id"] in sels:
                o["sels"] = sels[c["id"]]
            f.write(json.dumps(o) + "\n")
    env = {} if tokens else {"VH_FMT_NO_TOKENS": "1"}
    p = vlib.run_bin("vh_fmt", [path], timeout=ctx.pick(600, 3000), env=env)
    out = {o["id"]: o for o in vlib.ndjson(p.stdout) if "id" in o}
    if len(out) != len(cases):
        raise vlib.ToolError("vh_fmt answered %d of %d cases\n%s" % (len(out), len(cases), p.stderr[-2000:]))
    return out


def model_cfg(cfg):
    o = cfg.get("output", {})
    return {"quote": o.get("quote_style", "Preserve"), "parens": o.get("single_arg_call_parens", "Preserve"),
            "trail": o.get("trailing_comma", "Never"), "keepSemi": bool(o.get("preserve_statement_semicolon", False))}


def norm_tokens(toks):
    out = []
    for t in toks:
        k = t["k"]
        text = t["t"]
        if t.get("c") and k != "#Comment":
            # "ignoring whitespace": comment openers carry their own blanks (`--- @tag`, `--- text`), text ends are trimmed
            if k.endswith("Start") or "Continue" in k:
                text = "".join(text.split())
            else:
                text = text.rstrip()
        out.append({"k": k, "t": text, "v": t.get("v", ""), "c": 1 if t.get("c") else 0,
                    "q": t["t"][:1] if k == "TkString" else ""})
    return out


def fmt_run(rid, cfg, in_toks, out_toks, in_err, out_err, same):
    return {"id": rid, "kind": "fmt", "cfg": model_cfg(cfg), "inErr": bool(in_err), "outErr": int(out_err),
            "same": bool(same), "in": norm_tokens(in_toks), "out": norm_tokens(out_toks)}


def idem_run(rid, same):
    return {"id": rid, "kind": "idem", "cfg": model_cfg({}), "inErr": False, "outErr": 0, "same": bool(same),
            "in": [], "out": []}


def judge(ctx, runs, tag):
    """FmtTokens via TLC: returns {id: ("ACC"|"REJ", info)}; ACC on any path wins."""
    verdict = {}
    chunk = 20000
    total_tokens = 0
    for lo in range(0, len(runs), chunk):
        part = runs[lo:lo + chunk]
        path = os.path.join(ctx.work, "runs_%s_%d.ndjson" % (tag, lo))
        with open(path, "w") as f:
            for r in part:
                total_tokens += len(r["in"]) + len(r["out"])
                f.write(json.dumps(r) + "\n")
        res = vlib.tlc("FmtTokens", "FmtTokens", workers=1, timeout=ctx.pick(900, 3000), env={"RUNS": path},
                       xmx="6g")
        ctx.add_tlc(res)
        if res.violated:
            raise vlib.ToolError("FmtTokens failed: %s\n%s" % (res.violated, res.trace_text[:2000]))
        for tg, o in res.json:
            if tg not in ("ACC", "REJ"):
                continue
            cur = verdict.get(o["id"])
            if tg == "ACC":
                if cur is None or cur[0] != "ACC":
                    verdict[o["id"]] = ("ACC", o)
                else:
                    cur[1]["used"] = sorted(set(cur[1]["used"]) | set(o["used"]))
            elif cur is None or (cur[0] == "REJ" and o["i"] > cur[1]["i"]):
                verdict[o["id"]] = ("REJ", o)
        missing = [r["id"] for r in part if r["id"] not in verdict]
        if missing:
            raise vlib.ToolError("FmtTokens gave no verdict for runs %s\n%s" % (missing[:5], res.out[-1500:]))
    ctx.note("tokens_walked_by_tlc_" + tag, total_tokens)
    return verdict


def snippet(text, off, width=60):
    a = max(0, off - width // 2)
    return text[a:a + width]


def selftest(ctx):
    """FmtTokens must accept / reject hand-made runs as stated (a self-check of the judge, run on every invocation)."""
    import copy
    T = lambda k, t, v="": {"k": k, "t": t, "v": v}
    src = [T("TkName", "f"), T("TkLeftParen", "("), T("TkString", "'s'", "s"), T("TkRightParen", ")")]
    swapped = [T("TkName", "f"), T("TkLeftParen", "("), T("TkString", '"s"', "s"), T("TkRightParen", ")")]
    wrongval = [T("TkName", "f"), T("TkLeftParen", "("), T("TkString", '"t"', "t"), T("TkRightParen", ")")]
    noparen = [T("TkName", "f"), T("TkString", "'s'", "s")]
    semi = [T("TkName", "x"), T("TkAssign", "="), T("TkName", "y"), T("TkSemicolon", ";"), T("TkLeftParen", "("), T("TkName", "f"),
            T("TkRightParen", ")"), T("TkLeftParen", "("), T("TkRightParen", ")")]
    C = lambda k, t: {"k": k, "t": t, "v": "", "c": 1}
    semi_c = semi[:4] + [C("#Comment", "Comment(DocDescription())"), C("TkNormalStart", "--"), C("TkDocDetail", " c"),
                         C("#Comment", "Comment()"), C("TkLongCommentStart", "--[["), C("TkDocDetail", " d "),
                         C("TkLongCommentEnd", "]]")] + semi[4:]
    cfg = lambda q="Preserve", p="Preserve": {"output": {"quote_style": q, "single_arg_call_parens": p}}
    cover = lambda rid, s, e, rs, re, none=False, inErr=False: {
        "id": rid, "kind": "cover", "cfg": model_cfg({}), "inErr": inErr, "outErr": 0, "same": True, "in": [], "out": [],
        "none": none, "s": s, "e": e, "len": 20, "rs": rs, "re": re, "boundary": True, "toks": [[0, 5], [6, 9], [10, 15]]}
    cases = [
        (fmt_run(1, cfg(), src, copy.deepcopy(src), False, 0, True), "ACC"),
        (fmt_run(2, cfg(), src, [T("TkName", "g")] + src[1:], False, 0, False), "REJ"),
        (fmt_run(3, cfg(), src, swapped, False, 0, False), "REJ"),
        (fmt_run(4, cfg("Double"), src, swapped, False, 0, False), "ACC"),
        (fmt_run(5, cfg("Double"), src, wrongval, False, 0, False), "REJ"),
        (fmt_run(6, cfg(), src, noparen, False, 0, False), "REJ"),
        (fmt_run(7, cfg(p="Omit"), src, noparen, False, 0, False), "ACC"),
        (fmt_run(8, cfg(p="Always"), noparen, src, False, 0, False), "ACC"),
        (fmt_run(9, cfg(), src, copy.deepcopy(src), False, 2, True), "REJ"),
        (fmt_run(10, cfg(), src, copy.deepcopy(src), True, 1, False), "REJ"),
        (fmt_run(11, cfg(), src, copy.deepcopy(src), True, 1, True), "ACC"),
        (idem_run(12, False), "REJ"), (idem_run(13, True), "ACC"),
        (fmt_run(14, cfg(), semi, semi[:3] + semi[4:], False, 0, False), "REJ"),      # hazard semicolon dropped
        (fmt_run(15, cfg(), semi[:4], semi[:3], False, 0, False), "ACC"),             # ordinary semicolon dropped
        # a comment between the `;` and the `(` changes nothing: the semicolon still separates two statements
        (fmt_run(21, cfg(), semi_c, semi_c[:3] + semi_c[4:], False, 0, False), "REJ"),
        (fmt_run(22, cfg(), semi_c, copy.deepcopy(semi_c), False, 0, True), "ACC"),
        (cover(16, 7, 12, 6, 15), "ACC"), (cover(17, 7, 12, 6, 11), "REJ"), (cover(18, 7, 12, 6, 25), "REJ"),
        (cover(19, 7, 12, 6, 15, inErr=True), "REJ"), (cover(20, 7, 12, 0, 0, none=True), "ACC"),
    ]
    v = judge(ctx, [r for r, _ in cases], "selftest")
    bad = [(r["id"], v[r["id"]][0], want) for r, want in cases if v[r["id"]][0] != want]
    if bad:
        raise vlib.ToolError("FmtTokens self-test: (run, verdict, expected) %r" % bad)
    ctx.note("judge_selftest_runs", len(cases))


def focus_cases(ctx, first_id, keep=None):
    """Dense (program x configuration) families of spec/FmtFocus.tla (quote / comment / doc), enumerated by TLC.

    quick: pairwise configuration sets (FmtFocus_q); thorough: full products x programs drawn by TLC (FmtFocus_t).
    `keep(case)` thins the list (deterministically) for a check that cannot afford all of it."""
    res = vlib.tlc("FmtFocus", ctx.pick("FmtFocus_q", "FmtFocus_t"), workers=ctx.pick(2, 4), timeout=ctx.pick(600, 2400),
                   seed=ctx.seed)
    ctx.add_tlc(res)
    got = [c for t, c in res.json if t == "CASE"]
    if len(got) != res.distinct or not got:
        raise vlib.ToolError("FmtFocus: %d cases for %d states\n%s" % (len(got), res.distinct, res.out[-1500:]))
    got.sort(key=lambda c: (c["kinds"][0], c["text"], json.dumps(c["cfg"], sort_keys=True)))
    fams = {}
    cases = []
    for c in got:
        case = {"src": "focus/" + c["kinds"][0], "text": c["text"], "cfg": c["cfg"]}
        if keep is not None and not keep(case):
            continue
        fams[case["src"]] = fams.get(case["src"], 0) + 1
        case["id"] = first_id + len(cases)
        cases.append(case)
    ctx.note("focus_family_cases", fams)
    return cases
