"""Shared glue for C13 / C14: Scope.tla programs -> Lua text with the byte offset of every abstract position.

Item i occupies abstract positions i*10 .. i*10+9 (see spec/Scope.tla); `concretise` renders the items one
per line and returns the text plus {abstract position: byte offset} for every name occurrence.
"""
import json
import os

import vlib

KINDS_WITH_ROLE = {
    ("local", 1): "local.name", ("local2", 1): "local2.name1", ("local2", 2): "local2.name2",
    ("localfunc", 2): "localfunc.name", ("localfunc", 4): "localfunc.param", ("func", 3): "func.param",
    ("fornum", 1): "fornum.var", ("forin", 1): "forin.var1", ("forin", 2): "forin.var2",
}


def unpack(p):
    """TLC prints items as [k, a, b, t, n, p] (see Scope!Compact)."""
    return [{"k": x[0], "a": x[1], "b": x[2], "e": {"t": x[3], "n": x[4], "p": x[5]}} for x in p]


class Text:
    def __init__(self):
        self.s = ""
        self.off = {}

    def lit(self, t):
        self.s += t

    def name(self, pos, n):
        if n != "-":
            self.off[pos] = len(self.s)
            self.s += n

    def expr(self, b, e):
        if e["t"] == "lit":
            self.s += "0"
        elif e["t"] == "name":
            self.name(b, e["n"])
        else:
            self.off[b] = len(self.s)
            self.s += "function("
            self.name(b + 1, e["p"])
            self.s += ") return "
            self.name(b + 3, e["n"])
            self.s += " end"


def concretise(items, newline="\n", indent="  "):
    t = Text()
    depth = 0
    for i, it in enumerate(items, start=1):
        b = i * 10
        k, a, bb, e = it["k"], it["a"], it["b"], it["e"]
        if k in ("end", "until", "else"):
            depth -= 1
        t.lit(indent * max(depth, 0))
        if k == "local":
            t.lit("local "); t.name(b + 1, a); t.lit(" = "); t.expr(b + 3, e)
        elif k == "local2":
            t.lit("local "); t.name(b + 1, a); t.lit(", "); t.name(b + 2, bb); t.lit(" = "); t.expr(b + 4, e); t.lit(", 0")
        elif k == "assign":
            t.name(b, a); t.lit(" = "); t.expr(b + 2, e)
        elif k == "use":
            t.lit("print("); t.name(b + 1, a); t.lit(")")
        elif k == "localfunc":
            t.lit("local function "); t.name(b + 2, a); t.lit("("); t.name(b + 4, bb); t.lit(")")
        elif k == "func":
            t.lit("function "); t.name(b + 1, a); t.lit("("); t.name(b + 3, bb); t.lit(")")
        elif k == "do":
            t.lit("do")
        elif k == "while":
            t.lit("while "); t.expr(b + 1, e); t.lit(" do")
        elif k == "if":
            t.lit("if "); t.expr(b + 1, e); t.lit(" then")
        elif k == "else":
            t.lit("else")
        elif k == "repeat":
            t.lit("repeat")
        elif k == "until":
            t.lit("until "); t.expr(b + 1, e)
        elif k == "fornum":
            t.lit("for "); t.name(b + 1, a); t.lit(" = "); t.expr(b + 3, e); t.lit(", 2 do")
        elif k == "forin":
            t.lit("for "); t.name(b + 1, a)
            if bb != "-":
                t.lit(", "); t.name(b + 2, bb)
            t.lit(" in "); t.expr(b + 4, e); t.lit(" do")
        elif k == "end":
            t.lit("end")
        else:
            raise vlib.ToolError("unknown item kind %r" % k)
        if k in ("localfunc", "func", "do", "while", "if", "else", "repeat", "fornum", "forin"):
            depth += 1
        t.lit(newline)
    return t.s, t.off


def role_of_use(items, pos):
    it = items[pos // 10 - 1]
    k, slot = it["k"], pos % 10
    e = it["e"]
    base = {"local": 3, "local2": 4, "assign": 2, "while": 1, "if": 1, "until": 1, "fornum": 3, "forin": 4}.get(k)
    if k == "assign" and slot == 0:
        return "assign.target"
    if k == "func" and slot == 1:
        return "func.name"
    if k == "use":
        return "call.arg"
    part = {"local": "init", "local2": "init", "assign": "value", "while": "cond", "if": "cond", "until": "cond",
            "fornum": "header", "forin": "header"}[k]
    if e["t"] == "fn" and slot == base + 3:
        return "%s.%s.closure-body" % (k, part)
    return "%s.%s" % (k, part)


def role_of_decl(items, pos, use_pos):
    """Describe a resolution target relative to the use (mechanism key, not an input key)."""
    if pos == 0:
        return "global"
    if pos < 0:
        return {-1: "global", -2: "global", -3: "non-variable", -4: "no-token"}.get(pos, "other")
    it = items[pos // 10 - 1]
    k, slot = it["k"], pos % 10
    role = KINDS_WITH_ROLE.get((k, slot))
    if role is None:
        e = it["e"]
        if e["t"] == "fn":
            role = "closure.param"
        else:
            role = "%s@%d" % (k, slot)
    rel = "own-stat" if pos // 10 == use_pos // 10 else ("earlier" if pos < use_pos else "later")
    return "%s(%s)" % (role, rel)


def signature(prop, items, use_pos, want, got):
    """Mechanism key: which kind of declaration was chosen instead of which, relative to the use."""
    use = role_of_use(items, use_pos)
    g = role_of_decl(items, got, use_pos)
    w = role_of_decl(items, want, use_pos)
    if got > 0 and got // 10 == use_pos // 10:
        # a declaration of the statement that contains the use was chosen
        return "%s/use=%s/got=%s" % (prop, use, g)
    if got > 0 and want > 0 and got // 10 == want // 10:
        # right statement, wrong one of its declarations
        return "%s/same-stat/want=%s/got=%s" % (prop, w, g)
    return "%s/use=%s/want=%s/got=%s" % (prop, use, w, g)


def write_ndjson(path, rows):
    with open(path, "w") as f:
        for r in rows:
            f.write(json.dumps(r) + "\n")


# ------------------------------------------------------------------------------------------------
# parameter mining + case generation shared by C13 and C14
# ------------------------------------------------------------------------------------------------
PROBES = [
    # (constant, program text, offset of the probed use, {observed offset of the declaration: value})
    ("ForNumKind", "for a = a, 2 do\nend\n", 8, {4: '"Normal"', -1: '"ForRange"', -2: '"ForRange"'}),
    ("LoaOrder", "local a, a = 0, 0\nprint(a)\n", 24, {6: '"forward"', 9: '"reverse"'}),
]


def mine_constants(ctx):
    """Measure the two code-dependent constants of Scope.tla on the current tree (parameter mining)."""
    path = os.path.join(ctx.work, "probes.ndjson")
    write_ndjson(path, [{"id": i, "text": p[1], "uses": [p[2]]} for i, p in enumerate(PROBES)])
    out = vlib.ndjson(vlib.run_bin("vh_scope", [path], timeout=120).stdout)
    mined = {}
    for o in out:
        if "got" not in o:
            continue
        name, _, _, table = PROBES[o["id"]]
        mined[name] = table.get(o["got"][0])
    return mined


def cfg_with(ctx, cfg, consts, tag):
    """Copy spec/<cfg>.cfg into the work dir with CONSTANT lines replaced; returns the path without .cfg."""
    import re
    src = open(os.path.join(vlib.SPEC, cfg + ".cfg")).read()
    for k, v in consts.items():
        src, n = re.subn(r"(?m)^(\s*%s\s*=\s*).*$" % re.escape(k), lambda m: m.group(1) + v, src)
        if n != 1:
            raise vlib.ToolError("constant %s not found in %s.cfg" % (k, cfg))
    dst = os.path.join(ctx.work, "%s_%s" % (cfg, tag))
    with open(dst + ".cfg", "w") as f:
        f.write(src)
    return dst


def run_tlc(ctx, cfg, consts, tag, **kw):
    path = cfg_with(ctx, cfg, consts, tag)
    md = os.path.join(vlib.VERIF, ".tlc", "Scope_%s_%s_%d" % (cfg, tag, os.getpid()))
    return vlib.tlc("Scope", path, metadir=md, **kw)


def generate(ctx, jobs):
    """jobs: list of (cfg, kwargs for vlib.tlc). Mines the constants, runs TLC with CheckAgree, returns
    (cases, info). A case = {"items", "ref": {use: decl}, "tr": {...}, "kf": set(use)}; de-duplicated."""
    vlib.build(["vh-analysis"])
    mined = mine_constants(ctx)
    if None in mined.values() or len(mined) != len(PROBES):
        # the probes themselves behave in a way neither variant of the transcription covers
        ctx.divergence("parameter mining: probe outcome not covered by the transcription: %r" % (mined,))
        mined = {k: v for k, v in mined.items() if v is not None}
    info = {"mined_constants": mined, "agree_violations": []}
    cases, seen = [], set()
    for n, (cfg, kw) in enumerate(jobs):
        consts = dict(mined)
        res = run_tlc(ctx, cfg, consts, "m%d" % n, **kw)
        if res.violated == "Agree":
            # the algorithm as it is in the tree (mined constants) does not implement Lua scoping: TLC's
            # counterexample is kept, the cases are regenerated without the invariant and replayed
            info["agree_violations"].append({"cfg": cfg, "trace": res.trace_text[:3000]})
            consts["CheckAgree"] = "FALSE"
            ctx.add_tlc(res)
            res = run_tlc(ctx, cfg, consts, "n%d" % n, **kw)
        if res.violated:
            raise vlib.ToolError("Scope.tla violates its own law %s:\n%s" % (res.violated, res.trace_text[:3000]))
        ctx.add_tlc(res)
        for tag, c in res.json:
            if tag != "CASE":
                continue
            key = json.dumps(c["p"])
            if key in seen:
                continue
            seen.add(key)
            cases.append({"items": unpack(c["p"]), "ref": {int(x[0]): int(x[1]) for x in c["ref"]},
                          "tr": {int(x[0]): int(x[1]) for x in c["tr"]}, "kf": set(int(x) for x in c["kf"]),
                          "decls": set(int(x) for x in c.get("decls", [])), "src": cfg})
    return cases, info
