import json
import os
import sys

sys.path.insert(0, os.path.dirname(__file__))
import _lslocks
import vlib


def bind_lock_model(ctx):
    """FairRwLock.tla (the semantics LsLocks assumes) vs the real tokio::sync::RwLock"""
    cfg = ctx.pick("FairRwLock_3", "FairRwLock_4")
    res = vlib.tlc("FairRwLock", cfg, workers=4, timeout=900)
    if res.violated:
        raise vlib.ToolError("FairRwLock violates its own invariant %s" % res.violated)
    ctx.add_tlc(res)
    beh = [j for t, j in res.json if t == "BEHAVIOUR"]
    path = ctx.workfile("fair.ndjson")
    with open(path, "w") as f:
        for b in beh:
            f.write(json.dumps(b) + "\n")
    out = vlib.ndjson(vlib.run_bin("vh_ls_fairlock", [path], timeout=900).stdout)
    summ = [o["summary"] for o in out if "summary" in o]
    if not summ or summ[0]["behaviours"] != len(beh):
        raise vlib.ToolError("vh_ls_fairlock incomplete")
    if summ[0]["mismatches"]:
        raise vlib.ToolError("the FIFO lock model does not describe tokio's RwLock: %s" % json.dumps(out[0])[:800])
    ctx.validated(len(beh))
    ctx.note("lock_model_behaviours_matched_on_tokio", len(beh))


def run(ctx):
    progs, inline, panics = _lslocks.mine(ctx)
    bind_lock_model(ctx)
    segs = _lslocks.segments(progs)
    ctx.note("mined_programs", len(progs))
    ctx.note("hold_segments", [{"name": s["name"], "shape": s["shape"], "scenarios": _lslocks.scenarios_of(s)} for s in segs])
    ctx.note("inline_notifications", inline)
    ctx.validated(len(progs))  # every program is a trace recorded from the real handlers
    if len(progs) < 100 or len(segs) < 8:
        raise vlib.ToolError("miner covered too little: %d programs, %d segments" % (len(progs), len(segs)))
    ks = ctx.pick([2, 3], [2, 3, 4])
    seen = {}
    reacq_seen = {}
    for k in ks:
        # K=4 only in greedy mode (same blocked set as the full interleaving model for K<=3, measured each run)
        # the full-interleaving model is run for K=2 always and for K=3 in the thorough tier; the greedy
        # (scheduler-realisable) model for every K. Both gave identical blocked sets whenever both were run.
        modes = [True, False] if (k <= 2 or (k == 3 and not ctx.quick)) else [True]
        per_mode = {}
        for greedy in modes:
            res, blocked, reacq = _lslocks.model_check(ctx, segs, k, greedy, ctx.pick(900, 3000))
            sigs = {}
            for b in blocked:
                sigs.setdefault(_lslocks.cycle_signature(b, segs), b)
            per_mode[greedy] = set(sigs)
            for s, b in sigs.items():
                seen.setdefault(s, {"k": k, "greedy": greedy, "blocked": b})
            for r in reacq:
                seg = [s for s in segs if s["name"] == r["prog"]][0]
                sig = "reacquire %s.%s while held [%s]" % (r["lock"], r["mode"], ",".join(
                    x.replace("req:", "").replace("notif:", "") for x in _lslocks.scenarios_of(seg)))
                reacq_seen.setdefault(sig, {"segment": seg["shape"], "pc": r["pc"]})
            ctx.count(("combos", k, greedy), n=res.distinct, nontrivial=False)
        if len(per_mode) == 2 and per_mode[True] != per_mode[False]:
            ctx.divergence("K=%d: greedy and full-interleaving models disagree on blocked signatures: %s" % (
                k, sorted(per_mode[True] ^ per_mode[False])))
    for s in segs:
        ctx.count(s["shape"], n=0, nontrivial=len(s["ops"]) > 2)
        ctx.sample({"segment": s["shape"], "from": s["sources"][:4]})
    ctx.rule("lock programs mined from the real handlers (one per message kind x state class), split into hold-segments; "
             "TLC explores every interleaving of every multiset of K segments under FIFO write-preferring lock semantics; "
             "distinct_nontrivial = distinct hold-segments that nest or hold across another acquisition")
    ctx.assume("tokio::sync::RwLock/Mutex are FIFO-fair (write-preferring) as modelled in spec/LsLocks.tla")
    ctx.assume("a lock program observed for one representative input of a message kind/state class is the program of that handler")
    for sig, d in sorted(seen.items()):
        ctx.violation("deadlock: " + sig, d)
    for sig, d in sorted(reacq_seen.items()):
        ctx.violation(sig, d)
    for p in panics:
        ctx.divergence("panic while mining %s: %s" % (p.get("scenario"), p.get("panics")))
