import json
import os
import sys

sys.path.insert(0, os.path.dirname(__file__))
import _lslocks
import vlib


def run(ctx):
    progs, inline, panics = _lslocks.mine(ctx)
    segs = _lslocks.segments(progs)
    ctx.note("mined_programs", len(progs))
    ctx.note("hold_segments", [{"name": s["name"], "shape": s["shape"], "scenarios": _lslocks.scenarios_of(s)} for s in segs])
    ctx.note("inline_notifications", inline)
    ctx.validated(len(progs))  # every program is a trace recorded from the real handlers
    if len(progs) < 100 or len(segs) < 8:
        raise vlib.ToolError("miner covered too little: %d programs, %d segments" % (len(progs), len(segs)))
    ks = ctx.pick([2, 3], [2, 3, 4])
    seen = {}
    reacq_seen = {}
    for k in ks:
        # K=4 only in greedy mode (same blocked set as the full interleaving model for K<=3, measured each run)
        modes = [True, False] if k <= 3 else [True]
        per_mode = {}
        for greedy in modes:
            res, blocked, reacq = _lslocks.model_check(ctx, segs, k, greedy, ctx.pick(900, 3000))
            sigs = {}
            for b in blocked:
                sigs.setdefault(_lslocks.cycle_signature(b, segs), b)
            per_mode[greedy] = set(sigs)
            for s, b in sigs.items():
                seen.setdefault(s, {"k": k, "greedy": greedy, "blocked": b})
            for r in reacq:
                seg = [s for s in segs if s["name"] == r["prog"]][0]
                sig = "reacquire %s.%s while held [%s]" % (r["lock"], r["mode"], ",".join(
                    x.replace("req:", "").replace("notif:", "") for x in _lslocks.scenarios_of(seg)))
                reacq_seen.setdefault(sig, {"segment": seg["shape"], "pc": r["pc"]})
            ctx.count(("combos", k, greedy), n=res.distinct, nontrivial=False)
        if len(per_mode) == 2 and per_mode[True] != per_mode[False]:
            ctx.divergence("K=%d: greedy and full-interleaving models disagree on blocked signatures: %s" % (
                k, sorted(per_mode[True] ^ per_mode[False])))
    for s in segs:
        ctx.count(s["shape"], n=0, nontrivial=len(s["ops"]) > 2)
        ctx.sample({"segment": s["shape"], "from": s["sources"][:4]})
    ctx.rule("lock programs mined from the real handlers (one per message kind x state class), split into hold-segments; "
             "TLC explores every interleaving of every multiset of K segments under FIFO write-preferring lock semantics; "
             "distinct_nontrivial = distinct hold-segments that nest or hold across another acquisition")
    ctx.assume("tokio::sync::RwLock/Mutex are FIFO-fair (write-preferring) as modelled in spec/LsLocks.tla")
    ctx.assume("a lock program observed for one representative input of a message kind/state class is the program of that handler")
    for sig, d in sorted(seen.items()):
        ctx.violation("deadlock: " + sig, d)
    for sig, d in sorted(reacq_seen.items()):
        ctx.violation(sig, d)
    for p in panics:
        ctx.divergence("panic while mining %s: %s" % (p.get("scenario"), p.get("panics")))
