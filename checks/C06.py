"""C06: formatting is idempotent (same inputs/configurations as C05; second pass must be the identity)."""
import os
import re
import shutil
import subprocess
import sys

sys.path.insert(0, os.path.dirname(__file__))
import _fmt  # noqa: E402
import _fmtbin  # noqa: E402
import vlib  # noqa: E402


BLANK_INSIDE = re.compile(r"[{(][ \t]*\n[ \t]*\n|\n[ \t]*\n[ \t]*[})]")


def signature(c, o):
    """mechanism class of a second-pass drift, from the first differing line of the two passes"""
    d = o["drift"]
    l1, l2 = d["line1"], d["line2"]
    squeeze = lambda x: "".join(x.split())
    doc = l1.lstrip().startswith("---") or l2.lstrip().startswith("---")
    if not d["ws_only"]:
        return "C06/tokens/%s" % (d["stat"] if doc else d["node"])
    # only the gap in front of a trailing LINE comment differs (code part and comment text identical; not `--[[ .. ]]`)
    p1, p2 = l1.find("--"), l2.find("--")
    if p1 > 0 and p2 > 0 and l1[:p1].strip() and l1[:p1].rstrip() == l2[:p2].rstrip() and l1[p1:] == l2[p2:] \
            and not l1[p1:].startswith("--["):
        return "C06/space/trailing-comment-gap/%s" % d.get("owner", "none")
    path = d.get("path", [])
    lambda_arg = any(a == "ClosureExpr" and b == "CallArgList" for a, b in zip(path, path[1:]))
    if squeeze(l1) == squeeze(l2):
        if l1.strip() == l2.strip():
            if lambda_arg and not doc:
                return "C06/indent/lambda-argument-body"    # body of a function argument, indented twice by pass 1
            return "C06/indent/%s" % ("doc" if doc else d["node"])
        return "C06/space/%s" % ((d["stat"] if d["stat"] != "none" else "doc") if doc else d["node"])
    # the same text is distributed over the lines differently: a line-breaking decision changed
    width = c["cfg"].get("layout", {}).get("max_line_width", 120)
    if "--" in l1 or "--" in l2:
        return "C06/reflow/next-to-comment"
    # the source has a blank line directly after an opening / before a closing bracket (and no comment): pass 1 printed the
    # bracket pair expanded because of it, pass 2 (blank line gone or no longer counted) joins it onto one line
    if BLANK_INSIDE.search(c["text"]) and "--" not in c["text"] and l1.rstrip()[-1:] in ("{", "(") \
            and l2.startswith(l1.rstrip()) and len(l2.rstrip()) > len(l1.rstrip()):
        return "C06/reflow/blank-line-inside-brackets"
    if width > 40 and path[:1] == ["CallArgList"] and ("function" in l1 or "function" in l2):
        return "C06/reflow/lambda-argument"         # argument list with a function argument: one per line, then hugged
    return "C06/reflow/%s" % ("narrow-width" if width <= 40 else "default-width")


def run(ctx):
    cases = _fmt.gen_cases(ctx, n_single=ctx.pick(2500, 100000), n_sim=ctx.pick(500, 3000), max_files=ctx.pick(12, 1000))
    # dense families (spec/FmtFocus.tla): trailing-comment groups x comment options (pairwise in quick, full product in
    # thorough), doc blocks x emmy_doc options, escape-sequence strings x quote_style x call-parens
    cases += _fmt.focus_cases(ctx, len(cases))
    out = _fmt.run_formatter(ctx, cases, tokens=False)
    runs = []
    found = {}
    for c in cases:
        o = out[c["id"]]
        if "panic" in o or "panic2" in o:
            found.setdefault("C06/panic", []).append({"src": c["src"], "text": c["text"][:400], "cfg": c["cfg"],
                                                      "panic": o.get("panic") or o.get("panic2")})
            continue
        runs.append(_fmt.idem_run(c["id"], o["idem"]))
    verdict = _fmt.judge(ctx, runs, "c06")
    by_id = {c["id"]: c for c in cases}
    for r in runs:
        c = by_id[r["id"]]
        o = out[c["id"]]
        ctx.count((c["text"], str(c["cfg"])), nontrivial=(o["out_text"] != c["text"] and not o["in_err"]))
        if verdict[r["id"]][0] == "ACC":
            continue
        d = o["drift"]
        found.setdefault(signature(c, o), []).append({
            "src": c["src"], "cfg": c["cfg"], "first_pass_line": d["line1"], "second_pass_line": d["line2"],
            "at_token": d["token"], "text": c["text"] if len(c["text"]) < 600 else None})
    ctx.validated(len(runs))
    # the command-line form of the property: `luafmt --check` right after `luafmt --write`
    luafmt = _fmtbin.build_luafmt()
    root = os.path.join(ctx.work, "cli")
    cli = [c for c in cases if c["src"].startswith("gen")][: ctx.pick(40, 300)]
    shutil.rmtree(root, ignore_errors=True)
    os.makedirs(root)
    for c in cli:
        with open(os.path.join(root, "f%05d.lua" % c["id"]), "w") as f:
            f.write(c["text"])
    w = subprocess.run([luafmt, "--write", "."], cwd=root, stdout=subprocess.PIPE, stderr=subprocess.PIPE, text=True, timeout=600)
    if w.returncode not in (0,):
        raise vlib.ToolError("luafmt --write failed rc=%d: %s" % (w.returncode, w.stderr[-500:]))
    k = subprocess.run([luafmt, "--list-different", "."], cwd=root, stdout=subprocess.PIPE, stderr=subprocess.PIPE, text=True, timeout=600)
    listed = sorted(x.strip().lstrip("./") for x in k.stdout.splitlines() if x.strip())
    default_cfg_drift = 0
    for name in listed:
        cid = int(name[1:6])
        c = by_id[cid]
        default_cfg_drift += 1
        # same mechanism as the in-process run under the default configuration: re-run to get the construct
        o2 = _fmt.run_formatter(ctx, [{"id": cid, "text": c["text"], "cfg": {}}], tokens=False)[cid]
        sig = signature(c, o2) if o2.get("idem") is False else "C06/cli/check-after-write-disagrees-with-library"
        found.setdefault(sig, []).append({"src": "cli:" + c["src"], "cfg": {}, "text": c["text"][:600],
                                          "first_pass_line": o2.get("drift", {}).get("line1"),
                                          "second_pass_line": o2.get("drift", {}).get("line2")})
    ctx.note("cli_files_written_then_checked", len(cli))
    ctx.note("cli_files_reported_different_after_write", default_cfg_drift)
    first = lambda pre: [c for c in cases if c["src"].startswith(pre)][:1]
    for c in cases[:2] + first("std/") + first("focus/comment") + first("focus/doc") + first("focus/quote") + first("focus/blank"):
        ctx.sample({"src": c["src"], "text": c["text"][:200],
                    "cfg": c["cfg"] if c["src"].startswith("focus/") else _fmt.model_cfg(c["cfg"])})
    for sig, ds in sorted(found.items()):
        ctx.violation(sig, {"count": len(ds), "sources": sorted({d["src"] for d in ds})[:12], "first": ds[0], "more": ds[1:3]})
    ctx.rule("a case = (program, configuration) as in C05 (incl. the FmtFocus.tla families: trailing-comment groups x "
             "comment options pairwise / full, doc blocks x emmy_doc options, escape strings x quote_style, blank lines directly after an "
             "opening / before a closing bracket or block keyword without comments (family blank), `stat;` + comments + `(`-statement); "
             "non-trivial = the first pass changed the text; "
             "accepted iff the second pass returns its input byte for byte (judged as an `idem` run of FmtTokens.tla)")
    ctx.assume("signature of a drift = (whitespace-only or not, enclosing statement kind, innermost node kind at the first differing byte)")
