"""C16: assignability obeys the laws of subtyping; batch union == folded pairwise union.

Two TLA+ modules, both enumerated by TLC and replayed into the real code through vh_typealg:

  TypeLaws   instances of the laws the property states (refl / top / member / ancestor) over annotation
             types of depth <= 2; each instance must be accepted by the real checker.
  TypeUnion  transcription of union_type / union_type_all / can_use_structural_union; TLC checks
             UnionAll(batch) == Fold(batch) on the transcription and prints both expected results; every
             batch is replayed (TypeOps::union_all vs folded TypeOps::Union) and compared with the real `==`,
             and both real results are compared with the transcription (conformance of the model).
"""
import os
import random
import sys

sys.path.insert(0, os.path.dirname(__file__))
import _typealg
import vlib


def expand(subjects):
    cases = []

    def add(law, s, v):
        cases.append({"id": len(cases), "law": law, "s": s["s"], "v": v["s"], "sv": s["v"], "vv": v["v"],
                      "sk": s["k"], "vk": v["k"]})

    for s in subjects:
        if s["refl"]:
            add("refl", s["t"], s["t"])
        for t in s["top"]:
            add("top", t, s["t"])
        for m in s["members"]:
            add("member", s["t"], m)
        for a in s["ancestors"]:
            add("ancestor", a, s["t"])
    return cases


def norm(d):
    if d["k"] == "a":
        return ("a", d["n"])
    return (d["k"], tuple(sorted(d["m"])))


def run_laws(ctx):
    cfg = ctx.pick("TypeLaws_q", "TypeLaws_t")
    res = vlib.tlc("TypeLaws", cfg, workers=ctx.pick(4, 8), timeout=ctx.pick(600, 3000))
    ctx.add_tlc(res)
    if res.violated:
        raise vlib.ToolError("TypeLaws violates its own sanity invariant %s:\n%s" % (res.violated, res.trace_text[:2000]))
    world = [c for t, c in res.json if t == "WORLD"][0]
    controls = [c for t, c in res.json if t == "CONTROL"][0]
    subjects = [c for t, c in res.json if t == "CASE"]
    if len(subjects) != res.distinct:
        raise vlib.ToolError("case extraction lost cases: %d printed, %d distinct states" % (len(subjects), res.distinct))
    cases = expand(subjects)
    n_law = len(cases)
    for s, v in controls:
        cases.append({"id": len(cases), "law": "control", "s": s["s"], "v": v["s"], "sv": s["v"], "vv": v["v"],
                      "sk": s["k"], "vk": v["k"]})
    path = _typealg.write_cases(ctx, "laws.ndjson", {"prelude": _typealg.prelude(world)}, cases)
    out, summary = _typealg.run_harness("laws", path, ctx.pick(900, 3000))
    if summary["cases"] != len(cases):
        raise vlib.ToolError("laws replay lost cases")
    # vacuity guard: a term the analyser did not build as the spec says is not judged
    bad_syntax = {}
    for o in out:
        if "variant_mismatch" in o:
            bad_syntax[o["variant_mismatch"]] = o
            ctx.divergence("annotation %r built as %s, spec says %s" % (o["variant_mismatch"], o["actual"], o["expected"]))
    results = {o["id"]: o for o in out if "id" in o}
    controls_rejected = 0
    by_sig = {}
    judged = 0
    for c in cases:
        r = results.get(c["id"])
        if c["law"] == "control":
            if r is not None:
                controls_rejected += 1
            continue
        if c["s"] in bad_syntax or c["v"] in bad_syntax:
            continue
        judged += 1
        ctx.count((c["law"], c["s"], c["v"]), nontrivial="(" in c["sk"] or "(" in c["vk"] or c["law"] == "ancestor")
        if r is not None:
            kind = "panic" if r["result"] == "panic" else "rejected"
            sig = "C16/law/%s/%s/%s<-%s" % (c["law"], kind, c["sk"], c["vk"])
            by_sig.setdefault(sig, []).append({"law": c["law"], "expected_type": c["s"], "value_type": c["v"],
                                                "expected": "accepted", "observed": r["result"], "reason": r["reason"]})
    ctx.validated(judged)
    ctx.note("law_instances", n_law)
    ctx.note("law_instances_judged", judged)
    ctx.note("controls_rejected", "%d/%d" % (controls_rejected, len(controls)))
    if controls_rejected == 0:
        ctx.divergence("none of the %d control pairs (e.g. string <- integer) was rejected: the real checker "
                       "accepted everything in this run" % len(controls))
    rnd = random.Random(ctx.seed)
    for c in rnd.sample(cases[:n_law], min(4, n_law)):
        ctx.sample({"law": c["law"], "expected_type": c["s"], "value_type": c["v"]})
    for sig, fs in sorted(by_sig.items()):
        ctx.violation(sig, {"count": len(fs), "first": fs[0], "more": fs[1:4], "world": world})


def run_union(ctx):
    cfg = ctx.pick("TypeUnion_q", "TypeUnion_t")
    res = vlib.tlc("TypeUnion", cfg, workers=ctx.pick(4, 8), timeout=ctx.pick(900, 3000), extra=("-continue",))
    ctx.add_tlc(res)
    if res.violated not in (None, "FastPathAgrees"):
        raise vlib.ToolError("TypeUnion violates %s:\n%s" % (res.violated, res.trace_text[:2000]))
    world = [c for t, c in res.json if t == "WORLD"][0]
    uni = [c for t, c in res.json if t == "UNIVERSE"][0]
    cases = [c for t, c in res.json if t == "CASE"]
    if len(cases) != res.distinct:
        raise vlib.ToolError("case extraction lost cases: %d printed, %d distinct states" % (len(cases), res.distinct))
    for i, c in enumerate(cases):
        c["id"] = i
    path = _typealg.write_cases(ctx, "union.ndjson", {"prelude": _typealg.prelude(world), "universe": uni},
                                [{"id": c["id"], "b": c["b"]} for c in cases])
    out, summary = _typealg.run_harness("union", path, ctx.pick(900, 3000))
    # the universe really is what the spec says it is (else the batches are not the spec's batches)
    for o in out:
        if "atom" in o:
            exp = uni[o["atom"]]["val"]
            if norm(o["desc"]) != norm(exp) and not (exp["k"] == "a" and o["desc"]["k"] == "a"):
                raise vlib.ToolError("universe element %s built as %s, spec says %s" % (o["atom"], o["desc"], exp))
    results = {o["id"]: o for o in out if "id" in o}
    if len(results) != len(cases):
        raise vlib.ToolError("union replay lost cases")
    model_disagree = 0
    conform = 0
    by_sig = {}
    for c in cases:
        r = results[c["id"]]
        ctx.count(("union",) + tuple(c["b"]), nontrivial=len(c["b"]) >= 2)
        variants = sorted(set(uni[n]["eqc"] for n in c["b"]))
        if "panic" in r:
            by_sig.setdefault("C16/union/panic", []).append({"batch": c["b"], "panic": r["panic"]})
            continue
        if not c["agree"]:
            model_disagree += 1
            if r["eq"]:
                ctx.divergence("TLC: FastPathAgrees violated by batch %s in the transcription, but the real union_all and "
                               "fold agree" % c["b"])
        if not r["eq"]:
            # the property itself, observed on the real code
            dup = [n for n in c["b"] if uni[n]["eqc"] != n or any(uni[m]["eqc"] == n and m != n for m in c["b"])]
            if dup:
                sig = "C16/union/batch-vs-fold/equal-members-in-distinct-arcs/" + "+".join(sorted(set(uni[n]["eqc"] for n in dup)))
            else:
                sig = "C16/union/batch-vs-fold/" + "+".join(variants)
            by_sig.setdefault(sig, []).append({
                "batch": c["b"], "sources": [uni[n]["src"] for n in c["b"]],
                "expected": "TypeOps::union_all(batch) == fold of TypeOps::Union.apply",
                "observed_union_all": r["all"], "observed_fold": r["fold"],
                "model_union_all": c["all"], "model_fold": c["fold"], "model_agrees": c["agree"]})
        # conformance of the transcription: both real results are the ones the model computes
        if norm(r["all"]) == norm(c["all"]) and norm(r["fold"]) == norm(c["fold"]):
            conform += 1
        elif len(ctx.divergences) < 40:
            ctx.divergence("TypeUnion does not explain batch %s: model all=%s fold=%s, real all=%s fold=%s" % (
                c["b"], c["all"], c["fold"], r["all"], r["fold"]))
    ctx.validated(conform)
    ctx.note("union_batches", len(cases))
    ctx.note("union_batches_on_fast_path", sum(1 for c in cases if c["fast"]))
    ctx.note("union_batches_model_conformant", conform)
    ctx.note("union_model_disagreements", model_disagree)
    rnd = random.Random(ctx.seed + 1)
    for c in rnd.sample(cases, min(4, len(cases))):
        ctx.sample({"batch": c["b"], "model_union_all": c["all"], "model_fold": c["fold"], "fast_path": c["fast"]})
    for sig, fs in sorted(by_sig.items()):
        fs.sort(key=lambda f: len(f["batch"]))
        ctx.violation(sig, {"count": len(fs), "first": fs[0], "more": fs[1:4], "world": world})


def run(ctx):
    vlib.build(["vh-analysis"])
    run_laws(ctx)
    run_union(ctx)
    ctx.rule("law instances (refl/top/member/ancestor) over spec-enumerated annotation types of depth <= 2 plus union "
             "batches of length <= MaxLen over the named universe; distinct = distinct (law, expected, value) triples "
             "and distinct batches; non-trivial = a constructed (non-atomic) type is involved / batch length >= 2")
    ctx.assume("annotation types are built with `---@type T` on a local in a VirtualWorkspace; plain `table` is read from `[table]` "
               "because `---@type table` denotes a table instance")
    ctx.assume("TypeUnion models Hash/== of LuaType as described in its header; Signature-typed callables are not in the universe")
