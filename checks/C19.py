"""C19: suppression comments affect exactly their scope. DiagRules.tla layouts (rows, blocks, one suppression
comment, diagnostics at column 0 / indented) with the expected reported/suppressed bit of every diagnostic row,
replayed through the real diagnose_file with the comment and with the comment neutralised."""
import os
import random
import sys

sys.path.insert(0, os.path.dirname(__file__))
import _diag  # noqa: E402
import vlib  # noqa: E402

PROBES = [
    ("Overlap", "---@diagnostic disable-next-line: undefined-global\nfoo()\nfoo()\n", (2, 0, "undefined-global"),
     {False: '"touching"', True: '"proper"'}),
    ("EmptyBlockOwner", "foo()\ndo\n---@diagnostic disable\nend\n", (0, 0, "undefined-global"),
     {False: '"parent"', True: '"self"'}),
]


def mine(ctx):
    out = _diag.run_diag(ctx, [_diag.one_file_case(i, p[1]) for i, p in enumerate(PROBES)], "probes")
    mined = {}
    for i, (name, _, key, table) in enumerate(PROBES):
        rep = _diag.reported(out[i]) if "results" in out[i] else None
        if rep is not None:
            mined[name] = table[key in rep]
    return mined


def jobs_for(ctx):
    if ctx.quick:
        return [("DiagRules_q", dict(workers=4, timeout=600)),
                ("DiagRules_q2", dict(workers=4, timeout=600)),      # the two-comment family (every 2nd layout)
                ("DiagRules_qs", dict(workers=1, timeout=600, simulate="num=400", depth=8, seed=ctx.seed))]
    return [("DiagRules_t", dict(workers=6, timeout=1200)),
            ("DiagRules_t2", dict(workers=6, timeout=1200)),
            ("DiagRules_ts", dict(workers=1, timeout=1800, simulate="num=4000", depth=8, seed=ctx.seed))]


def signature(rows, r, kf, suppressed, coded=0):
    cs = [i for i, x in enumerate(rows, start=1) if x["cm"]]
    if len(cs) > 1:
        if kf and suppressed and coded == 1:
            # the known comment-only-block mechanism (the transcription with the mined owner block explains it)
            return "C19/block/comment-only-block/leaks-to-parent"
        # two-comment family: the kinds of the comments in writing order, where the diagnostic lies relative to them
        rel = "before" if r < cs[0] else "after" if r > cs[-1] else "at" if r in cs else "between"
        return "C19/two-comments/%s/diagnostic-%s/%s" % (
            "+".join(rows[i - 1]["cm"]["kind"] + ("" if rows[i - 1]["cm"]["codes"] != "all" else "-all") for i in cs), rel,
            "wrongly-suppressed" if suppressed else "wrongly-reported")
    c = cs[0]
    cm = rows[c - 1]["cm"]
    where = "inline" if rows[c - 1]["k"] != "C" else "own-line"
    verdict = "wrongly-suppressed" if suppressed else "wrongly-reported"
    if cm["codes"] in ("U", "XU"):  # code lists with a name that is no diagnostic code: a mechanism of their own
        verdict = "codes=%s/%s" % ({"U": "unknown-only", "XU": "known+unknown"}[cm["codes"]], verdict)
    if cm["kind"] == "block":
        if kf and suppressed:
            return "C19/block/comment-only-block/leaks-to-parent"
        return "C19/block/%s/codes=%s/%s" % (where, "list" if cm["codes"] != "all" else "all", verdict)
    rel = r - c
    multi = "+doc" if (cm["pre"] or cm["post"]) else ""
    return "C19/%s/%s%s/row%+d/col=%d/%s" % (cm["kind"], where, multi, rel, rows[r - 1]["ind"], verdict)


def replay(ctx):
    import json
    rec = json.load(open(ctx.replay))
    d = rec["detail"]["first"]
    out = _diag.run_diag(ctx, [_diag.one_file_case(0, d["program"])], "replay")
    rep = _diag.reported(out[0]) if "results" in out[0] else None
    key = (d["diagnostic"]["line"], d["diagnostic"]["character"], d["diagnostic"]["code"])
    observed = "suppressed" if rep is not None and key not in rep else "reported"
    ctx.count(d["program"])
    if observed != d["expected"]:
        ctx.violation(rec["signature"], {"count": 1, "first": dict(d, observed=observed), "more": []})


def run(ctx):
    vlib.build(["vh-analysis"])
    if ctx.replay:
        return replay(ctx)
    mined = mine(ctx)
    ctx.note("mined_constants", mined)
    if len(mined) != len(PROBES):
        raise vlib.ToolError("parameter mining failed: %r" % (mined,))
    layouts, seen, agree_cex = [], set(), []
    for n, (cfg, kw) in enumerate(jobs_for(ctx)):
        consts = dict(mined)
        res = _diag.run_tlc(ctx, "DiagRules", cfg, consts, "m%d" % n, **kw)
        if res.violated == "CodedEqStated":
            agree_cex.append({"cfg": cfg, "trace": res.trace_text[:3000]})
            ctx.add_tlc(res)
            consts["CheckAgree"] = "FALSE"
            res = _diag.run_tlc(ctx, "DiagRules", cfg, consts, "n%d" % n, **kw)
        if res.violated:
            raise vlib.ToolError("DiagRules.tla: %s\n%s" % (res.violated, res.trace_text[:3000]))
        ctx.add_tlc(res)
        for tag, c in res.json:
            if tag == "CASE":
                key = repr(c["rows"])
                if key not in seen:
                    seen.add(key)
                    layouts.append(c)
    ctx.note("tlc_coded_vs_stated_violations", len(agree_cex))
    if agree_cex:
        ctx.note("tlc_counterexample", agree_cex[0])
    cases, meta = [], []
    for i, c in enumerate(layouts):
        rows = _diag.unpack_rows(c["rows"])
        text, where = _diag.render_layout(rows, True)
        base, _ = _diag.render_layout(rows, False)
        cases.append(_diag.one_file_case(2 * i, text))
        cases.append(_diag.one_file_case(2 * i + 1, base))
        exp = [(int(e[0]), int(e[1]), int(e[2])) for e in c["exp"]]
        if i == 0 and os.environ.get("VERIF_SELFTEST") == "corrupt-expected":
            exp[0] = (exp[0][0], 1 - exp[0][1], exp[0][2])
        meta.append((rows, text, where, exp, bool(c["kf"])))
    out = _diag.run_diag(ctx, cases, timeout=ctx.pick(900, 3000))
    viol, div, panics = {}, {}, 0
    for i, (rows, text, where, exp, kf) in enumerate(meta):
        live, base = out[2 * i], out[2 * i + 1]
        if "panic" in live or "panic" in base:
            panics += 1
            ctx.violation("C12/panic/diagnose_file", {"program": text, "panic": live.get("panic") or base.get("panic")})
            continue
        lrep, brep = _diag.reported(live), _diag.reported(base)
        if lrep is None or brep is None:
            raise vlib.ToolError("diagnose_file returned None for a main-workspace file: %r" % text)
        nontrivial = False
        for r, stated, coded in exp:
            row = rows[r - 1]
            key = (where[r], row["ind"], _diag.CODE_NAME[row["k"]])
            if key not in brep:
                # the layout does not produce the diagnostic even without the comment: not judged
                ctx.divergence("baseline diagnostic missing at %r in %r" % (key, text))
                continue
            suppressed = key not in lrep
            nontrivial = nontrivial or stated == 1
            if suppressed != (stated == 1):
                sig = signature(rows, r, kf, suppressed, coded)
                viol.setdefault(sig, []).append({"program": text, "diagnostic": {"line": key[0], "character": key[1], "code": key[2]},
                                                 "expected": "suppressed" if stated else "reported",
                                                 "observed": "suppressed" if suppressed else "reported",
                                                 "spec_waiver_KF_CommentOnlyBlock": kf})
            if suppressed != (coded == 1):
                k = signature(rows, r, kf, suppressed).replace("C19/", "coded/")
                div.setdefault(k, []).append(text)
        # nothing but the placed diagnostics may differ between the two runs
        extra = {k for k in (brep - lrep) if k[2] not in _diag.CODE_NAME.values()}
        if extra:
            ctx.divergence("comment changes unrelated diagnostics %r in %r" % (sorted(extra), text))
        ctx.count(text, n=len(exp), nontrivial=nontrivial)
    ctx.validated(len(meta) - panics)
    ctx.note("layouts", len(meta))
    ctx.rule("distinct layouts (rows of diagnostics X=undefined-global / Y=deprecated at column 0 or 2, do/end blocks, blank rows, "
             "one suppression comment of kind next/line/block x code list all/X/Y/U/XU, inline or own-line, with optional doc lines; "
             "second family: exactly two comments of any kinds x all/X/Y, X diagnostics at column 0) "
             "emitted by TLC with the expected bit per diagnostic row; each replayed with the live and the neutralised comment; "
             "non-trivial = at least one diagnostic expected to be suppressed")
    ctx.assume("row reading of the property text as in DiagRules!Stated (an inline comment does not cover code before it for "
               "disable-next-line; disable-line covers its whole line)")
    rnd = random.Random(ctx.seed)
    for m in rnd.sample(meta, min(4, len(meta))):
        ctx.sample({"program": m[1], "expected[row,suppressed,coded]": m[3]})
    for k, texts in sorted(div.items()):
        ctx.divergence("transcription (mined constants) does not explain the code: %s, %d diagnostics, e.g. %r" % (k, len(texts), texts[0]))
    for sig, fs in sorted(viol.items()):
        ctx.violation(sig, {"count": len(fs), "first": fs[0], "more": fs[1:3]})
