"""C35: the JSON documentation export is complete, duplicate-free, main-workspace only and reproducible.

1. TLC model-checks spec/DocExport.tla: with an exporter that sorts, two runs are identical (Reproducible) and
   every list holds each expected entry exactly once; with an exporter that emits its hash-map order the same
   invariant is violated (vacuity guard: byte identity requires sorting).
2. TLC enumerates the workspaces (files = subsets of the snippet alphabet, incl. a library root) with the
   expected type / global / module name sets.
3. A seeded stratified sample is exported by the real `emmylua_doc_cli -f json -o stdout` in K fresh processes
   each; the K outputs must be byte-identical and the name multisets must equal the spec's sets.
"""
import collections
import concurrent.futures
import hashlib
import json
import os
import random
import subprocess
import sys

sys.path.insert(0, os.path.dirname(__file__))
import vlib  # noqa: E402
import _repobins  # noqa: E402

FILES = {"a": "a.lua", "b": "b.lua", "c": os.path.join("sub", "c.lua"), "l": os.path.join("lib", "l.lua")}
ORDER = ["CF", "CB", "EN", "AL", "LC", "PH", "PE", "PA", "GA", "GT", "LG"]


def snippet(s, f):
    return {
        "CF": "---@class Foo\n---@field fld_%s integer\n" % f,
        "CB": "---@class Bar: Foo\n---@field bar_%s string\n" % f,
        "EN": "---@enum Color\nlocal Color_%s = { Red = 1, Green = 2 }\n" % f,
        "AL": "---@alias MyId string|integer\n",
        "LC": "---@class LibCls\n---@field lib_%s integer\n" % f,
        "GA": "GlobA = 1\n",
        "GT": "GlobT = { k = 1 }\n",
        "LG": "LibGlob = 1\n",
        # file-scoped types: each declaring file has a type of its own with this name
        "PH": "---@class (private) Helper\n---@field hlp_%s integer\n" % f,
        "PE": "---@enum (private) Mode\nlocal Mode_%s = { On = 1, Off = 2 }\n" % f,
        "PA": "---@alias (private) Key string\n",
    }[s]


def file_text(f, content):
    parts = [snippet(s, f) for s in ORDER if s in content]
    parts.append("local M = {}\nreturn M\n")
    return "\n".join(parts)


def materialise(case, root):
    for f, rel in FILES.items():
        p = os.path.join(root, rel)
        os.makedirs(os.path.dirname(p), exist_ok=True)
        with open(p, "w") as fo:
            fo.write(file_text(f, case["ws"][f]))
    with open(os.path.join(root, ".emmyrc.json"), "w") as fo:
        json.dump({"workspace": {"library": ["lib"]}}, fo)


def export_once(binary, root, cwd):
    try:
        p = subprocess.run([binary, root, "-f", "json", "-o", "stdout"], stdout=subprocess.PIPE, stderr=subprocess.PIPE,
                           timeout=180, cwd=cwd)
    except subprocess.TimeoutExpired:
        return {"hang": True}
    return {"rc": p.returncode, "out": p.stdout, "err": p.stderr[-1500:].decode("utf-8", "replace")}


def names_of(doc):
    return {
        "types": [(t.get("type"), t.get("name")) for t in doc.get("types", [])],
        "globals": [g.get("name") for g in doc.get("globals", [])],
        "modules": [m.get("name") for m in doc.get("modules", [])],
    }


def canon(doc):
    """The document with its three top-level lists sorted: equal canon + different bytes => pure order effect."""
    d = dict(doc)
    for k in ("types", "globals", "modules"):
        d[k] = sorted(doc.get(k, []), key=lambda x: json.dumps(x, sort_keys=True))
    return json.dumps(d, sort_keys=True)


def judge(case, runs):
    bad = []
    docs = []
    for r in runs:
        if r.get("hang"):
            return [("hang", "no exit within 180 s")]
        if r["rc"] != 0:
            return [("exit-status", {"rc": r["rc"], "stderr": r["err"]})]
        try:
            docs.append(json.loads(r["out"].decode("utf-8")))
        except Exception as e:
            return [("unparsable-json", str(e))]
    # ---- reproducibility: bytes of K fresh processes
    digests = [hashlib.md5(r["out"]).hexdigest() for r in runs]
    if len(set(digests)) > 1:
        differing = [k for k in ("types", "globals", "modules")
                     if len({json.dumps(d.get(k)) for d in docs}) > 1]
        other = len({json.dumps({k: v for k, v in d.items() if k not in ("types", "globals", "modules")}) for d in docs}) > 1
        if len({canon(d) for d in docs}) == 1:
            kind = "bytes-differ/list-order/" + "+".join(differing)
        else:
            kind = "bytes-differ/content/" + "+".join(differing + (["other"] if other else []))
        bad.append((kind, {"md5": digests,
                           "orders": [{k: names_of(d)[k] for k in differing} for d in docs[:4]]}))
    # ---- completeness / uniqueness / main-workspace only, judged on every run
    exp = {"types": [tuple(t) for t in case["types"]], "globals": list(case["globals"]), "modules": list(case["modules"])}
    libonly = set(case["libonly"])
    seen = set()
    for d in docs:
        got = names_of(d)
        for k in ("types", "globals", "modules"):
            g = collections.Counter(got[k])
            e = collections.Counter(exp[k])
            for name in sorted(set(g) | set(e), key=str):
                nm = name[1] if isinstance(name, tuple) else name
                if g[name] == e[name]:
                    continue
                if e[name] == 0:
                    kind = "%s/library-leak" % k if nm in libonly else "%s/not-declared-in-main" % k
                elif k == "types" and list(name) in case.get("samenamed", []) and g[name] < e[name]:
                    # same-named file-scoped types of different files are different declared types
                    kind = "types/missing/same-named-file-scoped/%s" % name[0]
                elif g[name] == 0:
                    kind = "%s/missing" % k
                    if k == "types" and list(name) in case["shared"]:
                        kind = "types/missing/also-declared-in-library/%s" % name[0]
                elif k == "globals" and nm in case["multiglobal"]:
                    kind = "globals/listed-once-per-declaring-file"
                else:
                    kind = "%s/listed-%d-times" % (k, g[name])
                if kind not in seen:
                    seen.add(kind)
                    bad.append((kind, {"list": k, "name": name, "listed": g[name], "expected": e[name]}))
    return bad


def sample(cases, n, rnd):
    groups = {}
    for c in cases:
        key = (c["split"], bool(c["multiglobal"]), bool(c["libonly"]), len(c["types"]) >= 3, len(c["globals"]) >= 2,
               bool(c["shared"]))
        groups.setdefault(key, []).append(c)
    order = sorted(groups)
    for g in order:
        rnd.shuffle(groups[g])
    chosen = []
    i = 0
    while len(chosen) < n and any(groups[g] for g in order):
        g = order[i % len(order)]
        i += 1
        if groups[g]:
            chosen.append(groups[g].pop())
    return chosen


def shared_cases(cases, rnd, per_kind):
    """(strengthened after seeded review) Workspaces in which a class / enum / alias is declared in the library
    root AND in the main workspace, i.e. where the spec's `lost_if_first_loc` (what an exporter that looks at the
    first recorded location only would lose under the loader's lib-first order) is not empty: `per_kind` per kind,
    plus one in which all three kinds are shared at once."""
    chosen = []
    for kind in ("class", "enum", "alias"):
        pool = [c for c in cases if any(t[0] == kind for t in c["lost_if_first_loc"]["lib-first"])]
        if not pool:
            raise vlib.ToolError("DocExport alphabet has no %s declared in both the library root and the main workspace" % kind)
        # the smallest witnesses first (only this type shared), then arbitrary ones
        pool.sort(key=lambda c: (len(c["shared"]), json.dumps(c, sort_keys=True)))
        lone = [c for c in pool if len(c["shared"]) == 1]
        chosen.append(lone[rnd.randrange(len(lone))] if lone else pool[0])
        for _ in range(per_kind - 1):
            chosen.append(pool[rnd.randrange(len(pool))])
    full = [c for c in cases if {t[0] for t in c["shared"]} >= {"class", "enum", "alias"}]
    if full:
        chosen.append(full[rnd.randrange(len(full))])
    return chosen


def run(ctx):
    # ---- 1. order model ---------------------------------------------------------------------------------
    res = vlib.tlc("DocExport", "DocExport_sorted", workers=2, timeout=600)
    ctx.add_tlc(res)
    if res.violated:
        raise vlib.ToolError("DocExport (sorting exporter) violates %s:\n%s" % (res.violated, res.trace_text[:2000]))
    uns = vlib.tlc("DocExport", "DocExport_unsorted", workers=2, timeout=600)
    if uns.violated != "Reproducible":
        raise vlib.ToolError("vacuity guard: the unsorted exporter model should violate Reproducible, got %r" % uns.violated)
    ctx.note("model_unsorted_exporter", "Reproducible violated (as it must be)")
    fl = vlib.tlc("DocExport", "DocExport_firstloc", workers=2, timeout=600)
    if fl.violated != "FirstLocIsReference":
        raise vlib.ToolError("vacuity guard: the alphabet should separate 'some location is main' from 'first location is "
                             "main' (types shared with the library root), got %r" % fl.violated)
    ctx.note("model_first_location_exporter", "FirstLocIsReference violated (as it must be)")
    # ---- 2. workspaces ------------------------------------------------------------------------------------
    res = vlib.tlc("DocExport", ctx.pick("DocExport_q", "DocExport_t"), workers=ctx.pick(4, 8), timeout=ctx.pick(600, 1800))
    ctx.add_tlc(res)
    if res.violated:
        raise vlib.ToolError("DocExport case enumeration: %s" % res.violated)
    cases = [c for tag, c in res.json if tag == "CASE"]
    if len(cases) != res.distinct:
        raise vlib.ToolError("case extraction lost cases: %d printed, %d distinct" % (len(cases), res.distinct))
    cases.sort(key=lambda c: json.dumps(c, sort_keys=True))
    ctx.note("workspaces_enumerated", len(cases))
    rnd = random.Random(ctx.seed)
    chosen = sample(cases, ctx.pick(12, 80), rnd)
    have = {json.dumps(c["ws"], sort_keys=True) for c in chosen}
    extra = [c for c in shared_cases(cases, rnd, ctx.pick(1, 6))]
    for c in extra:
        k = json.dumps(c["ws"], sort_keys=True)
        if k not in have:
            have.add(k)
            chosen.append(c)
    ctx.note("workspaces_with_type_shared_with_library", sum(1 for c in chosen if c["shared"]))
    # (second seeded round) file-scoped types: `(private)` classes / enums / aliases with the same name in several files
    bn = vlib.tlc("DocExport", "DocExport_byname", workers=2, timeout=600)
    if bn.violated != "KeyedByNameLosesNothing":
        raise vlib.ToolError("vacuity guard: the alphabet should contain two main-workspace types with the same name "
                             "(file-scoped), got %r" % bn.violated)
    ctx.note("model_exporter_keyed_by_name", "KeyedByNameLosesNothing violated (as it must be)")
    pres = vlib.tlc("DocExport", "DocExport_priv", workers=ctx.pick(2, 4), timeout=600)
    ctx.add_tlc(pres)
    if pres.violated:
        raise vlib.ToolError("DocExport (file-scoped types) enumeration: %s" % pres.violated)
    pcases = sorted((c for tag, c in pres.json if tag == "CASE"), key=lambda c: json.dumps(c, sort_keys=True))
    ctx.note("workspaces_enumerated_file_scoped", len(pcases))
    padd = []
    for kind in ("class", "enum", "alias"):
        pool = [c for c in pcases if any(t[0] == kind for t in c["samenamed"])]
        if not pool:
            raise vlib.ToolError("DocExport_priv has no same-named file-scoped %s in two main files" % kind)
        lone = [c for c in pool if len(c["samenamed"]) == 1 and len(c["types"]) == 2]
        padd.append(lone[rnd.randrange(len(lone))] if lone else pool[0])
        for _ in range(ctx.pick(1, 5)):
            padd.append(pool[rnd.randrange(len(pool))])
    # a file-scoped type of a main file next to a same-named one of the library root (only the main one is listed)
    pool = [c for c in pcases if not c["samenamed"] and "Helper" in c["libonly"] and ["class", "Helper"] in c["types"]]
    if pool:
        padd.append(pool[rnd.randrange(len(pool))])
    for c in padd:
        k = json.dumps(c["ws"], sort_keys=True)
        if k not in have:
            have.add(k)
            chosen.append(c)
    ctx.note("workspaces_with_same_named_file_scoped_types", sum(1 for c in chosen if c.get("samenamed")))
    runs_per_ws = ctx.pick(4, 8)
    # ---- 3. replay ------------------------------------------------------------------------------------------
    binary = _repobins.build(["emmylua_doc_cli"])["emmylua_doc_cli"]
    jobs = []
    for i, c in enumerate(chosen):
        cdir = os.path.join(ctx.work, "ws%04d" % i)
        root = os.path.join(cdir, "ws")
        materialise(c, root)
        for k in range(runs_per_ws):
            jobs.append((i, root, cdir))
    with concurrent.futures.ThreadPoolExecutor(max_workers=ctx.pick(4, 8)) as ex:
        outs = list(ex.map(lambda j: (j[0], export_once(binary, j[1], j[2])), jobs))
    by_ws = collections.defaultdict(list)
    for i, o in outs:
        by_ws[i].append(o)
    seen = {}
    for i, c in enumerate(chosen):
        runs = by_ws[i]
        nontrivial = len(c["types"]) + len(c["globals"]) >= 3
        ctx.count(json.dumps(c["ws"], sort_keys=True), n=len(runs), nontrivial=nontrivial)
        bad = judge(c, runs)
        if not bad:
            ctx.validated(len(runs))
        for kind, info in bad:
            seen.setdefault("C35/" + kind, []).append({
                "ws": c["ws"], "files": {FILES[f]: file_text(f, c["ws"][f]) for f in FILES},
                "command": "emmylua_doc_cli <ws> -f json -o stdout (x%d fresh processes)" % len(runs),
                "expected": {"types": c["types"], "globals": c["globals"], "modules": c["modules"],
                             "absent(library only)": c["libonly"]},
                "problem": info})
        if i < 4:
            ctx.sample({"ws": c["ws"], "expected_types": c["types"], "expected_globals": c["globals"],
                        "expected_modules": c["modules"], "md5_of_runs": [hashlib.md5(r.get("out", b"")).hexdigest() for r in runs]})
    ctx.rule("workspaces = every assignment of snippet subsets to a.lua, b.lua, sub/c.lua and the library file, enumerated "
             "by TLC with the expected type/global/module name sets; a seeded sample stratified over (split class, "
             "multi-file global, library-only names, >= 3 types, >= 2 globals, type shared with the library root) plus, "
             "for each kind class/enum/alias, workspaces that declare the type in the library root AND in a main file "
             "and workspaces in which two or three main files each declare a file-scoped `(private)` class / enum / alias "
             "of the same name (each is a declared type of its own: one entry per declaring file) "
             "is exported K times in fresh processes; "
             "evaluation = one export run; non-trivial = workspace with >= 3 exported types+globals (>= 6 orders)")
    ctx.assume("a global assigned in several main files, a class split over several files and an alias declared twice are "
               "each ONE entity (property text: 'exactly once')")
    ctx.assume("every generated file returns a value; modules without a return value are skipped by the exporter and not judged")
    for sig, items in sorted(seen.items()):
        ctx.violation(sig, {"count": len(items), "first": items[0], "more": items[1:3]})
