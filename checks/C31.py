import os, sys
sys.path.insert(0, os.path.dirname(__file__))
import _config


def run(ctx):
    _config.pinned_selftest(ctx, "ConfigMerge", "ConfigMerge_pinned", "NoCrash")
    _config.pinned_selftest(ctx, "ConfigPath", "ConfigPath_pinned", "NoCrash")
    n_merge = _config.run_merge(ctx, "C31")
    n_path = _config.run_paths(ctx)
    ctx.cov["exhaustive"] = True
    ctx.rule("TLC enumerates (a) every list of config files within the weight bound over the key alphabet "
             "{a, a.b, a.c, a.b.c} (and the sibling keys a, ab, a.b, a.bb) in every flat/nested spelling, leaves {1, 2, [1], [1,2]}, plus empty, malformed, "
             "missing and non-object files (%d abstract cases, each written as real files in three concrete forms: "
             "abstract keys, real workspace.* keys, one file as .emmyrc.lua) and (b) every path string of the token "
             "bound over {~ / . a $ { } 2-byte-char workspaceFolder} (%d paths, each placed in workspaceRoots, library "
             "(string and object form), ignoreDir and resource.paths); every case is loaded by load_configs_raw, "
             "load_configs and pre_process_emmyrc under catch_unwind; non-trivial = weight >= 2 / length >= 2"
             % (n_merge, n_path))
    ctx.assume("serde_json::Map is a BTreeMap (no preserve_order feature in Cargo.lock), so objects iterate in key order")
    ctx.assume("environment of the replay: HOME=/home/u, a=/e, no luarocks on PATH")
