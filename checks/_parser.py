"""Shared driver code of the parser checks C01 (lossless trees), C02 (crash/progress), C03 (valid Lua).

TLA+ modules: GreenBuilder (builder transcription + design check), TokenSoup (input generator/oracle),
ParserTrace (trace validation of recorded parses), LuaGrammar (C03), NestMatrix (C02).
Harness: harness/vh-parser/src/bin/vh_parse.rs, vh_nest.rs.
"""
import concurrent.futures
import json
import os
import random

import vlib

LEVELS = ["Lua51", "LuaJIT2", "LuaJIT", "LuaJIT3", "Lua52", "Lua53", "Lua54", "Lua55"]


def write_ndjson(path, rows):
    with open(path, "w") as f:
        for r in rows:
            f.write(json.dumps(r) + "\n")


def run_chunks(ctx, mode, rows, name, chunk, par, timeout):
    """Run `vh_parse <mode>` over rows split in chunks, `par` processes at a time; returns stdout objects."""
    paths = []
    for i in range(0, len(rows), chunk):
        p = os.path.join(ctx.work, "%s_%d.ndjson" % (name, i // chunk))
        write_ndjson(p, rows[i:i + chunk])
        paths.append(p)
    out = []

    def limit():
        # a non-terminating parse allocates without bound: cap the address space of the harness process
        import resource
        resource.setrlimit(resource.RLIMIT_AS, (8 << 30, 8 << 30))

    def one(p):
        import subprocess
        try:
            r = subprocess.run([vlib.bin_path("vh_parse"), mode, p], stdout=subprocess.PIPE, stderr=subprocess.PIPE,
                               text=True, errors="replace", timeout=timeout, preexec_fn=limit)
        except subprocess.TimeoutExpired as ex:
            raise vlib.ToolError("vh_parse %s timed out after %ss" % (mode, timeout)) from ex
        objs = vlib.ndjson(r.stdout)
        if r.returncode != 0:
            # the process died (abort, memory limit): an observation about the code under test, not a tool error
            objs.append({"fail": "died", "rc": r.returncode, "chunk": p, "stderr": r.stderr[-400:]})
        return objs

    with concurrent.futures.ThreadPoolExecutor(max_workers=par) as ex:
        for objs in ex.map(one, paths):
            out.extend(objs)
    return out


# ------------------------------------------------------------------------------------------------
# GreenBuilder design check (C01)
# ------------------------------------------------------------------------------------------------
def green_builder_design_check(ctx):
    res = vlib.tlc("GreenBuilder", ctx.pick("GreenBuilder_q", "GreenBuilder_t"), workers=4,
                   timeout=ctx.pick(600, 2400))
    ctx.add_tlc(res)
    if res.violated:
        # the transcribed builder drops tokens on a well-formed stream that meets its preconditions:
        # a design-level finding about lua_green_builder.rs as transcribed
        raise vlib.ToolError("GreenBuilder: Safe violated by the transcription itself:\n" + res.trace_text[:3000])
    ctx.note("green_builder_design_states", res.distinct)
    refuted = {}
    for cfg, inv in (("GreenBuilder_neg1", "NeedsNoEarlyReturn"), ("GreenBuilder_neg2", "NeedsNoCrossing"),
                     ("GreenBuilder_neg3", "NeedsWellFormed")):
        r = vlib.tlc("GreenBuilder", cfg, workers=1, timeout=600)
        ctx.add_tlc(r)
        if r.violated != inv:
            raise vlib.ToolError("GreenBuilder self-check: %s should be refuted by TLC (precondition is needed), "
                                 "got %r" % (inv, r.violated))
        refuted[inv] = True
    ctx.note("green_builder_preconditions_shown_necessary", sorted(refuted))


# ------------------------------------------------------------------------------------------------
# TokenSoup cases
# ------------------------------------------------------------------------------------------------
def soup_cases(ctx):
    res = vlib.tlc("TokenSoup", ctx.pick("TokenSoup_q", "TokenSoup_t"), workers=ctx.pick(2, 4), seed=ctx.seed,
                   timeout=ctx.pick(600, 2400), xmx="6g")
    ctx.add_tlc(res)
    if res.violated:
        raise vlib.ToolError("TokenSoup: unexpected TLC verdict %s" % res.violated)
    batches = [c for tag, c in res.json if tag == "CASES"]
    if len(batches) != res.distinct:
        raise vlib.ToolError("TokenSoup: %d batches printed, %d distinct states" % (len(batches), res.distinct))
    seen = set()
    cases = []
    for b in batches:
        for c in b:
            k = tuple(c["l"])
            if k not in seen:
                seen.add(k)
                cases.append(c)
    cases.sort(key=lambda c: (len(c["l"]), c["l"]))
    return cases


LEX_CLASS = {
    "<NUL>": "nul", "<BOM>": "bom", "<NL>": "eol", "<CR>": "eol", "<SP>": "ws", "<TAB>": "ws", "<EACUTE>": "nonascii",
    "--region": "cmt-region", "--endregion": "cmt-region", "--": "cmt", "--[[": "cmt-long",
    "do": "kw-block", "end": "kw-block", "then": "kw-block", "until": "kw-block", "else": "kw-block",
}


def lex_class(x):
    if x in LEX_CLASS:
        return LEX_CLASS[x]
    if x.startswith("---"):
        return "cmt-doc"
    if x[:1].isalpha():
        return "word"
    return "punct"


def soup_signature(f):
    """Mechanism key of a lossy parse: violated invariant + class of the lexeme where the loss starts +
    the classes of the two lexemes before it (the 'token shape')."""
    if f["fail"] == "panic":
        return "C01/panic/" + "+".join(sorted({lex_class(x) for x in f["l"]}))
    obs = f["obs"]
    tile = (obs.get("tile") or {}).get("kind", "text-differs")
    # byte offset where tree text and input part
    at = obs.get("common_prefix", 0)
    pos = 0
    idx = len(f["l"])
    lens = f.get("lens")
    for i, x in enumerate(f["l"]):
        n = lens[i] if lens else len(x.encode())
        if pos + n > at:
            idx = i
            break
        pos += n
    shape = [lex_class(x) for x in f["l"][max(0, idx - 2):idx + 1]]
    if "<NUL>" in f["l"][:idx + 1]:
        return "C01/%s/nul" % tile
    return "C01/%s/%s" % (tile, ">".join(shape))


BYTES = {"<NUL>": 1, "<NL>": 1, "<CR>": 1, "<SP>": 1, "<TAB>": 1, "<DQUOTE>": 1, "<BSLASH>": 1, "<EACUTE>": 2,
         "<BOM>": 3, "<EMOJI>": 4}


def lexeme_lens(l):
    return [BYTES.get(x, len(x.encode())) for x in l]


# ------------------------------------------------------------------------------------------------
# trace validation (C01 builder binding, C02 progress)
# ------------------------------------------------------------------------------------------------
def record_and_validate(ctx, trace_cases, name="trace"):
    """Record the given cases with vh_parse trace, validate with ParserTrace.tla; returns (verdicts, panics, cases)."""
    path = os.path.join(ctx.work, name + "_cases.ndjson")
    write_ndjson(path, trace_cases)
    p = vlib.run_bin("vh_parse", ["trace", path], timeout=ctx.pick(600, 3000))
    tpath = os.path.join(ctx.work, name + ".ndjson")
    with open(tpath, "w") as f:
        f.write(p.stdout)
    nlines = p.stdout.count("\n")
    res = vlib.tlc("ParserTrace", ctx.pick("ParserTrace_q", "ParserTrace_t"), workers=1, dfs=True,
                   env={"TRACE": tpath}, timeout=ctx.pick(900, 3000), xmx="6g")
    ctx.add_tlc(res)
    if res.violated:
        raise vlib.ToolError("ParserTrace: trace file not consumed (%s); %d lines\n%s" % (
            res.violated, nlines, res.trace_text[-3000:]))
    verdicts = [v for tag, v in res.json if tag == "VERDICT"]
    panics = [v for tag, v in res.json if tag == "PANIC"]
    if len(verdicts) + len(panics) != len(trace_cases):
        raise vlib.ToolError("ParserTrace: %d verdicts for %d traces" % (len(verdicts) + len(panics), len(trace_cases)))
    return verdicts, panics, tpath


def pick_trace_cases(ctx, cases, n):
    rnd = random.Random(ctx.seed * 7919 + 11)
    pool = [c for c in cases if len(c["l"]) >= 2]
    chosen = rnd.sample(pool, min(n, len(pool)))
    out = []
    for c in chosen:
        out.append({"l": c["l"], "level": rnd.choice(LEVELS), "doc": rnd.random() < 0.75})
    return out


def trace_corruption_selftest(ctx, tpath):
    """Binding self-test: drop one NodeEnd and shift one EatToken range of a recorded good trace; ParserTrace must
    flag exactly those parses (I_bal / I_eat and predicted-tree equality)."""
    lines = []
    ntree = 0
    with open(tpath) as f:
        for line in f:
            lines.append(json.loads(line))
            if lines[-1]["e"] in ("Tree", "Panic"):
                ntree += 1
                if ntree == 2:
                    break
    if ntree < 2:
        return
    first_end = next((i for i, r in enumerate(lines) if r["e"] == "End"), None)
    second_reset = [i for i, r in enumerate(lines) if r["e"] == "Reset"][1]
    eat2 = next((i for i in range(second_reset, len(lines)) if lines[i]["e"] == "Eat"), None)
    if first_end is None or eat2 is None or first_end > second_reset:
        return
    bad = [dict(r) for r in lines]
    bad[eat2]["s"] += 1
    del bad[first_end]
    bpath = os.path.join(ctx.work, "trace_corrupt.ndjson")
    write_ndjson(bpath, bad)
    res = vlib.tlc("ParserTrace", "ParserTrace_q", workers=1, dfs=True, env={"TRACE": bpath}, timeout=600)
    v = sorted([x for tag, x in res.json if tag == "VERDICT"], key=lambda x: x["case"])
    if len(v) != 2 or v[0]["bal"] or v[1]["eat"]:
        raise vlib.ToolError("ParserTrace self-test: corrupted trace was not rejected: %r" % (v,))
    ctx.note("trace_corruption_selftest", "dropped NodeEnd -> I_bal false; shifted EatToken -> I_eat false")
