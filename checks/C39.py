"""C39: in-place formatting never leaves a truncated file.

Flow (DESIGN §6 C39):
  0. self-check of the file model on hand-written protocols (FsAtomicProto): in-place must violate,
     temp+fsync+rename must satisfy, temp+rename without fsync must violate under power loss only.
  1. record: the real `luafmt --write` runs under strace on small scenario directories; the syscalls
     that touch the scenario directory become the script of FsAtomic (env TRACE).
  2. TLC replays the recording with Kill / WriteFault composed after every prefix and prints, for every
     fault point, the predicted directory and the verdicts KillOk / PowerOk.
  3. every fault point (quick: all; thorough: all for small files, a seeded sample for the block files)
     is injected for real (strace inject=...:signal=KILL, inject=write:error=ENOSPC, RLIMIT_FSIZE with
     SIGXFSZ default/ignored); the directory is read back: the property is judged on the real files
     and the model's prediction is compared with what happened.
  4. the fault runs were recorded too: TLC validates them (incl. the directory read back = model state)
     and composes Kill/WriteFault again on top (double faults, model only).
"""
import json
import os
import random
import re
import shutil
import signal
import subprocess
import sys

sys.path.insert(0, os.path.dirname(__file__))
import _fmtbin  # noqa: E402
import vlib  # noqa: E402

SYSCALLS = ("open,openat,creat,write,pwrite64,writev,pwritev,pwritev2,close,rename,renameat,renameat2,unlink,"
            "unlinkat,fsync,fdatasync,ftruncate,truncate,link,linkat,symlink,symlinkat,copy_file_range,sendfile")
UNMODELLED = {"pwrite64", "writev", "pwritev", "pwritev2", "truncate", "link", "linkat", "symlink", "symlinkat",
              "copy_file_range", "sendfile"}
MISSING = [-1]


# --------------------------------------------------------------------------------------------
# scenarios
# --------------------------------------------------------------------------------------------
def scenarios(ctx):
    """hand-written base scenarios: name, files{name: bytes}, argv (relative to the scenario dir), unit size B"""
    messy1 = b"local  a=1\nlocal b   =  {1,2,}\n"
    messy2 = b"local   x = 'a'\nprint( x )\nlocal  t = {x,x,  x}\n"
    clean = b"local c = 1\n"
    broken = b"local = = 1\n"
    out = [
        ("one", {"a.lua": messy1}, ["--write", "a.lua"], 1),
        ("dir", {"a.lua": messy1, "b.lua": clean, "sub/c.lua": messy2, "d.lua": broken, "notes.txt": b"keep\n"},
         ["--write", "."], 1),
    ]
    if not ctx.quick:
        std = os.path.join(vlib.REPO, "crates/emmylua_code_analysis/resources/std/string.lua")
        big = open(std, "rb").read()
        # make sure it needs formatting
        big = b"local  zz=1\n" + big
        out.append(("abs", {"p/a.lua": messy2, "p/q/b.lua": messy1}, ["--write", "@ABS@/p/a.lua", "p/q"], 1))
        out.append(("big", {"big.lua": big, "a.lua": messy1}, ["--write", "big.lua", "a.lua"], 2048))
    return [{"name": n, "files": f, "argv": a, "B": B} for n, f, a, B in out] + tlc_scenarios(ctx)


def tlc_scenarios(ctx):
    """FsAtomicScn.tla: scenario directories composed of target-file classes (hard link, symlink, read-only file,
    read-only directory, empty, no trailing newline, several at once), with the expected fault-free outcome."""
    res = vlib.tlc("FsAtomicScn", ctx.pick("FsAtomicScn_q", "FsAtomicScn_t"), workers=1, timeout=300)
    ctx.add_tlc(res)
    scs = [o for tg, o in res.json if tg == "SCN"]
    if res.violated or len(scs) != res.distinct or not scs:
        raise vlib.ToolError("FsAtomicScn: %d scenarios printed for %d states (%s)" % (len(scs), res.distinct, res.violated))
    scs.sort(key=lambda o: (len(o["classes"]), o["classes"], o["argmode"]))
    out = []
    for o in scs:
        files, links, hard, ro, expect = {}, {}, {}, set(), {}
        for e in o["entries"]:
            files[e["name"]] = e["content"].encode("utf-8")
            expect[e["name"]] = e["expect"]
            if e["kind"] == "symlink":
                links[e["name"]] = e["to"]
            elif e["kind"] == "hard":
                hard[e["name"]] = e["to"]
            if e["ro"]:
                ro.add(e["name"])
        out.append({"name": "+".join(o["classes"]) + "/" + o["argmode"], "files": files, "argv": o["argv"], "B": 1,
                    "links": links, "hard": hard, "rofiles": ro, "rodirs": o["rodirs"], "expect": expect,
                    "mayfail": o["mayfail"], "classes": o["classes"]})
    ctx.note("target_class_scenarios_from_tlc", len(out))
    return out


UNPRIV = ["setpriv", "--reuid=65534", "--regid=65534", "--clear-groups"] if os.geteuid() == 0 else []


def to_units(b, B, table):
    if B == 1:
        return list(b)
    out = []
    for i in range(0, len(b), B):
        out.append(table.setdefault(b[i:i + B], 1000 + len(table)))
    return out


def materialise(root, files, scn=None):
    """files{name: bytes}; scn (optional) names the entries that are symlinks / second hard links / read-only and the
    read-only directories.  The tree is handed to the unprivileged user the tool runs as (permission bits matter)."""
    scn = scn or {}
    links, hard = scn.get("links", {}), scn.get("hard", {})
    if os.path.isdir(root):
        for d, _, _ in os.walk(root):
            os.chmod(d, 0o755)
    shutil.rmtree(root, ignore_errors=True)
    os.makedirs(root)
    for n, c in files.items():
        p = os.path.join(root, n)
        os.makedirs(os.path.dirname(p), exist_ok=True)
        if n in links or n in hard:
            continue
        with open(p, "wb") as f:
            f.write(c)
    for n, to in hard.items():
        os.link(os.path.join(root, to), os.path.join(root, n))
    for n, to in links.items():
        os.symlink(os.path.relpath(os.path.join(root, to), os.path.dirname(os.path.join(root, n))), os.path.join(root, n))
    for n in scn.get("rofiles", ()):
        os.chmod(os.path.join(root, n), 0o444)
    if UNPRIV:
        for d, ds, fs in os.walk(root):
            for x in [d] + [os.path.join(d, f) for f in fs]:
                os.lchown(x, 65534, 65534)
    for d in scn.get("rodirs", ()):
        os.chmod(os.path.join(root, d), 0o555)


def read_dir(root):
    out = {}
    for d, _, fs in os.walk(root):
        for f in fs:
            p = os.path.join(d, f)
            if not os.path.isfile(p):      # follows symlinks: a link to a file reads as that file
                out[os.path.relpath(p, root)] = None
            else:
                out[os.path.relpath(p, root)] = open(p, "rb").read()
    return out


def read_meta(root):
    """name -> (link target relative to root or "", inode identity) of every non-directory entry"""
    out = {}
    for d, _, fs in os.walk(root):
        for f in fs:
            p = os.path.join(d, f)
            st = os.lstat(p)
            link = ""
            if os.path.islink(p):
                link = os.path.relpath(os.path.normpath(os.path.join(d, os.readlink(p))), root)
            out[os.path.relpath(p, root)] = (link, (st.st_dev, st.st_ino))
    return out


# --------------------------------------------------------------------------------------------
# strace
# --------------------------------------------------------------------------------------------
_HEX = re.compile(rb"\\x([0-9a-f]{2})")
_LINE = re.compile(r"^(\d+)\s+(\w+)\((.*)\)\s+= (-?\d+|\?)(?:<((?:\\x[0-9a-f]{2})*)[^>]*>)?\s*(.*)$")
_FD = re.compile(r"^(-?\d+|AT_FDCWD)(?:<((?:\\x[0-9a-f]{2})*)([^>]*)>)?$")


def unhex(s):
    return _HEX.sub(lambda m: bytes([int(m.group(1), 16)]), s.encode("latin-1"))


def qstr(a):
    a = a.strip()
    if a.endswith("..."):
        raise vlib.ToolError("strace truncated a string; raise -s")
    if not (a.startswith('"') and a.endswith('"')):
        raise vlib.ToolError("strace argument is not a string: " + a[:80])
    return unhex(a[1:-1])


def fdarg(a):
    m = _FD.match(a.strip())
    if not m:
        raise vlib.ToolError("strace fd argument not understood: " + a[:120])
    path = unhex(m.group(2)).decode("utf-8", "replace") if m.group(2) is not None else None
    return m.group(1), path


class Traced:
    def __init__(self):
        self.rc = None
        self.killed = None      # signal number if the tracee died from a signal
        self.events = []        # model events touching the scenario directory
        self.points = []        # for each model event: (syscall name, per-name invocation index)
        self.stderr = ""
        self.raw = ""
        self.canon = {}         # real name of a file created by the run -> canonical model name


def run_traced(luafmt, root, argv, *, initial=(), inject=None, fsize=None, ignore_xfsz=False, B=1, table=None, timeout=120):
    """Run luafmt under strace in `root`; return the model events of the syscalls touching `root`."""
    root = os.path.realpath(root)
    tr = os.path.join(os.path.dirname(root), "strace.%d.out" % os.getpid())
    cmd = ["strace", "-f", "-y", "-xx", "-s", "4000000", "-e", "trace=" + SYSCALLS, "-o", tr]
    if inject:
        cmd += ["-e", "inject=" + inject]
    if fsize is not None:
        cmd += ["prlimit", "--fsize=%d" % fsize, "--core=0"]
        if ignore_xfsz:
            cmd += ["env", "--ignore-signal=XFSZ"]
    cmd += UNPRIV + [luafmt] + [a.replace("@ABS@", root) for a in argv]
    try:
        p = subprocess.run(cmd, cwd=root, stdin=subprocess.DEVNULL, stdout=subprocess.PIPE, stderr=subprocess.PIPE,
                           timeout=timeout)
    except subprocess.TimeoutExpired as ex:
        raise vlib.ToolError("luafmt under strace timed out: %r" % (cmd,)) from ex
    t = Traced()
    t.rc = p.returncode
    t.stderr = p.stderr.decode("utf-8", "replace")
    if not os.path.exists(tr):
        raise vlib.ToolError("strace produced no output (ptrace not permitted?): " + t.stderr[-500:])
    t.raw = open(tr, encoding="latin-1").read()
    os.unlink(tr)
    if "+++ killed by" in t.raw:
        m = re.search(r"\+\+\+ killed by (SIG\w+)", t.raw)
        t.killed = m.group(1)
    elif "+++ exited with" not in t.raw:
        raise vlib.ToolError("strace trace has no exit line:\n" + t.raw[-800:] + t.stderr[-500:])
    counters = {}
    table = table if table is not None else {}
    written = {}   # fd -> bytes written so far (alignment check for B > 1)

    def rel(path):
        if path is None:
            return None
        path = os.path.normpath(path)
        if path == root or path.startswith(root + os.sep):
            return os.path.relpath(path, root)
        return None

    def at(dirfd_arg, name):
        fd, base = fdarg(dirfd_arg)
        name = name.decode("utf-8", "replace")
        if os.path.isabs(name):
            return rel(name)
        return rel(os.path.join(base or root, name))

    pids = set()
    dirfds = set()   # descriptors of directories inside the scenario (walkdir): not file content
    for line in t.raw.splitlines():
        if "<unfinished ...>" in line and "resumed>" not in line:
            # only the syscall a KILL was injected into may stay unfinished; the tracee is single-threaded
            m0 = re.match(r"^(\d+)\s+(\w+)\(", line)
            if m0:
                counters[m0.group(2)] = counters.get(m0.group(2), 0) + 1
            continue
        m = _LINE.match(line)
        if not m:
            continue
        pid, name, args, ret, retpath, tail = m.groups()
        pids.add(pid)
        counters[name] = counters.get(name, 0) + 1
        idx = counters[name]
        a = args.split(", ")
        failed = ret.startswith("-")
        ev = None
        if name in ("openat", "open", "creat"):
            if name == "openat":
                path = at(a[0], qstr(a[1]))
                flags = a[2]
            elif name == "open":
                path = at("AT_FDCWD", qstr(a[0]))
                flags = a[1]
            else:
                path = at("AT_FDCWD", qstr(a[0]))
                flags = "O_WRONLY|O_CREAT|O_TRUNC"
            if not failed and ret != "?" and retpath is not None:
                path = rel(unhex(retpath).decode("utf-8", "replace")) or path
            if path is None:
                continue
            if "O_DIRECTORY" in flags:
                if not failed and ret != "?":
                    dirfds.add(ret)
                continue
            if ret == "?":
                continue
            if failed and "ENOENT" not in tail and "EEXIST" not in tail and "EACCES" not in tail:
                raise vlib.ToolError("unmodelled open failure: " + line[:300])
            fl = set(flags.split("|"))
            ev = {"op": "open", "name": path, "fd": int(ret) if not failed else -1,
                  "creat": "O_CREAT" in fl, "trunc": "O_TRUNC" in fl, "excl": "O_EXCL" in fl,
                  "wr": bool(fl & {"O_WRONLY", "O_RDWR"}), "append": "O_APPEND" in fl, "ok": not failed,
                  "dir": os.path.dirname(path)}
        elif name == "write":
            fd, path = fdarg(a[0])
            if rel(path) is None:
                continue
            if ret == "?":
                continue
            data = qstr(", ".join(a[1:-1]))
            done = written.get(fd, 0)
            if B > 1 and done % B != 0:
                raise vlib.ToolError("write not aligned to the unit size %d at offset %d" % (B, done))
            n = int(ret)
            if n > 0:
                if B > 1 and n % B != 0 and n != len(data):
                    raise vlib.ToolError("short write not aligned to the unit size")
                written[fd] = done + n
            units = to_units(data, B, table)
            ev = {"op": "write", "fd": int(fd), "data": units, "ret": -1 if n < 0 else (n + B - 1) // B,
                  "err": tail.split(" ")[0] if n < 0 else ""}
        elif name in ("close", "fsync", "fdatasync", "ftruncate"):
            fd, path = fdarg(a[0])
            if rel(path) is None or ret == "?":
                continue
            if fd in dirfds:
                if name == "close":
                    dirfds.discard(fd)
                continue
            if failed:
                raise vlib.ToolError("unmodelled failure: " + line[:300])
            if name == "close":
                written.pop(fd, None)
                ev = {"op": "close", "fd": int(fd)}
            elif name == "ftruncate":
                ln = int(a[1])
                if ln % B:
                    raise vlib.ToolError("ftruncate not aligned to the unit size")
                ev = {"op": "ftruncate", "fd": int(fd), "len": ln // B}
            else:
                ev = {"op": "fsync", "fd": int(fd)}
        elif name in ("rename", "renameat", "renameat2"):
            if name == "rename":
                src, dst = at("AT_FDCWD", qstr(a[0])), at("AT_FDCWD", qstr(a[1]))
            else:
                src, dst = at(a[0], qstr(a[1])), at(a[2], qstr(a[3]))
                if name == "renameat2" and a[4].strip() not in ("0",):
                    raise vlib.ToolError("unmodelled renameat2 flags: " + line[:300])
            if src is None and dst is None:
                continue
            if src is None or dst is None or ret == "?":
                if ret == "?":
                    continue
                raise vlib.ToolError("rename across the scenario boundary: " + line[:300])
            if failed and "ENOENT" not in tail and "EACCES" not in tail:
                raise vlib.ToolError("unmodelled rename failure: " + line[:300])
            ev = {"op": "rename", "from": src, "to": dst, "ok": not failed,
                  "fromdir": os.path.dirname(src), "todir": os.path.dirname(dst)}
        elif name in ("unlink", "unlinkat"):
            path = at("AT_FDCWD", qstr(a[0])) if name == "unlink" else at(a[0], qstr(a[1]))
            if path is None or ret == "?":
                continue
            if name == "unlinkat" and "AT_REMOVEDIR" in a[2]:
                continue
            if failed and "ENOENT" not in tail and "EACCES" not in tail:
                raise vlib.ToolError("unmodelled unlink failure: " + line[:300])
            ev = {"op": "unlink", "name": path, "ok": not failed, "dir": os.path.dirname(path)}
        elif name in UNMODELLED:
            if root.encode() in unhex(args):
                raise vlib.ToolError("syscall not modelled by FsAtomic touches the scenario: " + line[:300])
            continue
        if ev is not None:
            t.events.append(ev)
            t.points.append((name, idx))
    # names the run created itself (temporary files carry the pid): canonical names by order of appearance
    for ev in t.events:
        for k in ("name", "from", "to"):
            if k in ev:
                if ev[k] not in initial and ev[k] not in t.canon:
                    t.canon[ev[k]] = "@new%d" % (len(t.canon) + 1)
                ev[k] = t.canon.get(ev[k], ev[k])
    return t


def read_dir_canon(root, t):
    return {t.canon.get(n, n): c for n, c in read_dir(root).items()}


def observe_event(root, t, unit_contents):
    """the directory as read back: content (through symlinks), link target, inode identity (hard-link structure)"""
    meta = {t.canon.get(n, n): v for n, v in read_meta(root).items()}
    names = sorted(unit_contents)
    first = {}
    for i, n in enumerate(names, start=1):
        first.setdefault(meta[n][1], i)
    return {"op": "observe", "files": [{"name": n, "content": unit_contents[n] if unit_contents[n] != MISSING else [],
                                        "link": t.canon.get(meta[n][0], meta[n][0]), "ino": first[meta[n][1]]} for n in names]}


# --------------------------------------------------------------------------------------------
# the check
# --------------------------------------------------------------------------------------------
def classify(content, orig, fmt):
    if content is None:
        return "missing"
    if content == orig:
        return "orig"
    if content == fmt:
        return "fmt"
    if content == b"":
        return "empty"
    if fmt.startswith(content):
        return "truncated"
    return "other"


def classify_units(c, orig, fmt):
    if c == MISSING:
        return "missing"
    if c == orig:
        return "orig"
    if c == fmt:
        return "fmt"
    if c == []:
        return "empty"
    if fmt[:len(c)] == c:
        return "truncated"
    return "other"


def proto_selfcheck(ctx):
    """FsAtomicProto: five hand-written protocols in one script; assert the model's verdict for each."""
    res = vlib.tlc("FsAtomic", "FsAtomic_q", workers=1, timeout=300)
    ctx.add_tlc(res)
    if res.violated:
        raise vlib.ToolError("FsAtomic protocol self-check failed: %s\n%s" % (res.violated, res.trace_text[:1500]))
    names = {1: "InPlace", 2: "TempRename", 3: "TempNoSync", 4: "UnlinkFirst", 5: "RenameOpen"}
    expect = {"InPlace": (False, False), "TempRename": (True, True), "TempNoSync": (True, False),
              "UnlinkFirst": (False, False), "RenameOpen": (False, False)}
    got = {}
    for tg, o in res.json:
        if tg in ("RUN", "CASE") and o["run"] in names:
            k, p = got.get(names[o["run"]], (True, True))
            got[names[o["run"]]] = (k and o["killOk"], p and o["powerOk"])
    if got != expect:
        raise vlib.ToolError("FsAtomic self-check: protocol verdicts (killOk, powerOk) %r, expected %r" % (got, expect))
    ctx.note("protocol_selfcheck(killOk,powerOk)", {k: list(v) for k, v in got.items()})


def run_tlc(ctx, script, tag, brief=False):
    path = os.path.join(ctx.work, "trace_%s.ndjson" % tag)
    with open(path, "w") as f:
        for e in script:
            f.write(json.dumps(e) + "\n")
    res = vlib.tlc("FsAtomic", "FsAtomic_brief" if brief else "FsAtomic_q", workers=1,
                   timeout=ctx.pick(600, 2400), env={"TRACE": path})
    ctx.add_tlc(res)
    runs = [o for tg, o in res.json if tg == "RUN"]
    cases = [o for tg, o in res.json if tg == "CASE"]
    top = max([o["l"] for o in runs] or [0])
    if top != len(script) + 1 or res.violated:
        ev = script[top - 1] if 0 < top <= len(script) else None
        raise vlib.ToolError("FsAtomic cannot explain the recorded %s trace at event %d/%d: %s\n%s" % (
            tag, top, len(script), json.dumps(ev)[:400], res.trace_text[:1500]))
    return runs, cases


def write_offsets(events):
    """unit offset at which each write event starts (per open file description)"""
    off, out = {}, {}
    for i, e in enumerate(events):
        if e["op"] == "open" and e["ok"]:
            off[e["fd"]] = 0
        elif e["op"] == "write":
            out[i] = off.get(e["fd"], 0)
            if e["ret"] > 0:
                off[e["fd"]] = out[i] + e["ret"]
    return out


def run(ctx):
    rnd = random.Random(ctx.seed)
    proto_selfcheck(ctx)
    luafmt = _fmtbin.build_luafmt()
    scns = scenarios(ctx)
    base_script = []
    info = {}
    # ---------------------------------------------------------------- 1. record fault-free runs
    for ri, scn in enumerate(scns, start=1):
        sname, files, argv, B = scn["name"], scn["files"], scn["argv"], scn["B"]
        root = os.path.join(ctx.work, "scn_%d" % ri)
        table = {}
        materialise(root, files, scn)
        fmt = {}
        for n, c in files.items():
            if n.endswith(".lua"):
                p = subprocess.run([luafmt, n], cwd=root, stdout=subprocess.PIPE, stderr=subprocess.PIPE, timeout=120)
                if p.returncode != 0:
                    raise vlib.ToolError("luafmt %s failed rc=%d: %s" % (n, p.returncode, p.stderr[-400:]))
                fmt[n] = p.stdout
        t = run_traced(luafmt, root, argv, initial=set(files), B=B, table=table)
        if t.rc != 0 and not scn.get("mayfail"):
            raise vlib.ToolError("fault-free luafmt --write failed in scenario %s: rc=%s: %s" % (sname, t.rc, t.stderr[-400:]))
        after = read_dir_canon(root, t)
        for n in fmt:
            exp = scn.get("expect", {}).get(n, "fmt")
            want = {"fmt": [fmt[n]], "orig": [files[n]], "either": [fmt[n], files[n]]}[exp]
            if after.get(n) not in want:
                # the write mode and the stdout mode disagree (or the scenario model of FsAtomicScn is wrong about what a
                # fault-free run reaches): not C39's business, but the oracle needs it
                raise vlib.ToolError("scenario %s: content of %s after the fault-free run is not the expected one (%s)" % (
                    sname, n, scn.get("expect", {}).get(n, "fmt")))
        order = sorted(files)
        links, hard = scn.get("links", {}), scn.get("hard", {})
        reset = {"op": "reset", "run": ri, "rodirs": list(scn.get("rodirs", [])), "files": [
            {"name": n, "orig": to_units(files[n], B, table), "fmt": to_units(fmt.get(n, files[n]), B, table),
             "target": n in fmt, "ino": order.index(hard.get(n, n)) + 1, "link": links.get(n, ""),
             "ro": hard.get(n, n) in scn.get("rofiles", ())} for n in order]}
        observe = observe_event(root, t, {n: (MISSING if c is None else to_units(c, B, table)) for n, c in after.items()})
        info[ri] = {"name": sname, "files": files, "fmt": fmt, "argv": argv, "B": B, "table": table, "root": root, "scn": scn,
                    "reset": reset, "events": t.events, "points": t.points, "first": len(base_script) + 1}
        base_script += [reset] + t.events + [{"op": "exit"}, observe]
        ctx.sample({"scenario": sname, "argv": argv, "recorded_syscalls": [
            "%s(%s)" % (e["op"], e.get("name") or e.get("from") or e.get("fd")) for e in t.events]})
    # ---------------------------------------------------------------- 2. TLC: faults after every prefix
    runs, cases = run_tlc(ctx, base_script, "base")
    ctx.validated(len(scns))
    run_state = {(o["run"], o["l"]): o for o in runs}
    ctx.note("fault_points_enumerated_by_tlc", len(cases))
    found = {}      # signature -> list of details (one VIOLATION per signature)

    def unit_files(ri, contents):
        inf = info[ri]
        return {n: (MISSING if c is None else to_units(c, inf["B"], inf["table"])) for n, c in contents.items()}

    def judge_real(ri, how, observed, detail):
        """the property itself, on the real directory"""
        inf = info[ri]
        bad = {}
        for n, f in inf["fmt"].items():
            cls = classify(observed.get(n), inf["files"][n], f)
            if cls not in ("orig", "fmt"):
                bad[n] = cls
        if bad:
            worst = sorted(set(bad.values()))[0]
            d = dict(detail)
            d.update({"scenario": inf["name"], "argv": inf["argv"], "bad_files": bad,
                      "files": {n: c.decode("utf-8", "replace") for n, c in inf["files"].items()} if inf["B"] == 1 else "std file",
                      "observed": {n: (None if observed.get(n) is None else observed[n][:200].decode("utf-8", "replace")) for n in bad}})
            found.setdefault("C39/%s/%s" % (how, worst), []).append(d)
        return not bad

    # model-level verdicts on the recorded trace (power loss cannot be injected for real)
    power_bad = [o for o in runs + cases if not o["powerOk"]]
    if power_bad:
        by = {}
        for o in power_bad:
            by.setdefault(info[o["run"]]["name"], []).append(o.get("l") or o["fault"]["at"])
        found.setdefault("C39/power/unsynced", []).append({
            "what": "FsAtomic: a power loss can expose a target that is neither original nor formatted "
                    "(content reachable through a durable name was never fsynced)",
            "script_positions": {k: sorted(set(v))[:10] for k, v in by.items()},
            "recorded_syscalls": {info[r]["name"]: [{k: v for k, v in e.items() if k != "data"} for e in info[r]["events"]] for r in info}})

    # ---------------------------------------------------------------- 3. inject faults for real
    plan = []
    skipped_unreal = 0
    by_write = {}
    # quick tier, scenarios of FsAtomicScn: every class has a scenario of its own with a kill before every syscall and the
    # extreme partial writes; the scenario that combines all classes only gets the kills at its writes and renames and
    # the longest partial write (every fault point is still judged by the model: `not_injected_bad` below)
    def multi(ri):
        return ctx.quick and len(info[ri]["scn"].get("classes", ())) > 2

    def single(ri):
        return ctx.quick and 1 <= len(info[ri]["scn"].get("classes", ())) <= 2

    for c in cases:
        fl = c["fault"]
        if fl["kind"] == "kill":
            if multi(c["run"]) and info[c["run"]]["events"][fl["at"] - info[c["run"]]["first"] - 1]["op"] not in ("write", "rename"):
                continue
            plan.append(c)
        elif multi(c["run"]) and fl["kind"] == "wfail":
            continue
        else:
            by_write.setdefault((c["run"], fl["at"], fl["kind"]), []).append(c)
    for (ri, at_, kind), cs in sorted(by_write.items()):
        inf = info[ri]
        li = at_ - inf["first"] - 1
        offs = write_offsets(inf["events"])
        real = []
        for c in cs:
            limit = offs[li] + c["fault"]["k"]
            # RLIMIT_FSIZE is per process: an earlier, larger write would trip it first
            if any(offs[j] + inf["events"][j]["ret"] > limit for j in offs if j < li):
                if not (kind == "wfail" and c["fault"]["k"] == 0):
                    skipped_unreal += 1
                    continue
            real.append(c)
        real.sort(key=lambda c: c["fault"]["k"])
        if multi(ri) or single(ri):
            real = real[-1:] if kind == "killw" else real[:1]
        elif ctx.quick or inf["B"] > 1:
            keep = {0, len(real) - 1, len(real) // 2} | set(rnd.sample(range(len(real)), min(3, len(real))))
            real = [c for i, c in enumerate(real) if i in keep]
        plan += real
    ctx.note("fault_points_not_injectable_by_rlimit", skipped_unreal)
    planned = {(c["run"], c["fault"]["kind"], c["fault"]["at"], c["fault"]["k"]) for c in plan}
    not_injected_bad = [c for c in cases if not c["killOk"]
                        and (c["run"], c["fault"]["kind"], c["fault"]["at"], c["fault"]["k"]) not in planned]
    fault_script = []
    nrun = len(scns)
    explained = unexplained = 0
    for c in sorted(plan, key=lambda c: (c["run"], c["fault"]["at"], c["fault"]["kind"], c["fault"]["k"])):
        ri = c["run"]
        inf = info[ri]
        fl = c["fault"]
        li = fl["at"] - inf["first"] - 1            # index into inf["events"] (script = reset + events)
        ev = inf["events"][li]
        sysname, sidx = inf["points"][li]
        B = inf["B"]
        variants = []
        if fl["kind"] == "kill":
            variants.append(("kill", dict(inject="%s:signal=KILL:when=%d" % (sysname, sidx))))
        else:
            limit = (write_offsets(inf["events"])[li] + fl["k"]) * B
            trips_earlier = any(o + inf["events"][j]["ret"] > limit // B
                                for j, o in write_offsets(inf["events"]).items() if j < li)
            if fl["kind"] == "killw":
                variants.append(("sigxfsz", dict(fsize=limit, ignore_xfsz=False)))
            else:
                if not trips_earlier:
                    variants.append(("efbig", dict(fsize=limit, ignore_xfsz=True)))
                if fl["k"] == 0:
                    variants.append(("enospc", dict(inject="write:error=ENOSPC:when=%d" % sidx)))
        for how, kw in variants:
            materialise(inf["root"], inf["files"], inf["scn"])
            t = run_traced(luafmt, inf["root"], inf["argv"], initial=set(inf["files"]), B=B, table=inf["table"], **kw)
            observed = read_dir_canon(inf["root"], t)
            key = (inf["name"], how, li, fl["k"])
            ctx.count(key, nontrivial=(li > 0 or fl["k"] > 0))
            detail = {"fault": how, "at_event": li, "event": {k: v for k, v in ev.items() if k != "data"},
                      "k_units": fl["k"], "inject": kw, "exit": t.rc, "killed": t.killed, "stderr": t.stderr[-300:]}
            ok_real = judge_real(ri, how, observed, detail)
            # ---- binding: did reality do what the model predicted?
            obs_units = unit_files(ri, observed)
            preds = None
            if fl["kind"] == "kill":
                # the signal lands on syscall entry: the syscall may or may not have taken effect
                cands = [run_state.get((ri, fl["at"])), run_state.get((ri, fl["at"] + 1))]
                preds = [x for x in cands if x]
                if t.killed != "SIGKILL":
                    ctx.divergence("kill injection did not kill: %r rc=%s" % (key, t.rc))
            elif fl["kind"] == "killw":
                preds = [c]
                if t.killed != "SIGXFSZ":
                    ctx.divergence("RLIMIT_FSIZE run was not killed by SIGXFSZ: %r rc=%s killed=%s" % (key, t.rc, t.killed))
            else:
                # the program continues after the error: its own trace is validated below (phase 4)
                if t.killed:
                    ctx.divergence("write-failure run died from %s: %r" % (t.killed, key))
                if t.rc == 0:
                    ctx.divergence("write failure not reflected in the exit status: %r" % (key,))
                if t.events[:li] != inf["events"][:li] or len(t.events) <= li or t.events[li]["op"] != "write":
                    ctx.divergence("fault run diverges from the recorded run before the fault: %r" % (key,))
                elif max(t.events[li]["ret"], 0) != fl["k"]:
                    ctx.divergence("fault run wrote %s units where the model planned %d: %r" % (t.events[li]["ret"], fl["k"], key))
            if preds is not None:
                names = sorted(obs_units)
                hit = any(names == sorted(p["names"]) and all(obs_units[n] == p["files"][n] for n in p["files"])
                          for p in preds)
                if hit:
                    explained += 1
                else:
                    unexplained += 1
                    ctx.divergence("real state after %r is not a state the model predicts: names=%s" % (key, names))
                if hit and fl["kind"] == "killw" and c["killOk"] != ok_real:
                    raise vlib.ToolError("model and driver disagree on the property for the same state: %r" % (key,))
            # ---- the fault run's own trace goes to TLC (phase 4)
            nrun += 1
            reset = dict(inf["reset"])
            reset["run"] = nrun
            fault_script += [reset] + t.events + [{"op": "exit"}, observe_event(inf["root"], t, obs_units)]
            info[nrun] = dict(inf, fault=detail, events=t.events, first=None)
    ctx.note("faults_injected_for_real", nrun - len(scns))
    ctx.note("real_states_matching_model_prediction", explained)
    ctx.note("real_states_not_predicted", unexplained)
    # ---------------------------------------------------------------- 4. TLC validates the fault runs
    if fault_script:
        fruns, fcases = run_tlc(ctx, fault_script, "faults", brief=True)
        ctx.validated(nrun - len(scns))
        # damaged states the model sees on the recorded fault runs (incl. a second fault composed on
        # the tool's error path); reported only if the same damage was not already seen on real files
        mb = {}
        for o in fruns + fcases:
            if not o["killOk"]:
                mb.setdefault(info[o["run"]]["fault"]["fault"], []).append(o)
        for first, os_ in sorted(mb.items()):
            if any(sig.startswith("C39/%s/" % first) for sig in found):
                continue
            o = os_[0]
            found.setdefault("C39/model/after-%s" % first, []).append({
                "what": "FsAtomic on the recorded fault run: a (second) fault leaves a damaged target",
                "count": len(os_), "first_fault": info[o["run"]]["fault"], "then": o.get("fault", {"kind": "none", "at": o.get("l")}),
                "events": [{k: v for k, v in e.items() if k != "data"} for e in info[o["run"]]["events"]]})
        pb = [o for o in fruns + fcases if not o["powerOk"]]
        if pb and not power_bad:
            o = pb[0]
            found.setdefault("C39/power/unsynced-after-fault", []).append({
                "what": "FsAtomic: after a write failure, a power loss can expose a damaged target",
                "fault_run": info[o["run"]].get("fault")})
    if not_injected_bad and not any(sig.split("/")[1] in ("kill", "sigxfsz", "efbig", "enospc") for sig in found):
        c = not_injected_bad[0]
        found.setdefault("C39/model/%s" % c["fault"]["kind"], []).append({
            "what": "FsAtomic on the recorded run: fault point with a damaged target (not injected for real)",
            "count": len(not_injected_bad), "scenario": info[c["run"]]["name"], "fault": c["fault"]})
    for sig, ds in sorted(found.items()):
        ctx.violation(sig, {"count": len(ds), "first": ds[0], "more": ds[1:3]})
    ctx.rule("a case = (scenario, fault kind in {SIGKILL on syscall, SIGXFSZ mid-write, EFBIG, ENOSPC}, recorded syscall, "
             "units written) injected into the real luafmt; non-trivial = the fault is not before the first recorded syscall")
    ctx.assume("file contents change only through the traced syscalls (%s); mmap/io_uring writes would be invisible" % SYSCALLS)
    ctx.assume("power loss: POSIX-level model (data durable only after fsync, namespace operations journaled in order); "
               "cannot be injected for real, judged by FsAtomic on the recorded trace only")
    ctx.assume("strace delivers an injected SIGKILL on syscall entry; the syscall may or may not take effect (both accepted)")
