"""C02 Parsing never crashes or hangs: NestMatrix.tla cases in subprocesses on a 2 MiB-stack thread + progress
invariants of ParserTrace.tla on recorded parses + panic freedom on the TokenSoup.tla inputs."""
import concurrent.futures
import json
import math
import os
import random
import sys

sys.path.insert(0, os.path.dirname(__file__))
import _parser as P
import vlib


def run_matrix(ctx, cases, par):
    chunks = [cases[i::par] for i in range(par)]
    paths = []
    for i, ch in enumerate(chunks):
        p = os.path.join(ctx.work, "nest_%d.ndjson" % i)
        P.write_ndjson(p, ch)
        paths.append(p)

    def one(p):
        return vlib.ndjson(vlib.run_bin("vh_nest", ["matrix", p], timeout=ctx.pick(4000, 20000)).stdout)

    res = {}
    with concurrent.futures.ThreadPoolExecutor(max_workers=par) as ex:
        for objs in ex.map(one, paths):
            for o in objs:
                res[o["id"]] = o
    return res


def run(ctx):
    # ---- (1) nesting matrix -------------------------------------------------------------------
    res = vlib.tlc("NestMatrix", ctx.pick("NestMatrix_q", "NestMatrix_t"), workers=1, timeout=600)
    ctx.add_tlc(res)
    if res.violated:
        raise vlib.ToolError("NestMatrix: unexpected TLC verdict %s" % res.violated)
    cases = [c for tag, c in res.json if tag == "CASE"]
    if len(cases) != res.distinct:
        raise vlib.ToolError("NestMatrix: %d cases printed, %d states" % (len(cases), res.distinct))
    cases.sort(key=lambda c: (c["construct"], c["level"], c["depth"]))
    for i, c in enumerate(cases):
        c["id"] = i
        c["budget_ms"] = ctx.pick(60000, 300000)
    vlib.build(["vh-parser"])
    out = run_matrix(ctx, cases, ctx.pick(4, 6))
    if len(out) != len(cases):
        raise vlib.ToolError("vh_nest judged %d of %d cases" % (len(out), len(cases)))
    viol = {}
    ladder = {}
    outcomes = {}
    for c in cases:
        o = out[c["id"]]
        r = o.get("res") or {}
        exp = c["expect"]
        key = {"construct": c["construct"], "level": c["level"], "depth": c["depth"], "shape": c["shape"],
               "text": "%r + %r*%d + %r + %r*%d + %r" % (c["prefix"], c["open"], c["depth"], c["core"], c["close"], c["depth"], c["suffix"])}
        ctx.count((c["construct"], c["level"], c["depth"]), nontrivial=c["depth"] >= 64)
        outcomes[o["outcome"]] = outcomes.get(o["outcome"], 0) + 1
        if o["outcome"] != exp["outcome"]:
            if o["outcome"] == "timeout":
                sig = "C02/timeout/%s/%s" % (c["shape"], c["construct"])
            elif c["shape"] == "left":
                # the tree of a left-associative chain is as deep as the chain is long
                sig = "C02/%s/left-deep-chain" % o["outcome"]
            else:
                sig = "C02/%s/%s/%s" % (o["outcome"], c["shape"], c["construct"])
            viol.setdefault(sig, []).append(dict(key, observed=o["outcome"], signal=o.get("signal"), stderr=o.get("stderr", "")[-200:]))
            continue
        if r.get("len") != exp["len"]:
            raise vlib.ToolError("NestMatrix/vh_nest disagree on the text length of %r" % (key,))
        if not r.get("lossless", True):
            viol.setdefault("C02/tree-length/%s" % c["construct"], []).append(dict(key, observed=r))
        if exp["clean"] and r["errors"] != 0:
            viol.setdefault("C02/error-on-moderate-nesting/%s" % c["construct"], []).append(dict(key, errors=r["errors"], first=r.get("first")))
        if exp["must_error"] and r["errors"] == 0:
            viol.setdefault("C02/no-error-beyond-limit/%s" % c["construct"], []).append(dict(key, errors=0))
        if r["nev"] > exp["ev_k"] * (r["len"] + 1) + exp["ev_c"]:
            viol.setdefault("C02/work-not-linear/%s" % c["construct"], []).append(dict(key, events=r["nev"], tokens=r["ntok"], bytes=r["len"]))
        if not r["progress"]:
            viol.setdefault("C02/progress/parse_chunk-iteration-without-token", []).append(dict(key, loop_iterations=r["loop_iterations"]))
        ladder.setdefault((c["construct"], c["level"]), []).append((c["depth"], r["cpu_ns"], r.get("len", 0)))
    # CPU-time growth exponent between the two largest completed depths (thread CPU time, not wall)
    expo = {}
    for (name, lv), pts in ladder.items():
        pts.sort()
        big = [p for p in pts if p[1] >= 20e6]      # below 20 ms the scheduler statistics are too coarse
        if len(big) >= 2:
            (d1, t1, _), (d2, t2, _) = big[-2], big[-1]
            e = math.log(t2 / t1) / math.log(d2 / d1)
            expo["%s/%s" % (name, lv)] = round(e, 2)
            if e > 1.8 and t2 > 2e9:
                # CPU time on this shared machine is too noisy to be a verdict (repeated runs of one case differ by
                # 10x); recorded, never an alarm. The machine-independent part is events <= K*tokens + c above.
                ctx.divergence({"cpu_time_growth": name, "level": lv, "depths": [d1, d2],
                                "cpu_ms": [round(t1 / 1e6), round(t2 / 1e6)], "exponent": round(e, 2)})
    ctx.note("outcomes", outcomes)
    ctx.note("cpu_growth_exponent", expo)

    # ---- (2) progress invariants on recorded parses + panic freedom on token soups ----------------
    soups = P.soup_cases(ctx)
    sout = P.run_chunks(ctx, "soup", soups, "soup", chunk=ctx.pick(20000, 60000), par=ctx.pick(2, 4), timeout=ctx.pick(900, 3000))
    ctx.cov["evaluations"] += sum(o["summary"]["parses"] for o in sout if "summary" in o)
    hangs = [o for o in sout if o.get("fail") == "hang"]
    died = [o for o in sout if o.get("fail") == "died"]
    for f in died:
        viol.setdefault("C02/process-died/soup", []).append(f)
    for f in hangs:
        viol.setdefault("C02/hang/soup/" + "+".join(sorted({P.lex_class(x) for x in f["l"]})), []).append(
            {"l": f["l"], "text": f["text"], "seconds_without_return": f["seconds"]})
    if hangs or died:
        # the recorder would grow without bound on a non-terminating parse: do not record traces
        for sig, ds in sorted(viol.items()):
            ctx.violation(sig, {"count": len(ds), "first": ds[0], "more": ds[1:6]})
        return
    for f in [o for o in sout if o.get("fail") == "panic"]:
        viol.setdefault("C02/panic/soup/" + "+".join(sorted({P.lex_class(x) for x in f["l"]})), []).append(
            {"l": f["l"], "text": f["text"], "configs": f["configs"], "panic": f["obs"]["panic"]})
    tcases = P.pick_trace_cases(ctx, soups, ctx.pick(400, 4000))
    verdicts, panics, _ = P.record_and_validate(ctx, tcases)
    ctx.validated(len(verdicts))
    stats = {"prog": 0, "lin": 0, "max_events_per_token": 0.0}
    for v in verdicts:
        case = tcases[v["case"]]
        stats["prog"] += 1 if v["prog"] else 0
        stats["lin"] += 1 if v["lin"] else 0
        stats["max_events_per_token"] = max(stats["max_events_per_token"], round(v["nev"] / (v["ntok"] + 1), 2))
        if not v["prog"]:
            viol.setdefault("C02/progress/parse_chunk-iteration-without-token", []).append({"case": case, "verdict": v})
        if not v["lin"]:
            viol.setdefault("C02/progress/events-not-linear-in-tokens", []).append({"case": case, "verdict": v})
    for pnc in panics:
        viol.setdefault("C02/panic/trace", []).append({"case": tcases[pnc["case"]], "panic": pnc})
    ctx.note("progress_invariants_held", stats)
    for sig, ds in sorted(viol.items()):
        ctx.violation(sig, {"count": len(ds), "first": ds[0], "more": ds[1:6],
                            "replay": "vh_nest one '<case json>' (2 MiB-stack thread in a subprocess) / vh_parse soup|trace"})
    ctx.cov["exhaustive"] = True
    ctx.rule("nesting case = construct x depth x level of NestMatrix.tla, parsed in its own subprocess on a 2 MiB-stack thread "
             "(non-trivial = depth >= 64); plus every TokenSoup.tla input at 8 levels x doc on/off judged for panics, and "
             "sampled recorded parses judged by ParserTrace.tla's progress invariants")
    rnd = random.Random(ctx.seed)
    for c in rnd.sample(cases, min(5, len(cases))):
        o = out[c["id"]]
        ctx.sample({"construct": c["construct"], "depth": c["depth"], "level": c["level"], "outcome": o["outcome"],
                    "errors": (o.get("res") or {}).get("errors"), "cpu_ms": round((o.get("res") or {}).get("cpu_ns", 0) / 1e6, 1)})
    ctx.assume("stack depth and CPU time are measured on this machine (opt-level 1 harness build, 2 MiB thread), not modelled")
