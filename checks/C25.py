"""C25 Position-based requests handle any position without crashing.

TLC enumerates spec/LsPositions.tla: document class x position class(es) x position/range-taking request,
with the concrete (line, character) of every class computed from the document's line/token table.  Every
position-like parameter of a request is a slot drawn from the classes independently: the point, both ends of
a range, BOTH ranges of a two-range request (inlineValue: range / context.stoppedLocation, codeAction: range /
context.diagnostics[].range, callHierarchy items: range / selectionRange), every list of 0..3 positions of
selectionRange, plus the string that accompanies a point (rename: newName, onTypeFormatting: ch).  Opaque
`data` members (call hierarchy item, code lens) are the ones the server itself handed out for the document
(mined in the same run), so the handlers behind them are reached.  Every cell is sent to the in-process session (the real dispatch + handlers) after didOpen of the document; the
recorded stream is judged by spec/LsProtocolTrace.tla: the request must be dispatched, its task must
finish, exactly one response, and that response must be a result or null (never an error, never nothing).
"""
import json
import os
import random
import sys

sys.path.insert(0, os.path.dirname(__file__))
import vlib
import _lsproto as L

BATCH = 12


def mine_items(ctx, docs, text_of):
    """PM: the opaque `data` of a call hierarchy item / a code lens the server hands out for each document"""
    runs = []
    for d in docs:
        steps = [L.open_step(text=text_of[d["cls"]])]
        rid = 0
        for tok in d["toks"][:40]:
            rid += 1
            steps.append({"op": "req", "id": rid, "method": "textDocument/prepareCallHierarchy",
                          "params": {"textDocument": {"uri": L.DOC_URI}, "position": {"line": tok[0], "character": tok[1]}}})
        steps.append({"op": "req", "id": 1000, "method": "textDocument/codeLens", "params": {"textDocument": {"uri": L.DOC_URI}}})
        runs.append({"run": "mine|" + d["cls"], "sched": False, "steps": steps})
    out = L.play_inprocess(ctx, runs, results=True, tag="mine")
    mined = {}
    for r in out:
        doc = r["run"].split("|", 1)[1]
        m = {"callHierarchy": None, "codeLens": None}
        for e in r["events"]:
            if e["ev"] != "ssend" or e.get("kind") != "resp" or not e.get("ok"):
                continue
            res = e.get("result")
            if isinstance(res, list) and res and isinstance(res[0], dict) and res[0].get("data") is not None:
                kind = "codeLens" if e["id"] == 1000 else "callHierarchy"
                if m[kind] is None:
                    m[kind] = res[0]["data"]
        mined[doc] = m
    return mined


def run(ctx):
    docs = [L.doc_metrics(c, t) for c, t in L.DOC_CLASSES]
    text_of = dict(L.DOC_CLASSES)
    dpath = os.path.join(ctx.work, "docs.ndjson")
    with open(dpath, "w") as f:
        for d in docs:
            f.write(json.dumps(d) + "\n")
    res = vlib.tlc("LsPositions", ctx.pick("LsPositions_q", "LsPositions_t"), workers=ctx.pick(2, 4),
                   timeout=ctx.pick(600, 2400), env={"DOCS": dpath})
    ctx.add_tlc(res)
    if res.violated:
        raise vlib.ToolError("LsPositions: %s\n%s" % (res.violated, res.trace_text[:2000]))
    cells = [c for t, c in res.json if t == "CELL"]
    if len(cells) != res.distinct:
        raise vlib.ToolError("cell extraction lost cells: %d printed, %d states" % (len(cells), res.distinct))
    # one concrete request per distinct (document, request, positions, string class); remember the classes it stands for
    uniq = {}
    for c in cells:
        k = (c["doc"], c["req"], json.dumps(c["pos"]), c["opt"])
        u = uniq.setdefault(k, dict(c, classes=set()))
        u["classes"].add("+".join(c["pcs"]) if c["pcs"] else "(empty list)")
    reqs = sorted(uniq.values(), key=lambda u: (u["doc"], u["req"], json.dumps(u["pos"]), u["opt"]))
    ctx.note("matrix_cells", len(cells))
    ctx.note("distinct_concrete_requests", len(reqs))
    by_shape = {}
    for u in reqs:
        by_shape[len(u["pos"])] = by_shape.get(len(u["pos"]), 0) + 1
    ctx.note("requests_by_number_of_positions", {str(k): v for k, v in sorted(by_shape.items())})
    rnd = random.Random(ctx.seed)
    sampled = False
    vlib.build(["vh-ls"])
    mined = mine_items(ctx, docs, text_of)
    runs, infos = [], {}
    by_doc = {}
    for u in reqs:
        by_doc.setdefault(u["doc"], []).append(u)
    for doc, us in by_doc.items():
        for b in range(0, len(us), BATCH):
            key = "%s.%d" % (doc, b // BATCH)
            steps = [L.open_step(text=text_of[doc])]
            info = {}
            for j, u in enumerate(us[b:b + BATCH]):
                rid = j + 1
                steps.append({"op": "req", "id": rid, "method": u["req"],
                              "params": L.cell_request(u, L.DOC_URI, mined.get(doc))})
                info[rid] = {"cls": "valid", "method": u["req"], "cell": u}
            runs.append({"run": key, "sched": False, "steps": steps})
            infos[key] = info
    out = L.play_inprocess(ctx, runs, tag="cells")
    if len(out) != len(runs):
        raise vlib.ToolError("vh_lsproto played %d of %d runs" % (len(out), len(runs)))
    traces = []
    maps = {}
    for r in out:
        log, idmap, nids = L.abstract_run(r["events"], infos[r["run"]])
        traces.append({"key": r["run"], "log": log, "nids": nids})
        maps[r["run"]] = idmap
    verdicts = L.validate_traces(ctx, traces, tag="cells")
    nulls = 0
    for r in out:
        key = r["run"]
        info = infos[key]
        vs = verdicts.get(key)
        if vs is None:
            continue
        ctx.validated(1)
        rev = {a: c for c, a in maps[key].items()}
        panics = [e["msg"] for e in r["events"] if e["ev"] == "panic"]
        answers = {e["id"]: e for e in r["events"] if e["ev"] == "ssend" and e["kind"] == "resp"}
        seen = set()
        for v in vs:
            for i in v["ids"]:
                rid = rev.get(i["id"])
                if rid is None or rid in seen:
                    continue
                seen.add(rid)
                u = info[rid]["cell"]
                classes = sorted(u["classes"])
                beyond = not all(u["denotes"])
                ctx.count((u["doc"], u["req"], json.dumps(u["pos"]), u["opt"]), nontrivial=u["doc"] != "empty")
                ok = i["n"] == 1 and i["r"] == ["ok"] and i["how"] == "finish"
                if ok:
                    if answers.get(rid, {}).get("null"):
                        nulls += 1
                    continue
                if i["n"] == 0:
                    problem = "no-response"
                elif i["n"] > 1:
                    problem = "duplicate-response"
                else:
                    problem = "error-response" + (i["r"][0][3:] if i["r"] else "")
                sig = "C25/%s/%s/%s" % (u["req"], problem, "beyond" if beyond else "in-document")
                if u["rel"] != "-":
                    sig += "/" + u["rel"]
                if u["opt"] not in ("-", "ident", "newline"):
                    sig += "/" + u["opt"]
                ctx.violation(sig, {"document_class": u["doc"], "document": text_of[u["doc"]], "request": u["req"],
                                    "params": L.cell_request(u, L.DOC_URI, mined.get(u["doc"])),
                                    "parameters": u["slots"], "string_class": u["opt"], "relation_of_ranges": u["rel"],
                                    "positions": [L.lsp_pos(p) for p in u["pos"]], "position_classes": classes,
                                    "responses": i["r"], "explanation": i["how"],
                                    "answer": {k: v for k, v in answers.get(rid, {}).items() if k != "result"},
                                    "panics_in_run": panics[:4]})
    for u in rnd.sample(reqs, min(5, len(reqs))):
        ctx.sample({"document_class": u["doc"], "request": u["req"], "parameters": u["slots"], "positions": u["pos"],
                    "classes": sorted(u["classes"]), "string_class": u["opt"]})
    ctx.note("null_results", nulls)
    ctx.cov["exhaustive"] = not sampled
    ctx.note("mined_data", {d: sorted(k for k, v in m.items() if v is not None) for d, m in mined.items()})
    ctx.rule("distinct (document, request, concrete positions, string class) tuples from the TLC-enumerated matrix 6 document "
             "classes x 9 position classes per position-like parameter (1, 2 or 4 per request, lists of 0..3) x 22 requests; "
             "non-trivial = non-empty document")
    ctx.assume("the six fixed small documents stand for their classes; token tables come from a regex tokenizer in the "
               "driver (only used to pick positions, not to judge)")
