"""C26 LSP results are structurally valid.

1. TLC model-checks spec/SemTokens.tla (transcription of SemanticBuilder push/de-dup/split/sort/delta-encode +
   the LSP decoder) over every sequence of pushed ranges on a small grid: output ordered and non-overlapping
   <=> the retained pushes are pairwise disjoint.
2. TLC enumerates documents (spec/LsDocs.tla); the driver sends every structure-returning request at every
   token of every document to the in-process session and normalises the recorded responses to integers.
3. TLC evaluates the result predicates of spec/LsResults.tla on every recorded response (ranges in the
   document at request time, semantic tokens decode to ordered / non-overlapping / in-document tokens inside
   the advertised legend, document symbols nested with selectionRange in range, folding start <= end,
   selection ranges strictly grow, completion edits single-line containing the cursor, edits of one file
   pairwise disjoint).
"""
import json
import re
import os
import random
import sys

sys.path.insert(0, os.path.dirname(__file__))
import vlib
import _lsproto as L

INT_MAX = 2147483647
POSITION_REQS = ["textDocument/definition", "textDocument/references", "textDocument/documentHighlight",
                 "textDocument/rename", "textDocument/prepareRename", "textDocument/completion",
                 "textDocument/selectionRange", "textDocument/hover", "textDocument/implementation",
                 "textDocument/prepareCallHierarchy", "textDocument/codeAction", "textDocument/inlineValue",
                 "textDocument/signatureHelp"]
DOC_REQS = ["textDocument/documentSymbol", "textDocument/foldingRange", "textDocument/semanticTokens/full",
            "textDocument/documentLink", "textDocument/documentColor", "textDocument/codeLens",
            "textDocument/inlayHint", "textDocument/formatting", "textDocument/diagnostic", "emmy/annotator",
            "emmy/gutter", "workspace/symbol"]


IDIOMS = {"semtok": ("InDocExceptBig", "length-9999"),
          "ranges": ("InDocExceptDocEnd", "document-range-ends-at-line-count"),
          "edits": ("InDocExceptDocEnd", "document-range-ends-at-line-count")}


def clamp(n):
    return max(0, min(int(n), INT_MAX))


def is_pos(p):
    return isinstance(p, dict) and "line" in p and "character" in p


def is_range(r):
    return isinstance(r, dict) and is_pos(r.get("start")) and is_pos(r.get("end"))


def rng(r):
    return [clamp(r["start"]["line"]), clamp(r["start"]["character"]), clamp(r["end"]["line"]), clamp(r["end"]["character"])]


def collect_ranges(obj, uri, out, other):
    """every Range / Position of a result that refers to the requested document"""
    if isinstance(obj, list):
        for x in obj:
            collect_ranges(x, uri, out, other)
        return
    if not isinstance(obj, dict):
        return
    u = obj.get("uri") or obj.get("targetUri")
    if isinstance(u, str) and u != uri:
        other.append(u)
        # originSelectionRange of a LocationLink still refers to the requested document
        if is_range(obj.get("originSelectionRange")):
            out.append(rng(obj["originSelectionRange"]))
        return
    for k, v in obj.items():
        if is_range(v):
            out.append(rng(v))
        elif is_pos(v):
            out.append([clamp(v["line"]), clamp(v["character"]), clamp(v["line"]), clamp(v["character"])])
        else:
            collect_ranges(v, uri, out, other)


def edits_of_workspace_edit(we, uri):
    """WorkspaceEdit -> list of per-file range lists, the requested document first"""
    files = {}
    if not isinstance(we, dict):
        return None
    for u, es in (we.get("changes") or {}).items():
        files.setdefault(u, []).extend(rng(e["range"]) for e in es if is_range(e.get("range")))
    for dc in we.get("documentChanges") or []:
        if isinstance(dc, dict) and "edits" in dc:
            u = (dc.get("textDocument") or {}).get("uri")
            for e in dc["edits"]:
                if is_range(e.get("range")):
                    files.setdefault(u, []).append(rng(e["range"]))
    first = files.pop(uri, [])
    return [first] + [files[k] for k in sorted(files, key=str)]


def normalise(method, params, result, uri, legend, multiline=False):
    """one response -> list of records (without 'lines')"""
    recs = []
    if result is None:
        return recs
    if method == "textDocument/semanticTokens/full":
        if isinstance(result, dict) and "data" in result:
            recs.append({"kind": "semtok", "data": [clamp(x) for x in result["data"]], "ntypes": legend[0], "nmods": legend[1],
                         "multiline": multiline})
    elif method == "textDocument/documentSymbol":
        nodes = []

        def walk(sym, parent):
            if is_range(sym.get("range")) and is_range(sym.get("selectionRange")):
                nodes.append([parent, rng(sym["range"]), rng(sym["selectionRange"])])
                me = len(nodes)
                for ch in sym.get("children") or []:
                    walk(ch, me)
        if isinstance(result, list) and result and "location" not in result[0]:
            for s in result:
                walk(s, 0)
            recs.append({"kind": "symbols", "nodes": nodes})
        else:
            out, other = [], []
            collect_ranges(result, uri, out, other)
            recs.append({"kind": "ranges", "rs": out})
    elif method == "textDocument/foldingRange":
        recs.append({"kind": "folding", "folds": [[clamp(f["startLine"]), clamp(f["endLine"])] for f in result]})
    elif method == "textDocument/selectionRange":
        chains = []
        for sr in result:
            chain = []
            while isinstance(sr, dict) and is_range(sr.get("range")) and len(chain) < 200:
                chain.append(rng(sr["range"]))
                sr = sr.get("parent")
            chains.append(chain)
        recs.append({"kind": "selection", "chains": chains})
    elif method == "textDocument/completion":
        items = result.get("items") if isinstance(result, dict) else result
        edits = []
        for it in (items or [])[:300]:
            te = it.get("textEdit")
            if isinstance(te, dict):
                for k in ("range", "insert", "replace"):
                    if is_range(te.get(k)):
                        edits.append(rng(te[k]))
        p = params["position"]
        if edits:
            recs.append({"kind": "completion", "cursor": [clamp(p["line"]), clamp(p["character"])], "edits": edits})
    elif method == "textDocument/rename":
        files = edits_of_workspace_edit(result, uri)
        if files is not None:
            recs.append({"kind": "edits", "files": files})
    elif method == "textDocument/formatting":
        recs.append({"kind": "edits", "files": [[rng(e["range"]) for e in result if is_range(e.get("range"))]]})
    elif method == "textDocument/codeAction":
        out, other = [], []
        for act in result:
            if isinstance(act, dict) and isinstance(act.get("edit"), dict):
                files = edits_of_workspace_edit(act["edit"], uri)
                if files is not None:
                    recs.append({"kind": "edits", "files": files})
            if isinstance(act, dict):
                collect_ranges(act.get("diagnostics") or [], uri, out, other)
        if out:
            recs.append({"kind": "ranges", "rs": out})
    else:
        out, other = [], []
        collect_ranges(result, uri, out, other)
        if out:
            recs.append({"kind": "ranges", "rs": out})
    return recs


def concrete_doc(d):
    text = d["text"].replace("%E", "é").replace("%U", "\U0001F600")
    if d["crlf"]:
        text = text.replace("\n", "\r\n")
    if not d["final"]:
        text = text[:-2] if d["crlf"] else text[:-1]
    return text


def run(ctx):
    nseq = 0
    # two grids: wide lines, and three short lines (pieces on a middle line)
    for cfg in ctx.pick(("SemTokens_q", "SemTokens_q2"), ("SemTokens_t", "SemTokens_t2")):
        st = vlib.tlc("SemTokens", cfg, workers=ctx.pick(4, 8), timeout=ctx.pick(600, 2400))
        ctx.add_tlc(st)
        if st.violated:
            raise vlib.ToolError("SemTokens/%s: %s is violated: the assume/guarantee split of the builder does not hold "
                                 "as stated\n%s" % (cfg, st.violated, st.trace_text[:2500]))
        nseq += st.distinct
    ctx.note("semtokens_push_sequences", nseq)
    pin = vlib.tlc("SemTokens", "SemTokens_pinned", workers=2, timeout=600)
    ctx.add_tlc(pin)
    if pin.violated != "OutputInDocument":
        raise vlib.ToolError("SemTokens with the 9999-length pieces does not violate OutputInDocument: the model has no teeth")
    dres = vlib.tlc("LsDocs", ctx.pick("LsDocs_q", "LsDocs_t"), workers=2, timeout=600)
    ctx.add_tlc(dres)
    alld = [d for t, d in dres.json if t == "DOC"]
    alld.sort(key=lambda d: json.dumps(d, sort_keys=True))
    rnd = random.Random(ctx.seed)
    singles = [d for d in alld if len(d["stmts"]) == 1]
    pairs = [d for d in alld if len(d["stmts"]) == 2]
    # every template once per (terminator, final newline) variant + a seeded sample of the pairs
    docs = singles + rnd.sample(pairs, ctx.pick(40, 100))
    vlib.build(["vh-ls"])
    uri = L.DOC_URI
    runs, meta = [], {}
    for di, d in enumerate(docs):
        text = concrete_doc(d)
        m = L.doc_metrics("gen", text)
        nl = len(m["lines"])
        whole = [[0, 0], [nl - 1, m["lines"][-1]]]
        steps = [L.open_step(text=text)]
        reqs = {}
        rid = 0

        def add(method, params, cursor=None):
            nonlocal rid
            rid += 1
            steps.append({"op": "req", "id": rid, "method": method, "params": params})
            reqs[rid] = (method, params)

        for meth in DOC_REQS:
            if meth == "textDocument/inlayHint":
                add(meth, L.position_request(meth, uri, whole))
            elif meth == "workspace/symbol":
                add(meth, {"query": ""})
            else:
                add(meth, L.method_table(uri=uri)[meth])
        for ti, tok in enumerate(m["toks"]):
            places = [[tok[0], tok[1]]]
            if tok[2] >= 2:
                places.append([tok[0], tok[1] + tok[2] // 2])
            places.append([tok[0], tok[1] + tok[2]])
            for pi, pl in enumerate(places):
                if ctx.quick:
                    k0 = (ti * 3 + pi * 5 + di) % len(POSITION_REQS)
                    meths = [POSITION_REQS[(k0 + j * 4) % len(POSITION_REQS)] for j in range(3)]
                else:
                    meths = POSITION_REQS
                for meth in meths:
                    if meth in ("textDocument/codeAction", "textDocument/inlineValue"):
                        add(meth, L.position_request(meth, uri, [[tok[0], tok[1]], [tok[0], tok[1] + tok[2]]]))
                    else:
                        add(meth, L.position_request(meth, uri, [pl]))
        # (second seeded round) completion directly behind every `[#` of the document, in both tiers: the array-append
        # item of an unfinished `t[#` must keep its text edit on the cursor's line wherever the closing bracket is
        for li, line in enumerate(L.split_lines(text)):
            for mm in re.finditer(r"\[#", line):
                add("textDocument/completion", L.position_request("textDocument/completion", uri,
                                                                  [[li, L.u16len(line[:mm.end()])]]))
        key = "d%d" % di
        # the same document under both client capability settings: a client without multilineTokenSupport (all requests;
        # multi-line tokens arrive as one piece per line) and a client with it (semantic tokens only)
        runs.append({"run": key, "sched": False, "steps": steps, "caps": {"multilineTokenSupport": False}})
        meta[key] = {"doc": d, "text": text, "lines": m["lines"], "reqs": reqs, "multiline": False}
        st = "textDocument/semanticTokens/full"
        runs.append({"run": "m%d" % di, "sched": False, "caps": {"multilineTokenSupport": True},
                     "steps": [L.open_step(text=text), {"op": "req", "id": 1, "method": st, "params": L.method_table(uri=uri)[st]}]})
        meta["m%d" % di] = {"doc": d, "text": text, "lines": m["lines"], "reqs": {1: (st, L.method_table(uri=uri)[st])},
                            "multiline": True}
    path = os.path.join(ctx.work, "docs_cases.ndjson")
    with open(path, "w") as f:
        for r in runs:
            f.write(json.dumps(r) + "\n")
    root = os.path.join(ctx.work, "ws")
    os.makedirs(root, exist_ok=True)
    p = vlib.run_bin("vh_lsproto", [path, root, "--results"], timeout=ctx.pick(900, 3000))
    events = vlib.ndjson(p.stdout)
    caps = [e for e in events if e.get("ev") == "caps"]
    if not caps:
        raise vlib.ToolError("vh_lsproto --results printed no capabilities")
    stp = (caps[0]["caps"] or {}).get("semanticTokensProvider") or {}
    legend = stp.get("legend") or {}
    legend = (len(legend.get("tokenTypes") or []), len(legend.get("tokenModifiers") or []))
    if legend[0] == 0:
        raise vlib.ToolError("no semantic token legend in server_capabilities")
    ctx.note("legend", {"tokenTypes": legend[0], "tokenModifiers": legend[1]})
    out = L.split_runs(events)
    if len(out) != len(runs):
        raise vlib.ToolError("vh_lsproto played %d of %d runs" % (len(out), len(runs)))
    root_uri = None
    recs, origin = [], []
    answered = 0
    crashed = set()
    for r in out:
        mt = meta[r["run"]]
        for e in r["events"]:
            if e["ev"] != "ssend" or e["kind"] != "resp" or e["id"] not in mt["reqs"]:
                continue
            if not e.get("ok"):
                # no result at all: InternalError is what ServerContext::task answers when the handler panicked
                if e.get("code") == -32603:
                    crashed.add(mt["reqs"][e["id"]][0])
                    ctx.violation("C26/%s/internal-error" % mt["reqs"][e["id"]][0],
                                  {"document": mt["text"], "templates": mt["doc"], "request": mt["reqs"][e["id"]][1],
                                   "answer": {k: v for k, v in e.items() if k != "result"},
                                   "panics_in_run": [x["msg"][:300] for x in r["events"] if x["ev"] == "panic"][:3]})
                continue
            method, params = mt["reqs"][e["id"]]
            answered += 1
            res = e.get("result")
            if root_uri is None:
                # the harness substituted $ROOT; recover the real uri from any result that names it
                root_uri = "file://" + root
            duri = uri.replace("$ROOT", root_uri)
            for rec in normalise(method, params, res, duri, legend, mt["multiline"]):
                rec["lines"] = mt["lines"]
                recs.append(rec)
                origin.append((r["run"], e["id"], method))
            ctx.count((json.dumps(mt["doc"]["stmts"]), mt["doc"]["crlf"], mt["doc"]["final"], mt["multiline"], method,
                       json.dumps(params, sort_keys=True)),
                      nontrivial=res is not None)
    if not recs:
        if crashed:
            return
        raise vlib.ToolError("no structured results recorded")
    rpath = os.path.join(ctx.work, "results.ndjson")
    with open(rpath, "w") as f:
        for rec in recs:
            f.write(json.dumps(rec) + "\n")
    res = vlib.tlc("LsResults", "LsResults", workers=ctx.pick(4, 8), timeout=ctx.pick(900, 3000), env={"RESULTS": rpath})
    ctx.add_tlc(res)
    if res.violated:
        raise vlib.ToolError("LsResults: %s\n%s" % (res.violated, res.trace_text[:2500]))
    verdicts = {v["i"]: v["fails"] for t, v in res.json if t == "RES"}
    if len(verdicts) != len(recs):
        raise vlib.ToolError("LsResults judged %d of %d records\n%s" % (len(verdicts), len(recs), res.out[-1500:]))
    kinds = {}
    for i, rec in enumerate(recs, start=1):
        kinds[rec["kind"]] = kinds.get(rec["kind"], 0) + 1
        fails = verdicts[i]
        ctx.validated(1)
        if not fails:
            continue
        run, rid, method = origin[i - 1]
        mt = meta[run]
        # mechanism keys: an InDoc failure that is entirely explained by a named idiom gets its own signature
        idiom = IDIOMS.get(rec["kind"])
        detail = {"document": mt["text"], "templates": mt["doc"], "request": mt["reqs"][rid][1], "record": rec,
                  "client_multilineTokenSupport": mt["multiline"],
                  "failed_predicates": fails}
        for f in fails:
            if idiom and f == idiom[0]:
                continue
            if f == "InDoc" and idiom and idiom[0] not in fails:
                ctx.violation("C26/%s/InDoc/%s" % (method, idiom[1]), detail)
            else:
                ctx.violation("C26/%s/%s" % (method, f), detail)
    for key in list(meta)[:3]:
        ctx.sample({"document": meta[key]["text"], "requests": len(meta[key]["reqs"])})
    ctx.note("documents", len(docs))
    ctx.note("responses_ok", answered)
    ctx.note("records_by_kind", kinds)
    need = {"ranges", "semtok", "symbols", "folding", "selection", "completion", "edits"}
    if not need <= set(kinds) and not crashed:
        raise vlib.ToolError("result kinds never produced: %s" % sorted(need - set(kinds)))
    ctx.rule("distinct (document, request, params) with a non-null result; every recorded structured result judged by TLC "
             "with the predicates of spec/LsResults.tla")
    ctx.assume("the document at request time is the text sent in didOpen (no edits in these sessions); results naming "
               "another URI are only judged for pairwise disjoint edits")
