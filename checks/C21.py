"""C21: diagnostics are well-formed and complete for syntax errors. DiagWF.tla generates valid / corrupted / truncated
programs; the real diagnose_file results (default and all-codes configuration) are recorded together with the parser's
error list and judged by TLC against the well-formedness predicates of DiagWF.tla."""
import json
import os
import random
import re
import sys

sys.path.insert(0, os.path.dirname(__file__))
import _diag  # noqa: E402
import vlib  # noqa: E402

SPECIAL = {"<STR8>": "\"é\U0001F600\"", "<DOCP>": "---@param x integer", "<DOCT>": "---@type string",
           "<DOCBAD>": "---@param"}
OFF_BY_DEFAULT = ["code-style-check", "incomplete-signature-doc", "missing-global-doc", "unknown-doc-tag",
                  "non-literal-expressions-in-assert"]
CONFIGS = [("default", None, True), ("all", {"diagnostics": {"enables": OFF_BY_DEFAULT}}, True),
           ("nosyntax", {"diagnostics": {"disable": ["syntax-error", "doc-syntax-error"]}}, False),
           # version-dependent lexer / parser errors; only for the uncorrupted programs of the err family
           ("lua51", {"runtime": {"version": "Lua5.1"}}, True)]
SUBST = {"<q>": '"', "<sq>": "'", "<bs>": "\\", "<e2>": "é"}
PLACEHOLDER = re.compile(r"%\{[A-Za-z_][A-Za-z0-9_]*\}|\{[A-Za-z_][A-Za-z0-9_]*\}|\{\}")


def render(toks, nl):
    eol = "\n" if nl == "LF" else "\r\n"
    out, first = [], True
    for t in toks:
        if t == "<NL>":
            out.append(eol)
            first = True
            continue
        if not first:
            out.append(" ")
        t2 = SPECIAL.get(t, t)
        for k, v in SUBST.items():
            t2 = t2.replace(k, v)
        out.append(t2)
        first = False
        if t.startswith("<DOC"):
            out.append(eol)
            first = True
    return "".join(out)


def gen_programs(ctx):
    empty = os.path.join(ctx.work, "empty.ndjson")
    open(empty, "w").close()
    cfg = ctx.pick("DiagWF_q", "DiagWF_t")
    res = vlib.tlc("DiagWF", cfg, workers=4, timeout=ctx.pick(600, 2400), env={"RECS": empty})
    if res.violated:
        raise vlib.ToolError("DiagWF generator: %s" % res.violated)
    ctx.add_tlc(res)
    progs = [p for tag, p in res.json if tag == "PROG"]
    if not ctx.quick:
        res2 = vlib.tlc("DiagWF", "DiagWF_q", workers=4, timeout=900, env={"RECS": empty})
        ctx.add_tlc(res2)
        progs += [p for tag, p in res2.json if tag == "PROG"]
    seen, out = set(), []
    for p in progs:
        text = render(p["toks"], p["nl"])
        key = (text, tuple(p.get("sw") or ()))      # the "sw" family: one text under several switches
        if key not in seen:
            seen.add(key)
            out.append((text, p))
    if ctx.quick:
        rnd = random.Random(ctx.seed)
        # all uncorrupted programs and the whole "err" family; a seeded sample of the corrupted base programs
        plain = [x for x in out if x[1]["mut"][0] == "none" or x[1]["fam"] == "err"]
        rest = [x for x in out if x[1]["mut"][0] != "none" and x[1]["fam"] != "err"]
        out = plain + rnd.sample(rest, min(len(rest), 6000))
    return out


def run(ctx):
    vlib.build(["vh-analysis"])
    if ctx.replay:
        rec = json.load(open(ctx.replay))
        progs = [(rec["detail"]["first"]["program"], {"mut": ["replay", 0], "fam": "replay"})]
    else:
        progs = gen_programs(ctx)
    cases, meta = [], []
    for text, p in progs:
        if p.get("fam") == "sw":
            # DiagWF "sw" family: the switch (which code is off, and how) comes with the program; a switch by comment
            # is already part of the text
            code, how = p["sw"]
            rc = {"diagnostics": {"disable": [code]}} if how == "config" else None
            cases.append(_diag.one_file_case(len(cases), text, rc))
            meta.append((text, "sw:%s:%s" % (code, how), p["off"], p))
            continue
        for cname, rc, syn in CONFIGS:
            if cname == "nosyntax" and len(cases) % 5:
                continue
            if cname == "lua51" and not (p.get("fam") == "err" and p["mut"][0] == "none"):
                continue
            cases.append(_diag.one_file_case(len(cases), text, rc))
            meta.append((text, cname, syn, p))
    out = _diag.run_diag(ctx, cases, timeout=ctx.pick(900, 3000))
    recs, keep = [], []
    for i, (text, cname, syn, p) in enumerate(meta):
        o = out[i]
        if "panic" in o:
            ctx.violation("C12/panic/diagnose_file", {"program": text, "config": cname, "panic": o["panic"]})
            continue
        res = o["results"]["main/a.lua"]
        msgs = {}
        diags = []
        for d in res or []:
            mid = msgs.setdefault(d["msg"], len(msgs))
            # a placeholder left in the message; `{name}` that is a verbatim piece of the program (a message quoting
            # the literal "\u{D800}") is an echo of the source, not a placeholder
            ph = any(m.group(0) not in text for m in PLACEHOLDER.finditer(d["msg"]))
            diags.append(d["r"] + [d["code"] if isinstance(d["code"], str) else "", 0 if d["sev"] is None else 1,
                                   1 if ph else 0, mid, 0 if d["sev"] is None else d["sev"]])
        errs = []
        for e in o["errors"]["main/a.lua"]:
            errs.append(list(_diag.byte_to_pos(text, e["s"])) + list(_diag.byte_to_pos(text, e["e"]))
                        + [msgs.setdefault(e["msg"], len(msgs)), e["kind"]])
        off = syn if isinstance(syn, list) else ([] if syn else ["syntax", "doc"])
        recs.append({"id": len(recs), "lens": _diag.line_table(text), "none": res is None, "syn": not off, "off": off,
                     "diags": diags, "errs": errs})
        keep.append((text, cname, res, o["errors"]["main/a.lua"], p))
    if os.environ.get("VERIF_SELFTEST") == "corrupt-record":
        # binding self-test: move one recorded diagnostic out of the document
        k = next(i for i, r in enumerate(recs) if r["diags"])
        recs[k]["diags"][0][2] = 999
    if os.environ.get("VERIF_SELFTEST") == "corrupt-errmsg":
        # binding self-test: give one recorded parse error a message no diagnostic has
        k = next(i for i, r in enumerate(recs) if r["errs"] and r["syn"] and not r["none"])
        recs[k]["errs"][0][4] = 9999
    path = os.path.join(ctx.work, "recs.ndjson")
    with open(path, "w") as f:
        for r in recs:
            f.write(json.dumps(r) + "\n")
    res = vlib.tlc("DiagWF", "DiagWF_judge", workers=4, timeout=ctx.pick(900, 3000), env={"RECS": path}, xmx="6g")
    if res.violated:
        raise vlib.ToolError("DiagWF judge: %s\n%s" % (res.violated, res.trace_text[:2000]))
    ctx.add_tlc(res)
    verdicts = {v["id"]: v for tag, v in res.json if tag == "VERDICT"}
    if len(verdicts) != len(recs):
        raise vlib.ToolError("DiagWF judge: %d verdicts for %d records" % (len(verdicts), len(recs)))
    viol = {}
    for rid, v in verdicts.items():
        text, cname, diags, errs, p = keep[rid]
        for pred in ("range", "code", "severity", "placeholder", "duplicate", "uncovered"):
            for w in v[pred]:
                if pred == "uncovered":
                    wit = errs[w - 1]
                    at = recs[rid]["errs"][w - 1][:4]
                    other = any(d[:4] == at and d[4] in ("syntax-error", "doc-syntax-error") for d in recs[rid]["diags"])
                    sig = "C21/uncovered-parse-error/%s/%s" % (
                        wit["kind"], "other-message-at-range" if other else "no-diagnostic-at-range")
                    if recs[rid]["off"]:
                        sig += "/other-code-disabled"
                else:
                    wit = diags[w - 1]
                    sig = "C21/%s/%s" % (pred, wit["code"])
                viol.setdefault(sig, []).append({"program": text, "config": cname, "witness": wit,
                                                 "line_table_utf16": recs[rid]["lens"]})
        ctx.count((text, cname), n=len(diags or []) + len(errs), nontrivial=bool(diags) or bool(errs))
    ctx.validated(len(recs))
    ctx.note("programs", len(progs))
    ctx.note("records_with_parse_errors", sum(1 for r in recs if r["errs"]))
    ctx.note("diagnostics_judged", sum(len(r["diags"]) for r in recs))
    ctx.note("err_family_programs", sum(1 for _, p in progs if p.get("fam") == "err"))
    ctx.note("distinct_messages", len({d["msg"] for k in keep for d in (k[2] or [])} | {e["msg"] for k in keep for e in k[3]}))
    ctx.note("records_with_several_messages_at_one_error_range",
             sum(1 for r in recs if len({tuple(e) for e in r["errs"]}) > len({tuple(e[:4]) for e in r["errs"]})))
    ctx.rule("records = (program, configuration) runs of diagnose_file judged by TLC; programs are distinct texts generated by "
             "DiagWF.tla (<= 2 library lines x LF/CRLF x every single-token drop/dup/truncation; the err family: one of 105 "
             "error-template lines -- invalid escapes, unfinished strings, malformed numerals, operators without operand, "
             "stray brackets, broken statements and doc tags -- alone with every token drop / truncation, or next to a valid "
             "line, also under runtime.version = Lua5.1; thorough adds sampled 3-line programs); non-trivial = at least one diagnostic or parse error")
    ctx.assume("LSP positions of the recorded parse errors and the line table are computed by the glue with the LSP 3.17 rules "
               "(UTF-16, CR/LF/CRLF); placeholder = %{name}, {name} or {} left in a message and not a verbatim piece of the program text; a parse error "
               "'appears as a diagnostic' = a syntax-error / doc-syntax-error diagnostic with the error's range and message")
    rnd = random.Random(ctx.seed)
    for k in rnd.sample(range(len(recs)), min(4, len(recs))):
        ctx.sample({"program": keep[k][0], "config": keep[k][1], "record": recs[k]})
    for sig, fs in sorted(viol.items()):
        ctx.violation(sig, {"count": len(fs), "first": fs[0], "more": fs[1:3]})
