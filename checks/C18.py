"""C18: generic functions return their instantiated argument types.

TypeSubst.tla: template family x argument types; the reference matcher (Match) and substitution (Apply, with the
analyser's literal widening of a bare-literal binding) give the expected return type; cases where the reference
has no unique answer are marked not judged by the specification.  Replay: the declaration, typed argument locals
and `local r = f(a1, ..)` are analysed in a VirtualWorkspace; the inferred type of r must have the expected
normal form (union members as a set, aliases expanded: the matcher looks through alias references).
"""
import json
import os
import random
import sys

sys.path.insert(0, os.path.dirname(__file__))
import _typealg
import vlib


def run(ctx):
    cfg = ctx.pick("TypeSubst_q", "TypeSubst_t")
    res = vlib.tlc("TypeSubst", cfg, workers=ctx.pick(4, 8), timeout=ctx.pick(600, 3000))
    ctx.add_tlc(res)
    if res.violated:
        raise vlib.ToolError("TypeSubst violates its own law %s:\n%s" % (res.violated, res.trace_text[:2000]))
    world = [c for t, c in res.json if t == "WORLD"][0]
    cases = [c for t, c in res.json if t == "CASE"]
    if len(cases) != res.distinct:
        raise vlib.ToolError("case extraction lost cases: %d printed, %d distinct states" % (len(cases), res.distinct))
    for i, c in enumerate(cases):
        c["id"] = i
    vlib.build(["vh-analysis"])
    path = _typealg.write_cases(ctx, "subst.ndjson", {"prelude": _typealg.prelude(world, fields=False)},
                                [{"id": c["id"], "decl": c["decl"], "args": c["args"]} for c in cases])
    out, summary = _typealg.run_harness("subst", path, ctx.pick(900, 3000))
    results = {o["id"]: o for o in out if "id" in o}
    if len(results) != len(cases):
        raise vlib.ToolError("subst replay lost cases")
    canon = _typealg.make_canon(world.get("aliasnorm", {}))
    by_sig = {}
    judged = ambiguous = unbound = 0
    per_tpl = {}
    for c in cases:
        r = results[c["id"]]
        if "panic" in r:
            by_sig.setdefault("C18/panic/" + c["tpl"], []).append({"template": c["decl"], "args": c["args"], "panic": r["panic"]})
            continue
        if not c["judged"]:
            ambiguous += 1
            continue
        # binding: the argument locals really have the types the specification means
        if any(canon(a) != canon(n) for a, n in zip(r["args"], c["argnorm"])):
            unbound += 1
            if len(ctx.divergences) < 20:
                ctx.divergence("argument types %r are built as %s, the specification's normal forms are %s" % (
                    c["args"], [canon(a) for a in r["args"]], [canon(n) for n in c["argnorm"]]))
            continue
        judged += 1
        per_tpl[c["tpl"]] = per_tpl.get(c["tpl"], 0) + 1
        ctx.count((c["tpl"],) + tuple(c["args"]), nontrivial=any("(" in k for k in c["argskel"]) or len(c["args"]) > 1)
        got = canon(r["r"])
        exp = canon(c["expected"])
        if got != exp:
            sig = "C18/%s/%s" % (c["tpl"], ",".join(c["argskel"]))
            if c.get("uoc") and got == canon(c["undetermined"]):
                # union-of-containers argument and every type parameter left `unknown`: the matcher bound nothing
                # (incomplete); any other answer -- e.g. one member's element type -- is a wrong substitution
                sig += "/undetermined"
            by_sig.setdefault(sig, []).append({
                "generics": c["decl"]["generics"], "params": c["decl"]["params"], "return": c["decl"]["ret"],
                "argument_types": c["args"], "expected_return_type": c["expected_syntax"],
                "expected_normal_form": exp, "observed_normal_form": got})
    ctx.validated(judged)
    ctx.note("cases", len(cases))
    ctx.note("judged", judged)
    ctx.note("judged_per_template", per_tpl)
    ctx.note("ambiguous_for_the_reference_not_judged", ambiguous)
    ctx.note("argument_not_bound_to_model", unbound)
    ctx.rule("template x argument-type tuples enumerated by TLC (argument types of depth <= 2 and nested containers of "
             "depth 3); judged where the reference matcher has a unique answer binding every parameter of the return type "
             "(an optional pattern `q?` matches q against the whole argument, so optional / union / nil arguments are "
             "judged; a union of arrays / of tables for T[] / table<K,V> is judged element-wise: T := the union of the element "
             "types); non-trivial = a constructed argument type or more than one argument")
    ctx.note("judged_with_union_of_containers_argument", sum(1 for c in cases if c["judged"] and c.get("uoc")))
    ctx.note("judged_with_nullable_argument_for_optional_pattern",
             sum(1 for c in cases if c["judged"] and c.get("optnil")))
    ctx.assume("literal widening as in semantic/generic/widening.rs: a parameter bound to a bare literal type is instantiated "
               "with its base type; nested literals are kept")
    ctx.assume("normal forms: union members as a set; an alias reference equals its origin (tpl_pattern_match escapes aliases)")
    rnd = random.Random(ctx.seed)
    for c in rnd.sample([c for c in cases if c["judged"]], min(6, judged)):
        ctx.sample({"params": c["decl"]["params"], "return": c["decl"]["ret"], "args": c["args"],
                    "expected_return_type": c["expected_syntax"]})
    for sig, fs in sorted(by_sig.items()):
        fs.sort(key=lambda f: len(str(f.get("argument_types", ""))))
        ctx.violation(sig, {"count": len(fs), "first": fs[0], "more": fs[1:4], "world": world})
