"""C27 / C29 / C30 driver: LsSync.tla instantiated with the MINED inline flags, every distinct quiescent
behaviour found by TLC replayed on the real server under the deterministic scheduler (vh_ls_sync)."""
import json
import os
import random

import vlib

BASE = dict(Uris='{"u1"}', Texts='{"t1","t2"}', MaxMsgs=3, MsgKinds='{"open","change","close"}', MaxCfg=0,
            MaxDisk=0, OnDisk='{}', EnableReindex='FALSE', InitOpen='{}', Outside='{}', CfgAddsLib='FALSE', RenameClears='FALSE')

CONFIGS = {
    # name: (overrides, max schedules replayed quick, thorough)
    "S1": (dict(MaxMsgs=4), 400, None),
    "S1d": (dict(MaxMsgs=3, OnDisk='{"u1"}'), 400, None),
    "S1x": (dict(MaxMsgs=5, Texts='{"t1","t2"}'), None, 4000),
    "S1u2": (dict(Uris='{"u1","u2"}', Texts='{"t1"}', MaxMsgs=4, OnDisk='{"u2"}'), None, 4000),
    "S4": (dict(MsgKinds='{"open","change","close","watch","wdel"}', OnDisk='{"u1"}', MaxMsgs=3), 500, None),
    "S4x": (dict(MsgKinds='{"open","change","close","watch","wdel"}', OnDisk='{"u1"}', MaxMsgs=4, Texts='{"t1"}'), None, 6000),
    "S2": (dict(Texts='{"t1"}', MsgKinds='{"open","close","cfg"}', MaxCfg=1, MaxDisk=1, OnDisk='{"u1"}', MaxMsgs=3), 600, None),
    "S2c": (dict(Texts='{"t1"}', MsgKinds='{"open","change","close","cfg"}', MaxCfg=1, MaxDisk=1, OnDisk='{}', MaxMsgs=3), None, 6000),
    "S5": (dict(Texts='{"t1"}', MsgKinds='{"open","change","close","save"}', EnableReindex='TRUE', MaxMsgs=3), 400, None),
    "S5d": (dict(Texts='{"t1"}', MsgKinds='{"open","change","close","save"}', EnableReindex='TRUE', MaxMsgs=3, OnDisk='{"u1"}', MaxDisk=0), 400, None),
    "S5x": (dict(Texts='{"t1","t2"}', MsgKinds='{"open","change","close","save"}', EnableReindex='TRUE', MaxMsgs=4), None, 5000),
    "S2i": (dict(Texts='{"t1","t2"}', MsgKinds='{"change","close","cfg"}', MaxCfg=1, MaxDisk=0, OnDisk='{}', MaxMsgs=2, InitOpen='{"u1"}'), 800, None),
    "S6": (dict(Texts='{"t1","t2"}', MsgKinds='{"open","change","close"}', MaxMsgs=3, Outside='{"u1"}'), 400, None),
    "S6c": (dict(Texts='{"t1","t2"}', MsgKinds='{"change","close","cfg"}', MaxCfg=1, MaxMsgs=2, Outside='{"u1"}', CfgAddsLib='TRUE', InitOpen='{"u1"}'), 400, None),
    "S7": (dict(Uris='{"u1","u2"}', Texts='{"t1"}', MsgKinds='{"open","close","rename"}', MaxMsgs=3, OnDisk='{"u1"}', RenameClears='TRUE'), 400, None),
    "S7x": (dict(Uris='{"u1","u2"}', Texts='{"t1","t2"}', MsgKinds='{"open","change","close","rename"}', MaxMsgs=4, OnDisk='{"u1"}', RenameClears='TRUE'), None, 5000),
    "S4w": (dict(MsgKinds='{"open","change","close","watch"}', OnDisk='{"u1"}', MaxMsgs=3), 400, None),
    "S2n": (dict(Texts='{"t1"}', MsgKinds='{"open","close","cfg"}', MaxCfg=1, MaxDisk=1, OnDisk='{}', MaxMsgs=3), 300, None),
}

PLAN = {
    "C27": {"quick": ["S1", "S1d", "S6", "S4w"], "thorough": ["S1", "S1d", "S6", "S4w", "S1x", "S1u2"]},
    "C29": {"quick": ["S2", "S2n", "S2i", "S6c", "S5"], "thorough": ["S2", "S2n", "S2i", "S6c", "S5", "S5d", "S2c", "S5x"]},
    "C30": {"quick": ["S4", "S1", "S5", "S7"], "thorough": ["S4", "S1", "S5", "S7", "S5d", "S4x", "S2", "S5x", "S7x"]},
}


def mine_inline(ctx):
    vlib.build(["vh-ls"])
    p = vlib.run_bin("vh_ls_mine", [ctx.workfile("mine"), "notif:did"], timeout=600)
    recs = vlib.ndjson(p.stdout)
    inline = [r["inline"] for r in recs if isinstance(r.get("inline"), dict)]
    if not inline or not all(k in inline[0] for k in ("didOpen", "didChange", "didClose")):
        raise vlib.ToolError("could not mine the inline flags: %s\n%s" % (inline, p.stderr[-1500:]))
    return inline[0]


def tla_bool(b):
    return "TRUE" if b else "FALSE"


def py_props(o, s):
    """the three properties evaluated on the REAL final state (used when a replay left the specified path)"""
    fin = o.get("final")
    if not fin:
        return {}
    script = o["script"]
    res = {"c27": True, "c29": True, "c30": True}
    only_doc = all(m["kind"] in ("open", "change", "close", "watch") for m in script)   # as OnlyDocMsgs in LsSync.tla
    disk = s.get("disk", {})
    late = set(s.get("late", []))
    for u in fin["vfs"]:
        doc = [m for m in script if m["uri"] == u and m["kind"] in ("open", "change", "close")]
        last = doc[-1] if doc else None
        is_open = bool(last) and last["kind"] != "close"
        if last and only_doc:
            if is_open and not (fin["open"][u] == last["text"] and fin["vfs"][u] == last["text"]):
                res["c27"] = False
            if not is_open and fin["open"][u] != "none":
                res["c27"] = False
        if s.get("hadReload"):
            if is_open and fin["vfs"][u] != last["text"]:
                res["c29"] = False
            if not is_open and u not in late and u in disk and fin["vfs"][u] != disk[u]:
                res["c29"] = False
        if is_open and fin["vfs"][u] != "absent" and fin["pub"][u] != fin["vfs"][u]:
            res["c30"] = False
        if fin["vfs"][u] == "absent" and fin["pub"][u] not in ("never", "empty"):
            res["c30"] = False
    return res


def escalate(ctx, prop, scripts_seen):
    key = prop.lower()
    items = [json.loads(k) for k in sorted(scripts_seen)]
    rnd = random.Random(ctx.seed)
    if len(items) > ctx.pick(60, 400):
        items = rnd.sample(items, ctx.pick(60, 400))
    path = ctx.workfile("explore_scripts.ndjson")
    with open(path, "w") as f:
        for script, d0, reindex in items:
            f.write(json.dumps({"script": script, "disk0": d0, "reindex": reindex}) + "\n")
    per = ctx.pick(25, 120)
    p = vlib.run_bin("vh_ls_explore", [ctx.workfile("xroot"), path, per, ctx.seed], timeout=ctx.pick(1500, 5400))
    outs = vlib.ndjson(p.stdout)
    ctx.note("escalation", {"scripts": len(items), "schedules_per_script": per, "runs": len(outs)})
    for o in outs:
        ctx.count(("explore", json.dumps(o["trace"])), nontrivial=len(o["trace"]) >= 6)
        kinds = "-".join(m["kind"] for m in o["script"])
        if o["panics"]:
            ctx.violation("%s/explore/panic/%s" % (prop, kinds), o)
            continue
        had_reload = any(m["kind"] == "cfg" for m in o["script"]) or (o.get("reindex") and any(m["kind"] == "save" for m in o["script"]))
        # closed files are not judged here (the model's `late` exemption is not available): every uri counts as late
        pv = py_props({"final": o["final"], "script": o["script"]},
                      {"disk": o["disk0"], "late": list(o["disk0"].keys()), "hadReload": had_reload})
        if key in pv and not pv[key]:
            ctx.violation("%s/explore/%s" % (prop, kinds), {"observed_on_real_server": True, "run": o})


def run(ctx, prop):
    inline = mine_inline(ctx)
    ctx.note("mined_inline", inline)
    key = prop.lower()
    total_sched = 0
    ndiverged = [0]
    scripts_seen = {}
    replayed = 0
    rnd = random.Random(ctx.seed)
    for name in PLAN[prop][ctx.tier]:
        over, qmax, tmax = CONFIGS[name]
        consts = dict(BASE)
        consts.update(over)
        if not (inline["didOpen"] and inline["didChange"] and inline["didClose"]) and consts["MaxMsgs"] > 3:
            # spawned document handlers multiply the interleavings: keep the bounded model small enough to finish
            consts["MaxMsgs"] = 3
        consts.update(InlineOpen=tla_bool(inline["didOpen"]), InlineChange=tla_bool(inline["didChange"]),
                      InlineClose=tla_bool(inline["didClose"]))
        cfgpath = ctx.workfile("LsSync_%s" % name)
        with open(cfgpath + ".cfg", "w") as f:
            f.write("SPECIFICATION Spec\nVIEW view\nCONSTANTS\n" +
                    "".join("  %s = %s\n" % kv for kv in consts.items()) + "INVARIANTS Emit\n")
        res = vlib.tlc("LsSync", cfgpath, workers=ctx.pick(4, 8), timeout=ctx.pick(900, 3600), xmx="6g")
        if res.violated:
            raise vlib.ToolError("LsSync/%s: unexpected TLC error %s\n%s" % (name, res.violated, res.trace_text[:2000]))
        ctx.add_tlc(res)
        sched = [j for t, j in res.json if t == "SCHED"]
        total_sched += len(sched)
        if not sched:
            raise vlib.ToolError("LsSync/%s produced no quiescent behaviour" % name)
        # model-level verdicts first: schedules on which the property fails in the model are always replayed
        bad = [s for s in sched if not s[key]]
        good = [s for s in sched if s[key]]
        cap = qmax if ctx.quick else tmax
        if cap is not None and len(good) > cap:
            good = rnd.sample(good, cap)
        chosen = bad[:300] + good
        path = ctx.workfile("sched_%s.ndjson" % name)
        with open(path, "w") as f:
            for s in chosen:
                f.write(json.dumps(s) + "\n")
        p = vlib.run_bin("vh_ls_sync", [ctx.workfile("root_" + name), path], timeout=ctx.pick(900, 3600))
        outs = vlib.ndjson(p.stdout)
        if len(outs) != len(chosen):
            raise vlib.ToolError("vh_ls_sync returned %d results for %d schedules\n%s" % (len(outs), len(chosen), p.stderr[-2000:]))
        ctx.note("config_" + name, {"constants": consts, "states": res.distinct, "quiescent_behaviours": len(sched),
                                    "model_violations": len(bad), "replayed": len(chosen)})
        for s in sched:
            d0 = s["disk0"]
            if not any(h["a"] == "disk" for h in s["hist"]) and not any(m["kind"] == "rename" for m in s["script"]):
                scripts_seen.setdefault(json.dumps([s["script"], d0, s.get("reindex", False)], sort_keys=True), None)
        for s, o in zip(chosen, outs):
            replayed += 1
            kinds = "-".join(m["kind"] for m in s["script"])
            ctx.count((name, json.dumps([[h["a"], h.get("i"), h.get("uri"), h.get("text")] for h in s["hist"]])), nontrivial=len(s["hist"]) >= 6)
            if o["panics"]:
                ctx.violation("%s/panic/%s" % (prop, kinds), {"config": name, "schedule": s, "panics": o["panics"]})
                continue
            if o["diverged"] is None:
                ctx.validated()
                if not s[key]:
                    # the real server followed the schedule state by state into a state where the property fails
                    ctx.violation("%s/%s/%s" % (prop, name, kinds),
                                  {"config": name, "constants": consts, "schedule": s, "real_final": o["final"],
                                   "confirmed_on_real_server": True})
            else:
                ndiverged[0] += 1
                ctx.divergence("%s sched %d: %s" % (name, o["sched"], json.dumps(o["diverged"])[:300]))
                pv = py_props(o, s)
                if key in pv and not pv[key]:
                    ctx.violation("%s/%s/%s/after-divergence" % (prop, name, kinds),
                                  {"config": name, "schedule": s, "replay": o})
        if chosen:
            s = chosen[-1]
            ctx.sample({"config": name, "script": s["script"],
                        "schedule": [[h["a"], h.get("kind"), h.get("i"), h.get("lock"), h.get("ms")] for h in s["hist"]],
                        "final_state": s["hist"][-1]["st"]})
    ndiv = ndiverged[0]
    if replayed and ndiv * 20 > replayed and not ctx.violations:
        # Escalation (DESIGN 2.2): the specification does not explain the code any more, so it cannot say which
        # interleavings matter. Explore the real server's schedule space directly for the scripts TLC produced and
        # judge the final real states with the property predicates.
        escalate(ctx, prop, scripts_seen)
    ctx.note("replays_diverged", ndiv)
    if replayed and ndiv * 20 > replayed and not ctx.violations:
        # the specification no longer explains the code: that is a finding about the MODEL, escalate as tool error
        raise vlib.ToolError("%d of %d replays diverged from LsSync.tla: the model no longer describes the code; first: %s" % (
            ndiv, replayed, ctx.divergences[0]))
    ctx.rule("every distinct quiescent state of LsSync.tla (TLC, exhaustive for the stated constants, inline flags mined from "
             "the real dispatch) gives one schedule; schedules are replayed step by step on the real server under the "
             "deterministic scheduler with the projected state (open texts, vfs texts, last published diagnostics) compared "
             "after every step; non-trivial = at least 6 steps")
    ctx.assume("one scheduler step = from one lock request to the next (no pre-emption between two lock requests)")
    ctx.assume("diagnostics are a function of the file content (the published text id is read off the unused-local message)")
