"""C04 Parse results do not depend on earlier parses: VfsCache.tla histories replayed through one real Vfs."""
import json
import os
import random

import vlib


def run(ctx):
    # workers=1: with a VIEW that hides the history, only strict BFS guarantees that every abstract state is first
    # reached by a shortest history (the step bound is on the history), i.e. a deterministic, complete history set
    res = vlib.tlc("VfsCache", ctx.pick("VfsCache_q", "VfsCache_t"), workers=1,
                   timeout=ctx.pick(600, 2400), xmx="6g")
    ctx.add_tlc(res)
    if res.violated:
        raise vlib.ToolError("VfsCache: the model violates its own invariant %s\n%s" % (res.violated, res.trace_text[:3000]))
    neg = vlib.tlc("VfsCache", "VfsCache_neg", workers=1, timeout=600)
    ctx.add_tlc(neg)
    if neg.violated != "CacheTransparent":
        raise vlib.ToolError("VfsCache self-check: a cache keyed by text only must violate CacheTransparent, got %r" % neg.violated)
    tables = [t for tag, t in res.json if tag == "TABLE"]
    hists = [h for tag, h in res.json if tag == "HIST"]
    if len(hists) != res.distinct or not tables:
        raise vlib.ToolError("VfsCache: %d histories printed, %d distinct states" % (len(hists), res.distinct))
    hists.sort(key=lambda h: json.dumps(h, sort_keys=True))
    path = os.path.join(ctx.work, "hist.ndjson")
    with open(path, "w") as f:
        f.write(json.dumps({"table": tables[0]}) + "\n")
        for h in hists:
            f.write(json.dumps(h) + "\n")
    vlib.build(["vh-analysis"])
    # self-test of the comparison: a seeded harness-side defect must be noticed
    sp = vlib.run_bin("vh_vfscache", [path], env={"VH_SEEDED": "textkey"}, timeout=ctx.pick(600, 2400))
    ssum = [o["summary"] for o in vlib.ndjson(sp.stdout) if "summary" in o]
    if not ssum or ssum[0]["fails"] == 0:
        raise vlib.ToolError("vh_vfscache self-test: seeded wrong reference tree was not noticed")
    ctx.note("seeded_selftest_fails", ssum[0]["fails"])
    p = vlib.run_bin("vh_vfscache", [path], timeout=ctx.pick(600, 2400))
    out = vlib.ndjson(p.stdout)
    summ = [o["summary"] for o in out if "summary" in o]
    if not summ or summ[0]["histories"] != len(hists):
        raise vlib.ToolError("vh_vfscache produced no/incomplete summary\n" + p.stderr[-2000:])
    ctx.cov["evaluations"] = summ[0]["evaluations"]
    ctx.validated(len(hists))
    for h in hists:
        acts = tuple((s["a"], s["f"], s["s"], s["lv"]) for s in h["h"])
        sets = [s for s in h["h"] if s["a"] == "Set"]
        ctx.count(acts, n=0, nontrivial=len(sets) >= 2)
    groups = {}
    for o in out:
        if "fail" not in o:
            continue
        if o["fail"] == "model-kind":
            # the model's lexer assumption is wrong: spec problem, not a verdict on the cache
            ctx.divergence({"model_kind_mismatch": o})
            continue
        h = o.get("h") or []
        lvchange = sum(1 for s in h[1:] if s["a"] == "Level") > 0
        sig = "C04/%s/%s" % (o["fail"], "after-level-change" if lvchange else "same-level")
        groups.setdefault(sig, []).append(o)
    for sig, fs in sorted(groups.items()):
        ctx.violation(sig, {"count": len(fs), "first": fs[0], "more_histories": [f.get("h") for f in fs[1:4]],
                            "oracle": "tree dump + error list through the shared Vfs cache == fresh standalone parse"})
    ctx.cov["exhaustive"] = True
    ctx.rule("one case = one history of <= MaxSteps SetContent/Remove/SetLevel actions over 2 files x near-duplicate "
             "snippets x levels, one representative per abstract state (files, cache keys, level) of VfsCache.tla; "
             "after every step every file's tree dump + errors is compared with a fresh parse; "
             "non-trivial = at least two SetContent actions")
    rnd = random.Random(ctx.seed)
    for h in rnd.sample(hists, min(4, len(hists))):
        ctx.sample({"history": [(s["a"], s["f"], s["s"], s["lv"]) for s in h["h"]]})
    ctx.assume("rowan interning modelled at token granularity only (key = kind + text); node-level sharing is exercised "
               "by the replay, not modelled")
