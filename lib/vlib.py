"""Shared machinery for /verif checks.

A check is a python module /verif/checks/<ID>.py exposing `run(ctx)`; `bin/vcheck` creates the Ctx,
calls run, then `ctx.finish()` writes the evidence file and decides the exit status:

  0  property held on everything explored (KNOWN-FINDING lines allowed)
  1  at least one violation not listed in known_findings.json (VIOLATION line printed per violation)
  2  tool error (build failure, TLC crash, timeout of a tool) -- never a verdict

Nothing here lives under /tmp: scratch is /verif/.work/<id>, replay files /verif/replay/<id>/.
"""
import fcntl
import hashlib
import json
import os
import re
import shutil
import subprocess
import sys
import time

VERIF = os.path.dirname(os.path.dirname(os.path.abspath(__file__)))
REPO = os.environ.get("VERIF_REPO", "/repo")
SPEC = os.path.join(VERIF, "spec")
HARNESS = os.path.join(VERIF, "harness")
TLA_JAR = "/opt/veriftools/tla/tla2tools.jar"
TLA_CP = TLA_JAR + ":/opt/veriftools/tla/CommunityModules-deps.jar"
PROFILE = "release"  # harness profile: opt-level 1 + debug assertions (see harness/Cargo.toml)


class ToolError(Exception):
    pass


def log(*a):
    print("[vcheck]", *a, file=sys.stderr, flush=True)


# --------------------------------------------------------------------------------------------
# TLC
# --------------------------------------------------------------------------------------------
class TlcResult:
    def __init__(self):
        self.rc = None
        self.out = ""
        self.generated = 0
        self.distinct = 0
        self.depth = 0
        self.printed = []       # values printed by PrintT / Print, raw text lines
        self.json = []          # decoded JSON payloads of lines <<"TAG", "json">>
        self.violated = None    # name of violated invariant / "deadlock" / "postcondition"
        self.trace_text = ""    # counterexample text
        self.coverage = {}      # action -> (taken, distinct)
        self.wall = 0.0

    @property
    def ok(self):
        return self.rc == 0 and self.violated is None


_PRINT_RE = re.compile(r'^<<"([A-Z_0-9]+)", "(.*)">>$')


def _unescape_tla_string(s):
    # TLC prints strings with backslash escapes for \ and "
    out = []
    i = 0
    while i < len(s):
        c = s[i]
        if c == "\\" and i + 1 < len(s):
            n = s[i + 1]
            if n == "n":
                out.append("\n")
            elif n == "t":
                out.append("\t")
            elif n == "r":
                out.append("\r")
            elif n == "f":
                out.append("\f")
            else:
                out.append(n)
            i += 2
        else:
            out.append(c)
            i += 1
    return "".join(out)


def parse_tlc_output(text, res):
    res.out = text
    m = None
    for m in re.finditer(r"(\d+) states generated, (\d+) distinct states found", text):
        pass
    if m:
        res.generated = int(m.group(1))
        res.distinct = int(m.group(2))
    m = re.search(r"The depth of the complete state graph search is (\d+)", text)
    if m:
        res.depth = int(m.group(1))
    # simulation mode statistics
    m = re.search(r"Progress: (\d+) states checked, (\d+) traces generated", text)
    if m and res.generated == 0:
        res.generated = int(m.group(1))
    for line in text.splitlines():
        mm = _PRINT_RE.match(line.strip())
        if mm:
            tag, payload = mm.group(1), _unescape_tla_string(mm.group(2))
            try:
                res.json.append((tag, json.loads(payload)))
            except Exception:
                res.printed.append(line.strip())
    m = re.search(r"Error: Invariant (\S+) is violated", text)
    if m:
        res.violated = m.group(1)
    elif "Error: Deadlock reached" in text:
        res.violated = "deadlock"
    elif re.search(r"Error: Action property (\S+) is violated", text):
        res.violated = re.search(r"Error: Action property (\S+) is violated", text).group(1)
    elif "Temporal properties were violated" in text:
        res.violated = "temporal"
    elif re.search(r"Error: The postcondition (\S+)? ?is violated|Error: POSTCONDITION", text) or \
            "Post-condition" in text and "violated" in text:
        res.violated = "postcondition"
    elif re.search(r"Error: Assumption .* is false", text):
        res.violated = "assumption"
    if res.violated:
        i = text.find("Error:")
        res.trace_text = text[i:i + 20000]
    for m in re.finditer(r"^<(\w+) line (\d+), col \d+ to line \d+, col \d+ of module (\w+)>: (\d+):(\d+)",
                         text, re.M):
        res.coverage[m.group(1)] = (int(m.group(5)), int(m.group(4)))
    return res


def tlc(module, cfg=None, *, workers=4, timeout=600, simulate=None, depth=None, seed=None,
        env=None, deadlock=False, coverage=False, metadir=None, xmx="4g", dfs=False,
        extra=(), cwd=SPEC, fp=None):
    """Run TLC on spec/<module>.tla with spec/<cfg>.cfg. simulate="num=500" switches to simulation."""
    cfg = cfg or module
    md = metadir or os.path.join(VERIF, ".tlc", "%s_%s_%d" % (module, cfg, os.getpid()))
    shutil.rmtree(md, ignore_errors=True)
    os.makedirs(md, exist_ok=True)
    # TLC unpacks its standard modules into java.io.tmpdir on every run: keep that inside the run's metadir
    # (removed afterwards) instead of littering /tmp
    jopts = ["-XX:+UseParallelGC", "-Xmx" + xmx, "-Xss1g", "-Djava.io.tmpdir=" + md]
    if dfs:
        jopts.append("-Dtlc2.tool.queue.IStateQueue=StateDeque")
    cmd = ["java"] + jopts + ["-cp", TLA_CP, "tlc2.TLC", "-workers", str(workers),
                              "-metadir", md, "-noGenerateSpecTE", "-config", cfg + ".cfg"]
    if not deadlock:
        cmd += ["-deadlock"]  # -deadlock = do NOT check deadlock
    if coverage:
        cmd += ["-coverage", "1"]
    if simulate:
        cmd += ["-simulate", simulate]
        if depth:
            cmd += ["-depth", str(depth)]
    if seed is not None:
        cmd += ["-seed", str(seed)]
    if fp is not None:
        cmd += ["-fp", str(fp)]
    cmd += list(extra) + [module + ".tla"]
    e = dict(os.environ)
    e.pop("JAVA_TOOL_OPTIONS", None)
    if env:
        e.update({k: str(v) for k, v in env.items()})
    t0 = time.time()
    res = TlcResult()
    try:
        p = subprocess.run(cmd, cwd=cwd, env=e, stdout=subprocess.PIPE, stderr=subprocess.STDOUT,
                           timeout=timeout, text=True, errors="replace")
    except subprocess.TimeoutExpired as ex:
        shutil.rmtree(md, ignore_errors=True)
        raise ToolError("TLC timeout after %ss on %s/%s" % (timeout, module, cfg)) from ex
    finally:
        pass
    res.wall = time.time() - t0
    res.rc = p.returncode
    parse_tlc_output(p.stdout, res)
    shutil.rmtree(md, ignore_errors=True)
    # rc 0 ok; 12 = safety violation; 13 = liveness; 11 = deadlock; 10 = assumption; others = tool error
    if res.rc not in (0, 10, 11, 12, 13) or (res.rc != 0 and res.violated is None):
        tail = p.stdout[-3000:]
        raise ToolError("TLC failed rc=%s on %s/%s:\n%s" % (res.rc, module, cfg, tail))
    return res


def sany(module, cwd=SPEC):
    p = subprocess.run(["java", "-cp", TLA_CP, "tla2sany.SANY", module + ".tla"], cwd=cwd,
                       stdout=subprocess.PIPE, stderr=subprocess.STDOUT, text=True)
    ok = p.returncode == 0 and "Semantic errors" not in p.stdout and "Parse Error" not in p.stdout \
        and "***Parse" not in p.stdout and "Could not" not in p.stdout
    return ok, p.stdout


# --------------------------------------------------------------------------------------------
# harness build / run
# --------------------------------------------------------------------------------------------
def cargo_env():
    e = dict(os.environ)
    e["CARGO_NET_OFFLINE"] = "true"
    e.setdefault("CARGO_TERM_COLOR", "never")
    return e


def build(packages, timeout=3000):
    """cargo build the given harness packages against /repo's working tree; returns target bin dir."""
    if isinstance(packages, str):
        packages = [packages]
    os.makedirs(os.path.join(HARNESS, "target"), exist_ok=True)
    lock = open(os.path.join(HARNESS, "target", ".vbuild.lock"), "w")
    fcntl.flock(lock, fcntl.LOCK_EX)
    try:
        # Always build the whole harness workspace: one feature unification => /repo crates are
        # compiled once for all harness packages. --keep-going so that an unrelated harness package
        # that fails to compile does not block this check; only failures of the requested packages
        # or of /repo crates count.
        cmd = ["cargo", "build", "--offline", "--release", "--workspace", "--keep-going"]
        t0 = time.time()
        p = subprocess.run(cmd, cwd=HARNESS, env=cargo_env(), stdout=subprocess.PIPE,
                           stderr=subprocess.STDOUT, text=True, timeout=timeout)
        log("build (for %s): rc=%d %.0fs" % (" ".join(packages), p.returncode, time.time() - t0))
        if p.returncode != 0:
            # "could not compile `pkg` (bin "name")" / "(lib)" / plain
            broken = re.findall(r"could not compile `([^`]+)`(?: \((bin|lib)(?: \"([^\"]+)\")?\))?", p.stdout)
            fatal = []
            for pkg, kind, name in broken:
                if pkg.startswith("vh-") and kind == "bin":
                    BROKEN_BINS.add(name)       # only fatal if this check later runs that binary
                elif pkg.startswith("vh-") and pkg not in packages and kind != "lib":
                    continue
                else:
                    fatal.append(pkg)
            if fatal or not broken:
                raise ToolError("harness build failed (%s):\n%s" % (",".join(fatal), p.stdout[-6000:]))
            log("build: ignoring failures of harness bins not (yet) used by this check: %s" % ",".join(sorted(BROKEN_BINS)))
            BUILD_LOG[0] = p.stdout[-6000:]
    finally:
        fcntl.flock(lock, fcntl.LOCK_UN)
        lock.close()
    return os.path.join(HARNESS, "target", "release")


BROKEN_BINS = set()
BUILD_LOG = [""]


def bin_path(name):
    return os.path.join(HARNESS, "target", "release", name)


def run_bin(name, args=(), *, input=None, timeout=1200, env=None, cwd=None, check=True):
    """Run a harness binary; returns CompletedProcess (stdout text)."""
    if name in BROKEN_BINS:
        raise ToolError("harness binary %s failed to compile:\n%s" % (name, BUILD_LOG[0]))
    e = dict(os.environ)
    if env:
        e.update({k: str(v) for k, v in env.items()})
    try:
        p = subprocess.run([bin_path(name)] + [str(a) for a in args], input=input, stdout=subprocess.PIPE,
                           stderr=subprocess.PIPE, text=True, timeout=timeout, env=e, cwd=cwd,
                           errors="replace")
    except subprocess.TimeoutExpired as ex:
        raise ToolError("harness %s timed out after %ss" % (name, timeout)) from ex
    if check and p.returncode != 0:
        raise ToolError("harness %s rc=%s\n%s" % (name, p.returncode, p.stderr[-4000:]))
    return p


def ndjson(text):
    out = []
    for line in text.splitlines():
        line = line.strip()
        if line.startswith("{") or line.startswith("["):
            try:
                out.append(json.loads(line))
            except Exception:
                pass
    return out


# --------------------------------------------------------------------------------------------
# known findings
# --------------------------------------------------------------------------------------------
def load_known_findings():
    """known_findings.json (+ fragments under known_findings.d/): {"findings": [...], "fixed": [...]}"""
    import glob
    out = {"findings": [], "fixed": []}
    seen = set()
    paths = [os.path.join(VERIF, "known_findings.json")] + sorted(glob.glob(os.path.join(VERIF, "known_findings.d", "*.json")))
    for p in paths:
        if not os.path.exists(p):
            continue
        with open(p) as f:
            d = json.load(f)
        if isinstance(d, list):
            d = {"findings": [x for x in d if "fixed" not in x], "fixed": [x for x in d if "fixed" in x]}
        for f in d.get("findings", []):
            k = json.dumps(f, sort_keys=True)
            if k not in seen:
                seen.add(k)
                out["findings"].append(f)
        for f in d.get("fixed", []):
            k = json.dumps(f, sort_keys=True)
            if k not in seen:
                seen.add(k)
                out["fixed"].append(f)
    return out


# --------------------------------------------------------------------------------------------
# context
# --------------------------------------------------------------------------------------------
class Ctx:
    def __init__(self, pid, tier, seed, level, replay=None):
        self.id = pid
        self.tier = tier
        self.seed = seed
        self.level = level
        self.replay = replay
        self.t0 = time.time()
        self.work = os.path.join(VERIF, ".work", pid)
        shutil.rmtree(self.work, ignore_errors=True)
        os.makedirs(self.work, exist_ok=True)
        self.replay_dir = os.path.join(VERIF, "replay", pid)
        self.kf = [f for f in load_known_findings().get("findings", []) if f.get("property") == pid]
        self.kf_hit = {}
        self.violations = []
        self.divergences = []
        self.cov = {"evaluations": 0, "distinct_nontrivial": 0, "rule": "", "samples": [],
                    "states": 0, "transitions": 0, "traces_validated_against_impl": 0}
        self.assumptions = []
        self._distinct = set()
        self._printed = set()

    def workfile(self, name):
        """Path of a scratch file under .work/<id> (directory re-created if something removed it)."""
        os.makedirs(self.work, exist_ok=True)
        return os.path.join(self.work, name)

    @property
    def quick(self):
        return self.tier == "quick"

    def pick(self, quick, thorough):
        return quick if self.tier == "quick" else thorough

    # --- coverage accounting -------------------------------------------------------------
    def add_tlc(self, res):
        self.cov["states"] += res.distinct
        self.cov["transitions"] += res.generated
        self.cov.setdefault("tlc_runs", []).append(
            {"distinct": res.distinct, "generated": res.generated, "depth": res.depth,
             "wall_s": round(res.wall, 1)})

    def count(self, case_key=None, n=1, nontrivial=True):
        """Count an evaluation; case_key (hashable/str) identifies the distinct case."""
        self.cov["evaluations"] += n
        if case_key is not None and nontrivial:
            h = hashlib.sha1(repr(case_key).encode()).digest()[:8]
            self._distinct.add(h)

    def validated(self, n=1):
        self.cov["traces_validated_against_impl"] += n

    def sample(self, obj, limit=8):
        if len(self.cov["samples"]) < limit:
            self.cov["samples"].append(obj)

    def rule(self, text):
        self.cov["rule"] = text

    def assume(self, text):
        if text not in self.assumptions:
            self.assumptions.append(text)

    def note(self, key, value):
        self.cov[key] = value

    # --- verdicts ---------------------------------------------------------------------------
    def match_known(self, signature):
        for f in self.kf:
            if "signature" in f and f["signature"] == signature:
                return f
            if "signature_re" in f and re.fullmatch(f["signature_re"], signature):
                return f
        return None

    def violation(self, signature, detail):
        """Report a property violation observed on the real code (or on a model with mined parameters).

        signature: stable mechanism/input key, matched against known_findings.json.
        detail: JSON-serialisable replay object (concrete input/history/schedule + expected/observed).
        """
        f = self.match_known(signature)
        if f is not None:
            k = f.get("id", signature)
            self.kf_hit[k] = self.kf_hit.get(k, 0) + 1
            if k not in self._printed:
                self._printed.add(k)
                print("KNOWN-FINDING: property=%s %s" % (self.id, f.get("what", signature)), flush=True)
            return False
        os.makedirs(self.replay_dir, exist_ok=True)
        h = hashlib.sha1((signature + json.dumps(detail, sort_keys=True, default=str)).encode()).hexdigest()[:12]
        path = os.path.join(self.replay_dir, "%s.json" % h)
        with open(path, "w") as fo:
            json.dump({"property": self.id, "signature": signature, "detail": detail}, fo, indent=1,
                      default=str)
        self.violations.append({"signature": signature, "replay": path})
        if len(self.violations) <= 25:
            print("VIOLATION property=%s replay=%s" % (self.id, path), flush=True)
            log("violation signature:", signature)
        return True

    def divergence(self, what):
        if len(self.divergences) < 50:
            self.divergences.append(what)

    def finish(self):
        self.cov["distinct_nontrivial"] = max(self.cov["distinct_nontrivial"], len(self._distinct))
        self.cov["known_findings_reproduced"] = self.kf_hit
        self.cov["divergences"] = self.divergences
        ev = {
            "property_id": self.id,
            "tier": self.tier,
            "seed": int(self.seed),
            "level": self.level,
            "coverage": self.cov,
            "assumptions": self.assumptions,
            "wall_s": round(time.time() - self.t0, 2),
            "violations": len(self.violations),
        }
        os.makedirs(os.path.join(VERIF, "evidence"), exist_ok=True)
        if not self.replay:
            with open(os.path.join(VERIF, "evidence", self.id + ".json"), "w") as f:
                json.dump(ev, f, indent=1, default=str)
        shutil.rmtree(self.work, ignore_errors=True)
        return 1 if self.violations else 0
