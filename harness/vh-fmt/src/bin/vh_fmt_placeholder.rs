fn main() { println!("placeholder"); }
