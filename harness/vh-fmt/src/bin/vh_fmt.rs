//! Recording side of FmtTokens.tla (C05, C06, C07): runs the real formatter and dumps token streams.
//!
//! stdin/arg: NDJSON cases
//!   {"id":..,"text":"lua source","cfg":{..LuaFormatConfig json (partial)..},
//!    "sels":[[start,end],...]?   (byte offsets; range formatting is run for each)}
//! stdout: one NDJSON line per case
//!   {"id","in_err":bool,"in":[tok..],"out_text","out_err":n,"out":[tok..],"idem":bool,"out2_text"?,
//!    "panic"?:msg,
//!    "ranges":[{"sel":[s,e],"none":bool,"rs","re","text","spliced_err":n,"spliced":[tok..],
//!               "outside_ok":bool,"panic"?}]}
//! A token is {"k":kind,"t":text,"v":decoded string value (short/long strings only),"c":1 if it
//! lies inside a Comment node,"o":byte offset}; whitespace and end-of-line tokens are dropped; every
//! Comment node is preceded by a pseudo token {"k":"#Comment","t":"<preorder of node kinds>"}.
//! No judgement is made here: FmtTokens.tla (via TLC) decides which differences are acceptable.
use emmylua_formatter::{LuaFormatConfig, SourceText, reformat_lua_code, reformat_range};
use emmylua_parser::{
    LuaAstToken, LuaKind, LuaLanguageLevel, LuaParser, LuaStringToken, LuaSyntaxKind, LuaSyntaxNode,
    LuaTokenKind, ParserConfig,
};
use rowan::{NodeOrToken, TextRange, TextSize, WalkEvent};
use vh_common::{Value, emit, guarded, json, quiet_panics, read_cases};

fn comment_shape(node: &LuaSyntaxNode) -> String {
    let mut s = String::new();
    for ev in node.preorder() {
        match ev {
            WalkEvent::Enter(n) => {
                s.push_str(&format!("{:?}(", n.kind().to_syntax()));
            }
            WalkEvent::Leave(_) => s.push(')'),
        }
    }
    s
}

fn tokens(text: &str, level: LuaLanguageLevel) -> (Vec<Value>, usize) {
    let tree = LuaParser::parse(text, ParserConfig::with_level(level));
    let nerr = tree.get_errors().len();
    let root = tree.get_red_root();
    let mut out = Vec::new();
    let mut comment_depth = 0usize;
    for ev in root.preorder_with_tokens() {
        match ev {
            WalkEvent::Enter(NodeOrToken::Node(n)) => {
                if n.kind() == LuaKind::Syntax(LuaSyntaxKind::Comment) {
                    if comment_depth == 0 {
                        out.push(json!({"k": "#Comment", "t": comment_shape(&n), "c": 1,
                                        "o": u32::from(n.text_range().start())}));
                    }
                    comment_depth += 1;
                }
            }
            WalkEvent::Leave(NodeOrToken::Node(n)) => {
                if n.kind() == LuaKind::Syntax(LuaSyntaxKind::Comment) {
                    comment_depth -= 1;
                }
            }
            WalkEvent::Enter(NodeOrToken::Token(t)) => {
                let k = t.kind().to_token();
                if matches!(k, LuaTokenKind::TkWhitespace | LuaTokenKind::TkEndOfLine) {
                    continue;
                }
                let mut o = json!({"k": format!("{:?}", k), "t": t.text(), "o": u32::from(t.text_range().start())});
                if comment_depth > 0 {
                    o["c"] = json!(1);
                }
                if matches!(k, LuaTokenKind::TkString | LuaTokenKind::TkLongString) && comment_depth == 0 {
                    if let Some(s) = LuaStringToken::cast(t.clone()) {
                        o["v"] = json!(s.get_value());
                    }
                }
                out.push(o);
            }
            WalkEvent::Leave(NodeOrToken::Token(_)) => {}
        }
    }
    // text the tree does not cover at all (lossless-tree defect, C01): keep it visible as a token
    let covered = usize::from(root.text_range().end());
    if covered < text.len() && text.is_char_boundary(covered) {
        out.push(json!({"k": "#Unparsed", "t": &text[covered..], "o": covered}));
    }
    (out, nerr)
}

/// Where two texts first differ, described by the syntax around that offset in `a` (for signatures).
fn drift(a: &str, b: &str, level: LuaLanguageLevel) -> Value {
    let mut off = a.bytes().zip(b.bytes()).take_while(|(x, y)| x == y).count();
    while off > 0 && !a.is_char_boundary(off) {
        off -= 1;
    }
    let strip = |s: &str| s.chars().filter(|c| !c.is_whitespace()).collect::<String>();
    let ws_only = strip(a) == strip(b);
    let tree = LuaParser::parse(a, ParserConfig::with_level(level));
    let root = tree.get_red_root();
    let probe = TextSize::new(off.min(a.len().saturating_sub(1)) as u32);
    let mut node_kind = String::from("none");
    let mut stat_kind = String::from("none");
    let mut token_kind = String::from("none");
    let mut owner_kind = String::from("none");
    let mut path: Vec<String> = Vec::new(); // node kinds from the innermost node up to the enclosing statement
    if let Some(tok) = root.token_at_offset(probe).right_biased() {
        token_kind = format!("{:?}", tok.kind().to_token());
        let mut first = true;
        for n in tok.parent_ancestors() {
            let k = format!("{:?}", n.kind().to_syntax());
            if first {
                node_kind = k.clone();
                first = false;
            }
            path.push(k.clone());
            if k.ends_with("Stat") || k == "Comment" || k.starts_with("DocTag") {
                stat_kind = k;
                // what the comment / statement hangs on (Block, TableObjectExpr, CallArgList, ParamList ..)
                if let Some(p) = n.parent() {
                    owner_kind = format!("{:?}", p.kind().to_syntax());
                }
                break;
            }
        }
    }
    let line = |s: &str| {
        let start = s[..off.min(s.len())].rfind('\n').map(|i| i + 1).unwrap_or(0);
        let end = s[start..].find('\n').map(|i| start + i).unwrap_or(s.len());
        s[start..end].to_string()
    };
    json!({"off": off, "ws_only": ws_only, "token": token_kind, "node": node_kind, "stat": stat_kind, "owner": owner_kind, "path": path,
           "line1": line(a), "line2": line(b)})
}

fn level_of(cfg: &LuaFormatConfig) -> LuaLanguageLevel {
    cfg.syntax.level.into()
}

fn main() {
    quiet_panics();
    let args: Vec<String> = std::env::args().collect();
    let cases = read_cases(args.get(1).map(|s| s.as_str()));
    let with_tokens = std::env::var("VH_FMT_NO_TOKENS").is_err();
    for case in cases.iter() {
        let id = case["id"].clone();
        let text = case["text"].as_str().unwrap_or("").to_string();
        let cfg: LuaFormatConfig = match serde_json::from_value(case["cfg"].clone()) {
            Ok(c) => c,
            Err(e) => {
                emit(&json!({"id": id, "cfg_error": e.to_string()}));
                continue;
            }
        };
        let level = level_of(&cfg);
        let (in_toks, in_err) = tokens(&text, level);
        let mut rec = json!({"id": id, "in_err": in_err > 0});
        if with_tokens {
            rec["in"] = json!(in_toks);
        }
        let formatted = guarded(|| reformat_lua_code(&SourceText { text: &text, level }, &cfg));
        match formatted {
            Err(msg) => {
                rec["panic"] = json!(msg);
            }
            Ok(out) => {
                let (out_toks, out_err) = tokens(&out, level);
                rec["out_err"] = json!(out_err);
                if with_tokens {
                    rec["out"] = json!(out_toks);
                }
                match guarded(|| reformat_lua_code(&SourceText { text: &out, level }, &cfg)) {
                    Ok(out2) => {
                        rec["idem"] = json!(out2 == out);
                        if out2 != out {
                            rec["drift"] = drift(&out, &out2, level);
                            rec["out2_text"] = json!(out2);
                        }
                    }
                    Err(msg) => {
                        rec["panic2"] = json!(msg);
                    }
                }
                rec["out_text"] = json!(out);
            }
        }
        if let Some(sels) = case["sels"].as_array() {
            let mut rs = Vec::new();
            for sel in sels {
                let s = sel[0].as_u64().unwrap() as u32;
                let e = sel[1].as_u64().unwrap() as u32;
                let mut r = json!({"sel": [s, e]});
                let res = guarded(|| {
                    reformat_range(
                        &SourceText { text: &text, level },
                        TextRange::new(TextSize::new(s), TextSize::new(e.max(s))),
                        &cfg,
                    )
                });
                match res {
                    Err(msg) => {
                        r["panic"] = json!(msg);
                    }
                    Ok(None) => {
                        r["none"] = json!(true);
                    }
                    Ok(Some(o)) => {
                        let a = usize::from(o.replace_range.start());
                        let b = usize::from(o.replace_range.end());
                        r["none"] = json!(false);
                        r["rs"] = json!(a);
                        r["re"] = json!(b);
                        r["text"] = json!(o.text);
                        if a <= b && b <= text.len() && text.is_char_boundary(a) && text.is_char_boundary(b) {
                            let spliced = format!("{}{}{}", &text[..a], o.text, &text[b..]);
                            let (st, se) = tokens(&spliced, level);
                            r["range_ok"] = json!(true);
                            r["spliced_err"] = json!(se);
                            if with_tokens {
                                r["spliced"] = json!(st);
                            }
                            r["spliced_text"] = json!(spliced);
                        } else {
                            r["range_ok"] = json!(false);
                        }
                    }
                }
                rs.push(r);
            }
            rec["ranges"] = json!(rs);
        }
        emit(&rec);
    }
}
