//! Replays ConfigMerge.tla cases (C31, C32) into the real configuration loader.
//!
//! usage: vh_config <cases.ndjson> <scratch-dir>
//! Each case {"id", "files":[{"name","text"|null}], "pre":bool, "ws":str, "expect_raw":json|null} is written
//! as real files under <scratch-dir>/<id>/ and loaded by `load_configs_raw`, `load_configs` and (if "pre")
//! `Emmyrc::pre_process_emmyrc`, each under catch_unwind.  One NDJSON line per case goes to stdout:
//!   {"id", "raw": json|null, "panic": msg|null, "typed": digest, "typed_ok": bool|null, "paths": {...}|null}
//! "typed_ok" compares the serialised `Emmyrc` returned by `load_configs` with
//! `serde_json::from_value::<Emmyrc>(expect_raw)` (falling back to `Emmyrc::default()` exactly like the
//! loader does), i.e. the merge semantics come from the specification, only serde is trusted.
//! The process is meant to be started several times: hashbrown's iteration order changes per process.
use emmylua_code_analysis::{Emmyrc, load_configs, load_configs_raw};
use std::collections::hash_map::DefaultHasher;
use std::hash::{Hash, Hasher};
use std::path::PathBuf;
use vh_common::{Value, emit, guarded, json, quiet_panics, read_cases};

fn digest(s: &str) -> String {
    // SipHash with fixed keys: stable across processes
    let mut h = DefaultHasher::new();
    s.hash(&mut h);
    format!("{:016x}", h.finish())
}

fn main() {
    quiet_panics();
    let args: Vec<String> = std::env::args().collect();
    let cases = read_cases(args.get(1).map(|s| s.as_str()));
    let scratch = PathBuf::from(args.get(2).expect("scratch dir"));
    let mut panics = 0u64;
    for case in &cases {
        let id = case["id"].as_str().unwrap();
        let dir = scratch.join(id);
        std::fs::create_dir_all(&dir).expect("mkdir");
        let mut files = Vec::new();
        for f in case["files"].as_array().unwrap() {
            let p = dir.join(f["name"].as_str().unwrap());
            if let Some(t) = f["text"].as_str() {
                std::fs::write(&p, t).expect("write config file");
            }
            files.push(p);
        }
        let mut panic_msg: Option<String> = None;
        let raw = match guarded(|| load_configs_raw(files.clone(), None)) {
            Ok(v) => v,
            Err(m) => {
                panic_msg = Some(format!("load_configs_raw: {m}"));
                Value::Null
            }
        };
        let mut typed_digest = Value::Null;
        let mut typed_ok = Value::Null;
        let mut paths = Value::Null;
        match guarded(|| load_configs(files.clone(), None)) {
            Err(m) => {
                panic_msg.get_or_insert(format!("load_configs: {m}"));
            }
            Ok(mut emmyrc) => {
                let ser = serde_json::to_string(&emmyrc).expect("serialise Emmyrc");
                typed_digest = json!(digest(&ser));
                if !case["expect_raw"].is_null() {
                    let want: Emmyrc =
                        serde_json::from_value(case["expect_raw"].clone()).unwrap_or_default();
                    let want_ser = serde_json::to_string(&want).expect("serialise Emmyrc");
                    typed_ok = json!(want_ser == ser);
                }
                if case["pre"].as_bool().unwrap_or(false) {
                    let ws = PathBuf::from(case["ws"].as_str().unwrap_or("/ws"));
                    match guarded(|| {
                        emmyrc.pre_process_emmyrc(&ws);
                        emmyrc
                    }) {
                        Err(m) => {
                            panic_msg.get_or_insert(format!("pre_process_emmyrc: {m}"));
                        }
                        Ok(e) => {
                            paths = json!({
                                "workspaceRoots": e.workspace.workspace_roots,
                                "library": e.workspace.library,
                                "packages": e.workspace.packages,
                                "ignoreDir": e.workspace.ignore_dir,
                                "resourcePaths": e.resource.paths,
                            });
                        }
                    }
                }
            }
        }
        if panic_msg.is_some() {
            panics += 1;
        }
        emit(&json!({"id": id, "raw": raw, "panic": panic_msg, "typed": typed_digest,
                     "typed_ok": typed_ok, "paths": paths}));
        let _ = std::fs::remove_dir_all(&dir);
    }
    emit(&json!({"summary": {"cases": cases.len(), "panics": panics}}));
}
