//! Replays Scope.tla programs (C13) into the real declaration analysis + `SemanticModel::find_decl`.
//!
//! stdin/arg: NDJSON cases {"id":n, "text":"...", "uses":[byteOffset...]}  (offset of each name token)
//! stdout: one NDJSON line per case {"id":n, "got":[x...]} with, per use,
//!            x >= 0  byte offset of the *local* (or parameter) declaration the use resolves to
//!            -1      resolves to a global declaration            -2  resolves to nothing
//!            -3      resolves to something that is not a variable declaration
//!            -4      no name token at that offset (concretisation error)
//!         or {"id":n, "panic":"..."}; finally {"summary":{...}}.
use emmylua_code_analysis::{LuaSemanticDeclId, SemanticDeclLevel, VirtualWorkspace};
use emmylua_parser::LuaAstNode;
use rowan::TextSize;
use vh_common::{emit, guarded, json, quiet_panics, read_cases};

fn main() {
    quiet_panics();
    let args: Vec<String> = std::env::args().collect();
    let cases = read_cases(args.get(1).map(|s| s.as_str()));
    let mut ws = VirtualWorkspace::new();
    let mut queries = 0u64;
    let mut panics = 0u64;
    for case in &cases {
        let id = case["id"].clone();
        let text = case["text"].as_str().unwrap().to_string();
        let uses: Vec<u32> = case["uses"]
            .as_array()
            .unwrap()
            .iter()
            .map(|u| u.as_u64().unwrap() as u32)
            .collect();
        let r = guarded(|| {
            let file_id = ws.def_file("scope_case.lua", &text);
            let model = ws
                .analysis
                .compilation
                .get_semantic_model(file_id)
                .expect("semantic model");
            let root = model.get_root().syntax().clone();
            let mut got: Vec<i64> = Vec::new();
            for &off in &uses {
                let tok = match root.token_at_offset(TextSize::from(off)).right_biased() {
                    Some(t) if u32::from(t.text_range().start()) == off => t,
                    _ => {
                        got.push(-4);
                        continue;
                    }
                };
                let d = model.find_decl(tok.into(), SemanticDeclLevel::NoTrace);
                got.push(match d {
                    None => -2,
                    Some(LuaSemanticDeclId::LuaDecl(decl_id)) => {
                        match model.get_db().get_decl_index().get_decl(&decl_id) {
                            None => -2,
                            Some(decl) => {
                                if decl.is_local() {
                                    u32::from(decl.get_position()) as i64
                                } else {
                                    -1
                                }
                            }
                        }
                    }
                    Some(_) => -3,
                });
            }
            got
        });
        match r {
            Ok(got) => {
                queries += got.len() as u64;
                emit(&json!({"id": id, "got": got}));
            }
            Err(p) => {
                panics += 1;
                emit(&json!({"id": id, "panic": p}));
                ws = VirtualWorkspace::new();
            }
        }
    }
    emit(&json!({"summary": {"cases": cases.len(), "queries": queries, "panics": panics}}));
}
