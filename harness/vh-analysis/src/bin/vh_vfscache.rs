//! Replays VfsCache.tla histories (C04) through ONE real `Vfs` (one shared rowan NodeCache) and compares,
//! after every step and for every file, tree dump + error list with a fresh standalone parse.
//!
//! arg 1: NDJSON file: first line {"table":{"text":{sid:[lexemes]},"dep":[{s,lv,i,kind}]}},
//!        then one line per history {"h":[{a:"Level"|"Set"|"Remove", f, s, lv, exp:{file:{s,lv}}}], "n":..}
//! env VH_SEEDED=textkey : harness-side seeded defect (self-test): the "fresh" reference parse of a Set step
//!        is replaced by the tree the file had at another level (shows the comparison is not vacuous).
//! stdout: one line per failing observation + {"summary":..}
use emmylua_code_analysis::{Emmyrc, EmmyrcLuaVersion, Vfs, file_path_to_uri};
use emmylua_parser::{LuaParser, LuaSyntaxTree, LuaTokenKind};
use rowan::{NodeCache, NodeOrToken};
use std::collections::HashMap;
use std::path::PathBuf;
use std::sync::Arc;
use vh_common::{Value, emit, guarded, json, quiet_panics, read_cases};

fn version(lv: &str) -> EmmyrcLuaVersion {
    match lv {
        "Lua51" => EmmyrcLuaVersion::Lua51,
        "Lua52" => EmmyrcLuaVersion::Lua52,
        "Lua53" => EmmyrcLuaVersion::Lua53,
        "Lua54" => EmmyrcLuaVersion::Lua54,
        "Lua55" => EmmyrcLuaVersion::Lua55,
        "LuaJIT" => EmmyrcLuaVersion::LuaJIT,
        x => panic!("level {x}"),
    }
}

fn emmyrc(lv: &str) -> Arc<Emmyrc> {
    let mut e = Emmyrc::default();
    e.runtime.version = version(lv);
    Arc::new(e)
}

fn concrete(lexemes: &[Value]) -> String {
    let mut s = String::new();
    for (i, x) in lexemes.iter().enumerate() {
        let x = x.as_str().unwrap();
        if i > 0 {
            s.push(if lexemes[i - 1].as_str().unwrap().starts_with("--") { '\n' } else { ' ' });
        }
        s.push_str(x);
    }
    s.push('\n');
    s
}

/// Everything observable of a parse result: full debug dump (kinds, ranges, token text) + errors.
fn observe(tree: &LuaSyntaxTree) -> (String, Vec<String>) {
    let dump = format!("{:#?}", tree.get_red_root());
    let errs = tree
        .get_errors()
        .iter()
        .map(|e| format!("{:?}|{}|{:?}", e.kind, e.message, e.range))
        .collect();
    (dump, errs)
}

fn fresh(text: &str, lv: &str) -> LuaSyntaxTree {
    let rc = emmyrc(lv);
    let mut cache = NodeCache::default();
    LuaParser::parse(text, rc.get_parse_config(&mut cache))
}

/// kind class of the i-th (1-based) non-trivia token of the tree, in the vocabulary of the spec
fn kind_class(tree: &LuaSyntaxTree, i: usize) -> String {
    let mut n = 0;
    for el in tree.get_red_root().descendants_with_tokens() {
        if let NodeOrToken::Token(t) = el {
            let k: LuaTokenKind = t.kind().into();
            if matches!(k, LuaTokenKind::TkWhitespace | LuaTokenKind::TkEndOfLine) {
                continue;
            }
            n += 1;
            if n == i {
                return match k {
                    LuaTokenKind::TkName => "name".into(),
                    LuaTokenKind::TkGoto | LuaTokenKind::TkGlobal | LuaTokenKind::TkLocal => "kw".into(),
                    other => format!("{:?}", other),
                };
            }
        }
    }
    "missing".into()
}

fn main() {
    quiet_panics();
    let args: Vec<String> = std::env::args().collect();
    let lines = read_cases(args.get(1).map(|s| s.as_str()));
    let seeded = std::env::var("VH_SEEDED").unwrap_or_default();
    let table = &lines[0]["table"];
    let mut text: HashMap<String, String> = HashMap::new();
    for (sid, lex) in table["text"].as_object().expect("text table") {
        text.insert(sid.clone(), concrete(lex.as_array().unwrap()));
    }
    let mut fails = 0u64;
    let mut evals = 0u64;
    // binding of the model's level-dependent kinds to the real lexer/grammar
    for d in table["dep"].as_array().unwrap() {
        let (s, lv, i) = (d["s"].as_str().unwrap(), d["lv"].as_str().unwrap(), d["i"].as_u64().unwrap() as usize);
        // snippets starting with a doc line have no level-dependent lexeme in the table
        let tree = fresh(&text[s], lv);
        let got = kind_class(&tree, i);
        evals += 1;
        if got != d["kind"].as_str().unwrap() {
            fails += 1;
            emit(&json!({"fail":"model-kind","s":s,"lv":lv,"i":i,"model":d["kind"],"real":got,"text":text[s]}));
        }
    }
    let mut steps = 0u64;
    for (hi, hist) in lines.iter().enumerate().skip(1) {
        let h = hist["h"].as_array().expect("h");
        let r = guarded(|| {
            let mut out: Vec<Value> = Vec::new();
            let mut vfs = Vfs::new();
            let mut n_eval = 0u64;
            let mut prev_dump: HashMap<String, (String, Vec<String>)> = HashMap::new();
            for (si, step) in h.iter().enumerate() {
                let lv = step["lv"].as_str().unwrap();
                let f = step["f"].as_str().unwrap();
                let uri = |f: &str| file_path_to_uri(&PathBuf::from(format!("/vh/c04/{f}.lua"))).unwrap();
                match step["a"].as_str().unwrap() {
                    "Level" => vfs.update_config(emmyrc(lv)),
                    "Set" => {
                        vfs.set_file_content(&uri(f), Some(text[step["s"].as_str().unwrap()].clone()));
                    }
                    "Remove" => {
                        vfs.remove_file(&uri(f));
                    }
                    x => panic!("action {x}"),
                }
                for (file, exp) in step["exp"].as_object().unwrap() {
                    n_eval += 1;
                    let id = vfs.get_file_id(&uri(file));
                    let got = id.and_then(|id| vfs.get_syntax_tree(&id)).map(observe);
                    let es = exp["s"].as_str().unwrap();
                    if es == "none" {
                        if got.is_some() {
                            out.push(json!({"fail":"tree-after-remove","hist":hi,"step":si,"file":file}));
                        }
                        prev_dump.remove(file);
                        continue;
                    }
                    let elv = exp["lv"].as_str().unwrap();
                    let mut want = observe(&fresh(&text[es], elv));
                    if seeded == "textkey" && step["a"] == "Set" && file == f {
                        let other = if elv == "Lua51" { "Lua55" } else { "Lua51" };
                        want = observe(&fresh(&text[es], other));
                    }
                    match got {
                        None => out.push(json!({"fail":"no-tree","hist":hi,"step":si,"file":file,"exp":exp})),
                        Some(g) => {
                            if g != want {
                                out.push(json!({"fail": if g.0 != want.0 {"tree-differs"} else {"errors-differ"},
                                    "hist":hi,"step":si,"file":file,"exp":exp,"text":text[es],
                                    "got_errors":g.1,"want_errors":want.1,
                                    "got_tree":g.0,"want_tree":want.0}));
                            }
                            // identical content => identical tree, whichever files were opened before
                            if let Some(p) = prev_dump.get(file) {
                                if step["a"] != "Set" || file != f {
                                    if *p != g {
                                        out.push(json!({"fail":"tree-changed-without-set","hist":hi,"step":si,"file":file}));
                                    }
                                }
                            }
                            prev_dump.insert(file.clone(), g);
                        }
                    }
                }
            }
            (out, n_eval)
        });
        match r {
            Ok((out, n)) => {
                evals += n;
                steps += h.len() as u64;
                for o in out {
                    fails += 1;
                    let mut o = o;
                    o["h"] = hist["h"].clone();
                    emit(&o);
                }
            }
            Err(p) => {
                fails += 1;
                emit(&json!({"fail":"panic","hist":hi,"h":hist["h"],"panic":p}));
            }
        }
    }
    emit(&json!({"summary":{"histories":lines.len()-1,"steps":steps,"evaluations":evals,"fails":fails}}));
}
