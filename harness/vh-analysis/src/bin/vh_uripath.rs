//! Replays UriPath.tla cases (C34) into file_path_to_uri / uri_to_file_path / Vfs.
//!
//! usage: vh_uripath <cases.ndjson>
//!   {"kind":"path","path":"/a b","uris":{"canon":"file:///a%20b",...}}
//!   {"kind":"hist","steps":[{"op":"file_id"|"get_file_id"|"remove_file","uri":"file:///..","expect":id|-1}]}
//! stdout: one NDJSON line per failing observation + a final {"summary":...} line.
use emmylua_code_analysis::{Emmyrc, Vfs, file_path_to_uri, uri_to_file_path};
use lsp_types::Uri;
use std::path::PathBuf;
use std::str::FromStr;
use std::sync::Arc;
use vh_common::{Value, emit, guarded, json, quiet_panics, read_cases};

fn new_vfs() -> Vfs {
    let mut vfs = Vfs::new();
    vfs.update_config(Arc::new(Emmyrc::default()));
    vfs
}

fn path_case(case: &Value, evals: &mut u64) -> Vec<Value> {
    let mut fails = Vec::new();
    let path_s = case["path"].as_str().unwrap();
    let path = PathBuf::from(path_s);
    let mut fail = |kind: &str, detail: Value| {
        fails.push(json!({"fail": kind, "path": path_s, "detail": detail}));
    };
    // ---- round trip
    *evals += 1;
    let uri = match guarded(|| file_path_to_uri(&path)) {
        Err(p) => {
            fail("panic", json!({"op": "file_path_to_uri", "panic": p}));
            return fails;
        }
        Ok(None) => {
            fail("no-uri", json!({}));
            return fails;
        }
        Ok(Some(u)) => u,
    };
    match guarded(|| uri_to_file_path(&uri)) {
        Err(p) => fail("panic", json!({"op": "uri_to_file_path", "uri": uri.as_str(), "panic": p})),
        Ok(back) => {
            if back.as_ref() != Some(&path) {
                fail("roundtrip", json!({"uri": uri.as_str(), "back": back.map(|b| b.to_string_lossy().to_string())}));
            }
        }
    }
    // ---- identity of every alternative spelling
    let mut vfs = new_vfs();
    let other = Uri::from_str("file:///vh/other.lua").unwrap();
    vfs.file_id(&other);
    let id0 = vfs.file_id(&uri);
    for (style, s) in case["uris"].as_object().unwrap() {
        let s = s.as_str().unwrap();
        *evals += 1;
        let alt = match Uri::from_str(s) {
            Ok(u) => u,
            Err(e) => {
                fail("alt-unparsable", json!({"style": style, "uri": s, "error": e.to_string()}));
                continue;
            }
        };
        let r = guarded(|| {
            let p = uri_to_file_path(&alt);
            let got = vfs.get_file_id(&alt);
            let interned = vfs.file_id(&alt);
            (p, got, interned)
        });
        match r {
            Err(p) => fail("panic", json!({"style": style, "uri": s, "panic": p})),
            Ok((p, got, interned)) => {
                if p.as_ref() != Some(&path) {
                    fail("alt-decode", json!({"style": style, "uri": s, "canonical": uri.as_str(),
                        "decoded": p.map(|b| b.to_string_lossy().to_string())}));
                } else if got != Some(id0) || interned != id0 {
                    fail("alt-identity", json!({"style": style, "uri": s, "canonical": uri.as_str(), "id": id0.id,
                        "get_file_id": got.map(|i| i.id), "file_id": interned.id}));
                }
            }
        }
    }
    // the canonical URI handed back by the Vfs is the one we started from
    if vfs.get_uri(&id0).as_ref() != Some(&uri) {
        fail("get-uri", json!({"uri": uri.as_str(), "got": vfs.get_uri(&id0).map(|u| u.as_str().to_string())}));
    }
    fails
}

fn hist_case(case: &Value, evals: &mut u64) -> Vec<Value> {
    let mut vfs = new_vfs();
    let mut observed = Vec::new();
    for (i, st) in case["steps"].as_array().unwrap().iter().enumerate() {
        *evals += 1;
        let s = st["uri"].as_str().unwrap();
        let op = st["op"].as_str().unwrap();
        let uri = match Uri::from_str(s) {
            Ok(u) => u,
            Err(e) => {
                return vec![json!({"fail": "alt-unparsable", "steps": case["steps"], "detail": {"step": i, "uri": s, "error": e.to_string()}})];
            }
        };
        let got: Result<i64, String> = guarded(|| match op {
            "file_id" => vfs.file_id(&uri).id as i64,
            "get_file_id" => vfs.get_file_id(&uri).map(|f| f.id as i64).unwrap_or(-1),
            "remove_file" => vfs.remove_file(&uri).map(|f| f.id as i64).unwrap_or(-1),
            x => panic!("op {x}"),
        });
        match got {
            Err(p) => {
                return vec![json!({"fail": "panic", "steps": case["steps"], "detail": {"step": i, "panic": p}})];
            }
            Ok(g) => {
                observed.push(g);
                if g != st["expect"].as_i64().unwrap() {
                    return vec![json!({"fail": "hist", "steps": case["steps"],
                        "detail": {"step": i, "op": op, "uri": s, "expect": st["expect"], "observed": observed}})];
                }
            }
        }
    }
    Vec::new()
}

fn main() {
    quiet_panics();
    let args: Vec<String> = std::env::args().collect();
    let cases = read_cases(args.get(1).map(|s| s.as_str()));
    let mut evals = 0u64;
    let mut nfails = 0u64;
    for case in &cases {
        let fails = match case["kind"].as_str().unwrap() {
            "path" => path_case(case, &mut evals),
            "hist" => hist_case(case, &mut evals),
            k => panic!("kind {k}"),
        };
        for f in fails {
            nfails += 1;
            emit(&f);
        }
    }
    emit(&json!({"summary": {"cases": cases.len(), "evaluations": evals, "fails": nfails}}));
}
