//! Replays AnalysisDb.tla / ModuleIndex.tla behaviours (C08, C09, C10, C11, C33) into a real `EmmyLuaAnalysis`.
//!
//! stdin/arg1: NDJSON cases
//!   {"id":..., "cfg":{emmyrc json}?, "roots":[{"path":"/ws","kind":"main"|"lib"}], "requires":["a","b.c"],
//!    "steps":[ {"op":"load","files":[[path,text],...]}        fresh-style load: register contents in the given
//!                                                            order, then ONE update_index in file-id order
//!              {"op":"batch","files":[[path,text|null],...]}  EmmyLuaAnalysis::update_files_by_uri (real batch API)
//!              {"op":"update","path":p,"text":t}             update_file_by_uri(Some)
//!              {"op":"unset","path":p}                       update_file_by_uri(None)
//!              {"op":"remove","path":p}                      remove_file_by_uri
//!              {"op":"reindex"} | {"op":"config","cfg":{...}} ],
//!    every step may carry  "same_as":k   -> dump must equal the dump after step k        (C08)
//!                          "fresh":true  -> dump must equal the dump of a FRESH analysis of the live files
//!                                           registered in file-id order               (C09, C10 sizes)
//!                          "absent":[p]  -> no string of the dump may mention p / a dead file id (C10)
//!                          "model":{...} -> abstract observables predicted by the TLA+ model (see `model_diff`)
//!                          "dump":true   -> emit the full dump }
//! stdout: one NDJSON line per case {"id","steps":[{"i","same":[diffs],"fresh":[diffs],"mentions":[..],
//!                                   "model":[diffs],"panic":..,"dump":..}]}
//! With arg2 = "dump" every step's dump is emitted (used by the C11 multi-process comparison).
use emmylua_code_analysis::{
    EmmyLuaAnalysis, Emmyrc, FileId, LuaMemberOwner, LuaOperatorMetaMethod, LuaOperatorOwner,
    LuaSemanticDeclId, LuaType, LuaTypeDeclId, LuaTypeOwner, RenderLevel, SemanticDeclLevel,
    WorkspaceFolder, file_path_to_uri, humanize_type,
};
use emmylua_parser::{LuaTokenKind};
use std::collections::BTreeMap;
use std::path::PathBuf;
use std::sync::Arc;
use tokio_util::sync::CancellationToken;
use vh_common::{Value, emit, guarded, json, quiet_panics, read_cases};

const META_METHODS: &[(&str, LuaOperatorMetaMethod)] = &[
    ("add", LuaOperatorMetaMethod::Add),
    ("sub", LuaOperatorMetaMethod::Sub),
    ("mul", LuaOperatorMetaMethod::Mul),
    ("div", LuaOperatorMetaMethod::Div),
    ("mod", LuaOperatorMetaMethod::Mod),
    ("pow", LuaOperatorMetaMethod::Pow),
    ("unm", LuaOperatorMetaMethod::Unm),
    ("idiv", LuaOperatorMetaMethod::IDiv),
    ("band", LuaOperatorMetaMethod::BAnd),
    ("bor", LuaOperatorMetaMethod::BOr),
    ("bxor", LuaOperatorMetaMethod::BXor),
    ("bnot", LuaOperatorMetaMethod::BNot),
    ("shl", LuaOperatorMetaMethod::Shl),
    ("shr", LuaOperatorMetaMethod::Shr),
    ("concat", LuaOperatorMetaMethod::Concat),
    ("len", LuaOperatorMetaMethod::Len),
    ("eq", LuaOperatorMetaMethod::Eq),
    ("lt", LuaOperatorMetaMethod::Lt),
    ("le", LuaOperatorMetaMethod::Le),
    ("index", LuaOperatorMetaMethod::Index),
    ("call", LuaOperatorMetaMethod::Call),
    ("pairs", LuaOperatorMetaMethod::Pairs),
];

fn label(a: &EmmyLuaAnalysis, fid: FileId) -> String {
    let vfs = a.compilation.get_db().get_vfs();
    match vfs.get_file_path(&fid) {
        Some(p) => {
            let live = vfs.get_syntax_tree(&fid).is_some();
            if live { p.to_string_lossy().to_string() } else { format!("?dead:{}", p.to_string_lossy()) }
        }
        None => format!("?id{}", fid.id),
    }
}

fn rng(r: rowan::TextRange) -> String {
    format!("{}..{}", u32::from(r.start()), u32::from(r.end()))
}

fn decl_label(a: &EmmyLuaAnalysis, d: &LuaSemanticDeclId) -> String {
    match d {
        LuaSemanticDeclId::TypeDecl(id) => format!("type:{}", id.get_name()),
        LuaSemanticDeclId::Member(id) => format!("member:{}@{}", label(a, id.file_id), rng(id.get_syntax_id().get_range())),
        LuaSemanticDeclId::LuaDecl(id) => format!("decl:{}@{}", label(a, id.file_id), u32::from(id.position)),
        LuaSemanticDeclId::Signature(id) => format!("sig:{}@{}", label(a, id.get_file_id()), u32::from(id.get_position())),
    }
}

fn ty(a: &EmmyLuaAnalysis, t: &LuaType) -> String {
    humanize_type(a.compilation.get_db(), t, RenderLevel::Simple)
}

fn live_ids(a: &EmmyLuaAnalysis) -> Vec<FileId> {
    a.compilation.get_db().get_vfs().get_all_file_ids()
}

fn dump(a: &EmmyLuaAnalysis, requires: &[String]) -> Value {
    dump_with(a, requires, None)
}

fn dump_with(a: &EmmyLuaAnalysis, requires: &[String], probe: Option<(&str, &[String])>) -> Value {
    let db = a.compilation.get_db();
    let vfs = db.get_vfs();
    let mut files = BTreeMap::new();
    let mut global_names: std::collections::BTreeSet<String> = Default::default();
    for fid in live_ids(a) {
        let path = label(a, fid);
        let mut f = serde_json::Map::new();
        if let Some(m) = db.get_module_index().get_module(fid) {
            f.insert("module".into(), json!([m.full_module_name, m.workspace_id.id, m.name]));
            f.insert("export".into(), json!(m.export_type.as_ref().map(|t| ty(a, t))));
            f.insert("export_decl".into(), json!(m.semantic_id.as_ref().map(|d| decl_label(a, d))));
        } else {
            f.insert("module".into(), Value::Null);
        }
        // diagnostics
        let diags = a.diagnose_file(fid, CancellationToken::new()).unwrap_or_default();
        let mut ds: Vec<String> = diags
            .iter()
            .map(|d| {
                let code = match &d.code {
                    Some(lsp_types::NumberOrString::String(s)) => s.clone(),
                    Some(lsp_types::NumberOrString::Number(n)) => n.to_string(),
                    None => "-".into(),
                };
                format!("{}:{}-{}:{} {} {}", d.range.start.line, d.range.start.character, d.range.end.line, d.range.end.character, code, d.message)
            })
            .collect();
        ds.sort();
        f.insert("diags".into(), json!(ds));
        // per-token semantic info
        let mut toks = Vec::new();
        if let (Some(tree), Some(model)) = (vfs.get_syntax_tree(&fid), a.compilation.get_semantic_model(fid)) {
            for el in tree.get_red_root().descendants_with_tokens() {
                if let rowan::NodeOrToken::Token(tok) = el {
                    let k: LuaTokenKind = tok.kind().into();
                    if !matches!(k, LuaTokenKind::TkName | LuaTokenKind::TkString) {
                        continue;
                    }
                    let info = model.get_semantic_info(tok.clone().into());
                    let (t, d) = match info {
                        Some(i) => (ty(a, &i.typ), i.semantic_decl.as_ref().map(|d| decl_label(a, d))),
                        None => ("-".to_string(), None),
                    };
                    toks.push(json!([u32::from(tok.text_range().start()), tok.text(), t, d]));
                }
            }
        }
        f.insert("tokens".into(), json!(toks));
        // local declaration references (ranges inside the file)
        let mut refs = Vec::new();
        if let Some(fr) = db.get_reference_index().get_local_reference(&fid) {
            for (decl_id, dr) in fr.get_decl_references_map() {
                let mut cells: Vec<String> = dr.cells.iter().map(|c| format!("{}{}", rng(c.range), if c.is_write { "w" } else { "" })).collect();
                cells.sort();
                refs.push(json!([decl_label(a, &LuaSemanticDeclId::LuaDecl(*decl_id)), cells]));
            }
        }
        refs.sort_by_key(|v| v.to_string());
        f.insert("decl_refs".into(), json!(refs));
        if let Some(deps) = db.get_file_dependencies_index().get_required_files(&fid) {
            let mut d: Vec<String> = deps.iter().map(|x| label(a, *x)).collect();
            d.sort();
            f.insert("requires".into(), json!(d));
        }
        files.insert(path, Value::Object(f));
    }
    // globals
    let mut globals = BTreeMap::new();
    for did in db.get_global_index().get_all_global_decl_ids() {
        if let Some(decl) = db.get_decl_index().get_decl(&did) {
            global_names.insert(decl.get_name().to_string());
        } else {
            global_names.insert(format!("?nodecl:{}@{}", label(a, did.file_id), u32::from(did.position)));
        }
    }
    for name in &global_names {
        let mut g = serde_json::Map::new();
        let mut decls = Vec::new();
        if let Some(ids) = db.get_global_index().get_global_decl_ids(name) {
            for id in ids {
                let t = db.get_type_index().get_type_cache(&LuaTypeOwner::Decl(*id)).map(|c| ty(a, c.as_type()));
                decls.push(json!([format!("{}@{}", label(a, id.file_id), u32::from(id.position)), t]));
            }
        }
        let first = decls.first().cloned();
        decls.sort_by_key(|v| v.to_string());
        g.insert("decls".into(), json!(decls));
        g.insert("first".into(), json!(first));
        let mut refs: Vec<String> = db
            .get_reference_index()
            .get_global_references(name)
            .unwrap_or_default()
            .iter()
            .map(|r| format!("{}@{}", label(a, r.file_id), rng(r.value.get_range())))
            .collect();
        refs.sort();
        g.insert("refs".into(), json!(refs));
        let owner = LuaMemberOwner::GlobalPath(emmylua_code_analysis::GlobalId::new(name));
        g.insert("members".into(), members(a, &owner));
        g.insert("member_ids".into(), member_ids(a, &owner));
        globals.insert(name.clone(), Value::Object(g));
    }
    // types
    let mut types = BTreeMap::new();
    let mut all: Vec<LuaTypeDeclId> = db.get_type_index().get_all_types().iter().map(|d| d.get_id()).collect();
    all.sort_by_key(|i| i.get_name().to_string());
    for id in all {
        let Some(decl) = db.get_type_index().get_type_decl(&id) else { continue };
        let mut t = serde_json::Map::new();
        let kind = if decl.is_class() { "class" } else if decl.is_enum() { "enum" } else if decl.is_alias() { "alias" } else { "other" };
        t.insert("kind".into(), json!(kind));
        let mut locs: Vec<String> = decl.get_locations().iter().map(|l| format!("{}@{}", label(a, l.file_id), rng(l.range))).collect();
        locs.sort();
        t.insert("locs".into(), json!(locs));
        let prop = db.get_property_index().get_property(&LuaSemanticDeclId::TypeDecl(id.clone()));
        t.insert("desc".into(), json!(prop.and_then(|p| p.description()).cloned()));
        t.insert("deprecated".into(), json!(prop.map(|p| p.deprecated().is_some()).unwrap_or(false)));
        let mut supers: Vec<String> = db.get_type_index().get_super_types(&id).unwrap_or_default().iter().map(|s| ty(a, s)).collect();
        supers.sort();
        t.insert("supers".into(), json!(supers));
        if decl.is_alias() {
            t.insert("alias".into(), json!(decl.get_alias_ref().map(|x| ty(a, x))));
        }
        t.insert("members".into(), members(a, &LuaMemberOwner::Type(id.clone())));
        t.insert("member_ids".into(), member_ids(a, &LuaMemberOwner::Type(id.clone())));
        // member lookup on an instance of the type (own + inherited through the super edges): [key, type, declaring file]
        t.insert("inherit".into(), inherit(a, &id));
        // generic header: parameter names with constraint / default, and the rendered head of the type
        let gp: Vec<Value> = db
            .get_type_index()
            .get_generic_params(&id)
            .map(|ps| {
                ps.iter()
                    .map(|p| json!([p.name.to_string(), p.constraint.as_ref().map(|c| ty(a, c)), p.default.as_ref().map(|c| ty(a, c)), p.is_const]))
                    .collect()
            })
            .unwrap_or_default();
        t.insert("generic".into(), json!(gp));
        t.insert("render".into(), json!(humanize_type(db, &LuaType::Def(id.clone()), RenderLevel::Detailed)));
        // operators per meta method IN THE ORDER OF THE INDEX (the first applicable one decides an expression)
        let mut ops = serde_json::Map::new();
        for (name, mm) in META_METHODS {
            if let Some(ids) = db.get_operator_index().get_operators(&LuaOperatorOwner::Type(id.clone()), *mm) {
                let v: Vec<Value> = ids
                    .iter()
                    .map(|oid| match db.get_operator_index().get_operator(oid) {
                        Some(op) => json!([
                            format!("{}@{}", label(a, op.get_file_id()), rng(op.get_range())),
                            ty(a, &op.get_operator_func(db)),
                            op.get_result(db).ok().map(|r| ty(a, &r))
                        ]),
                        None => json!(["?dangling-operator-id"]),
                    })
                    .collect();
                ops.insert(name.to_string(), json!(v));
            }
        }
        t.insert("operators".into(), Value::Object(ops));
        let mut trefs: Vec<String> = db
            .get_reference_index()
            .get_type_references(&id)
            .unwrap_or_default()
            .iter()
            .map(|r| format!("{}@{}", label(a, r.file_id), rng(r.value)))
            .collect();
        trefs.sort();
        t.insert("refs".into(), json!(trefs));
        types.insert(id.get_name().to_string(), Value::Object(t));
    }
    // module resolution of the given require strings
    let mut mods = BTreeMap::new();
    for r in requires {
        let m = db.get_module_index().find_module(r);
        mods.insert(r.clone(), json!(m.map(|m| label(a, m.file_id))));
    }
    let sizes: BTreeMap<String, usize> = db.verif_sizes().into_iter().collect();
    let mut d = json!({"files": files, "globals": globals, "types": types, "modules": mods, "sizes": sizes});
    if let Some((pp, reqs)) = probe {
        d["probe"] = probe_dump(a, pp, reqs);
        d["tree"] = tree_dump(a);
    }
    d
}

/// C33: `local r<i> = require("<req>")` lines of the probe file: inferred type of r<i> and the declaration that
/// go-to-definition on it reaches (the module's exported declaration), next to find_module(req).
fn probe_dump(a: &EmmyLuaAnalysis, probe_path: &str, reqs: &[String]) -> Value {
    let db = a.compilation.get_db();
    let mut out = serde_json::Map::new();
    let Some(fid) = a.get_file_id(&uri(probe_path)) else { return Value::Null };
    let (Some(tree), Some(model)) = (db.get_vfs().get_syntax_tree(&fid), a.compilation.get_semantic_model(fid)) else { return Value::Null };
    let mut names: BTreeMap<String, (String, Option<String>)> = BTreeMap::new();
    for el in tree.get_red_root().descendants_with_tokens() {
        if let rowan::NodeOrToken::Token(tok) = el {
            let k: LuaTokenKind = tok.kind().into();
            if k == LuaTokenKind::TkName && tok.text().starts_with('r') && tok.text() != "require" {
                // first occurrence = the declaration (inferred type); later occurrence = a use of the name:
                // what go-to-definition on it reaches when it follows the require call into the module
                if let Some(e) = names.get_mut(tok.text()) {
                    e.1 = model.find_decl(tok.clone().into(), SemanticDeclLevel::Trace(5)).map(|d| decl_label(a, &d));
                } else {
                    let t = model.get_semantic_info(tok.clone().into()).map(|i| ty(a, &i.typ)).unwrap_or("-".into());
                    names.insert(tok.text().to_string(), (t, None));
                }
            }
        }
    }
    for (i, r) in reqs.iter().enumerate() {
        let m = db.get_module_index().find_module(r).map(|m| label(a, m.file_id));
        let (t, d) = names.get(&format!("r{i}")).cloned().unwrap_or(("?".into(), None));
        out.insert(r.clone(), json!({"find": m, "type": t, "decl": d}));
    }
    Value::Object(out)
}

/// C33: walk the module tree from the root through the public node API and check its shape.
fn tree_dump(a: &EmmyLuaAnalysis) -> Value {
    let mi = a.compilation.get_db().get_module_index();
    let mut reachable = 0usize;
    let mut empty = Vec::new();
    let mut files_in_nodes: Vec<String> = Vec::new();
    let mut bad_parent = 0usize;
    let mut names: Vec<String> = Vec::new();
    if let Some(root) = mi.find_module_node("") {
        let mut stack: Vec<(String, &emmylua_code_analysis::ModuleNode, Option<emmylua_code_analysis::ModuleNodeId>)> = vec![("".into(), root, None)];
        while let Some((name, node, _id)) = stack.pop() {
            reachable += 1;
            if !name.is_empty() {
                names.push(name.clone());
                if node.file_ids.is_empty() && node.children.is_empty() {
                    empty.push(name.clone());
                }
            }
            for f in &node.file_ids {
                files_in_nodes.push(format!("{}={}", name, label(a, *f)));
            }
            for (part, cid) in &node.children {
                match mi.get_module_node(cid) {
                    Some(child) => {
                        let full = if name.is_empty() { part.clone() } else { format!("{name}.{part}") };
                        if let Some(pid) = child.parent {
                            if mi.get_module_node(&pid).map(|p| std::ptr::eq(p, node)) != Some(true) {
                                bad_parent += 1;
                            }
                        } else {
                            bad_parent += 1;
                        }
                        stack.push((full, child, Some(*cid)));
                    }
                    None => empty.push(format!("{name}.{part}:dangling")),
                }
            }
        }
    }
    names.sort();
    empty.sort();
    files_in_nodes.sort();
    let mut infos: Vec<String> = mi.get_module_infos().iter().map(|m| format!("{}={}", m.full_module_name, label(a, m.file_id))).collect();
    infos.sort();
    json!({"reachable": reachable, "names": names, "empty": empty, "bad_parent": bad_parent, "files_in_nodes": files_in_nodes, "infos": infos})
}

/// C10 (after seeded review): what `find_members` sees on an instance of the type, i.e. own members and the
/// members of every ancestor reachable over `LuaTypeIndex::supers`.
fn inherit(a: &EmmyLuaAnalysis, id: &LuaTypeDeclId) -> Value {
    let Some(fid) = live_ids(a).into_iter().next() else { return json!([]) };
    let Some(model) = a.compilation.get_semantic_model(fid) else { return json!([]) };
    let mut out = Vec::new();
    for info in model.get_member_infos(&LuaType::Ref(id.clone())).unwrap_or_default() {
        let owner = match &info.property_owner_id {
            Some(LuaSemanticDeclId::Member(m)) => label(a, m.file_id),
            Some(other) => decl_label(a, other),
            None => "-".to_string(),
        };
        out.push(json!([info.key.to_path(), ty(a, &info.typ), owner]));
    }
    out.sort_by_key(|v| v.to_string());
    out.dedup();
    json!(out)
}

fn members(a: &EmmyLuaAnalysis, owner: &LuaMemberOwner) -> Value {
    let db = a.compilation.get_db();
    let mut out = Vec::new();
    if let Some(ms) = db.get_member_index().get_members(owner) {
        for m in ms {
            let t = db.get_type_index().get_type_cache(&LuaTypeOwner::Member(m.get_id())).map(|c| ty(a, c.as_type()));
            let desc = db
                .get_property_index()
                .get_property(&LuaSemanticDeclId::Member(m.get_id()))
                .and_then(|p| p.description())
                .cloned();
            out.push(json!([m.get_key().to_path(), format!("{}@{}", label(a, m.get_file_id()), rng(m.get_range())), t, desc]));
        }
    }
    out.sort_by_key(|v| v.to_string());
    json!(out)
}

/// The RAW id list the owner keeps per key (second seeded round, C08/C10): one entry per stored member id, in
/// index order, labelled with the file of the id - an id of a file that is gone shows as `?dead:` / `?id`, an id
/// stored twice shows twice (`members` above lists what the ids resolve to, so a dangling id is invisible there).
fn member_ids(a: &EmmyLuaAnalysis, owner: &LuaMemberOwner) -> Value {
    let db = a.compilation.get_db();
    let mut keys = Vec::new();
    if let Some(ms) = db.get_member_index().get_members(owner) {
        for m in ms {
            if !keys.contains(m.get_key()) {
                keys.push(m.get_key().clone());
            }
        }
    }
    let mut out = Vec::new();
    for k in keys {
        if let Some(item) = db.get_member_index().get_member_item(owner, &k) {
            let ids: Vec<String> = item.get_member_ids().iter().map(|id| label(a, id.file_id)).collect();
            out.push(json!([k.to_path(), ids]));
        }
    }
    out.sort_by_key(|v| v.to_string());
    json!(out)
}

/// structural diff of two dumps: list of [json-path, left, right] (at most `cap` entries)
fn diff(path: &str, l: &Value, r: &Value, out: &mut Vec<Value>, cap: usize) {
    if out.len() >= cap || l == r {
        return;
    }
    match (l, r) {
        (Value::Object(a), Value::Object(b)) => {
            let keys: std::collections::BTreeSet<&String> = a.keys().chain(b.keys()).collect();
            for k in keys {
                let p = format!("{path}/{k}");
                match (a.get(k), b.get(k)) {
                    (Some(x), Some(y)) => diff(&p, x, y, out, cap),
                    (x, y) => {
                        if out.len() < cap {
                            out.push(json!([p, x, y]))
                        }
                    }
                }
            }
        }
        _ => out.push(json!([path, l, r])),
    }
}

fn mentions(path: &str, v: &Value, needles: &[String], out: &mut Vec<Value>) {
    match v {
        Value::String(s) => {
            if s.contains("?id") || s.contains("?dead") || s.contains("?nodecl") || needles.iter().any(|n| s.contains(n.as_str())) {
                if out.len() < 20 {
                    out.push(json!([path, s]));
                }
            }
        }
        Value::Array(xs) => {
            for (i, x) in xs.iter().enumerate() {
                mentions(&format!("{path}/{i}"), x, needles, out);
            }
        }
        Value::Object(m) => {
            for (k, x) in m {
                if k.contains("?id") || k.contains("?dead") || needles.iter().any(|n| k.contains(n.as_str())) {
                    if out.len() < 20 {
                        out.push(json!([path, k]));
                    }
                }
                mentions(&format!("{path}/{k}"), x, needles, out);
            }
        }
        _ => {}
    }
}

struct Setup {
    cfg: Option<Value>,
    roots: Vec<(String, String)>,
}

fn new_analysis(s: &Setup) -> EmmyLuaAnalysis {
    let mut a = EmmyLuaAnalysis::new();
    let rc: Emmyrc = match &s.cfg {
        Some(c) => serde_json::from_value(c.clone()).expect("emmyrc json"),
        None => Emmyrc::default(),
    };
    a.update_config(Arc::new(rc));
    for (p, k) in &s.roots {
        if k == "lib" {
            a.add_library_workspace(&WorkspaceFolder::new(PathBuf::from(p), true));
        } else {
            a.add_main_workspace(PathBuf::from(p));
        }
    }
    a
}

fn uri(p: &str) -> lsp_types::Uri {
    file_path_to_uri(&PathBuf::from(p)).expect("uri")
}

/// fresh-style load: register every content in order, then one update_index in file-id order
fn load_sorted(a: &mut EmmyLuaAnalysis, files: &[(String, String)]) {
    let mut ids = Vec::new();
    for (p, t) in files {
        let id = a.compilation.get_db_mut().get_vfs_mut().set_file_content(&uri(p), Some(t.clone()));
        ids.push(id);
    }
    ids.sort();
    ids.dedup();
    a.compilation.remove_index(ids.clone());
    a.compilation.update_index(ids);
}

fn live_files(a: &EmmyLuaAnalysis) -> Vec<(String, String)> {
    let vfs = a.compilation.get_db().get_vfs();
    live_ids(a)
        .into_iter()
        .filter_map(|id| Some((vfs.get_file_path(&id)?.to_string_lossy().to_string(), vfs.get_file_content(&id)?.clone())))
        .collect()
}

/// compare the abstract observables predicted by the TLA+ model with the dump.
/// model = {"desc":{cls:str|null}, "typelocs":{cls:[paths]}, "globals":{name:[paths]}, "members":{cls:[[key,path]]},
///          "supers":{cls:[names]}, "modules":{req:path|null}, "sizes":{name:n}, "diagcodes":{path:[codes]}}
fn model_diff(model: &Value, d: &Value, out: &mut Vec<Value>) {
    let strip = |s: &str| s.split('@').next().unwrap_or("").to_string();
    if let Some(m) = model.get("desc").and_then(|x| x.as_object()) {
        for (cls, want) in m {
            let got = d["types"].get(cls).map(|t| t["desc"].clone()).unwrap_or(json!("<no-type>"));
            let want_n = if want.is_null() { json!("<no-type>") } else { want.clone() };
            let got_n = if got.is_null() { json!("") } else { got };
            if want_n != got_n {
                out.push(json!([format!("desc/{cls}"), want, got_n]));
            }
        }
    }
    if let Some(m) = model.get("typelocs").and_then(|x| x.as_object()) {
        for (cls, want) in m {
            let mut got: Vec<String> = d["types"].get(cls).and_then(|t| t["locs"].as_array()).map(|v| v.iter().map(|s| strip(s.as_str().unwrap_or(""))).collect()).unwrap_or_default();
            got.sort();
            let mut w: Vec<String> = want.as_array().map(|v| v.iter().map(|s| s.as_str().unwrap_or("").to_string()).collect()).unwrap_or_default();
            w.sort();
            if got != w {
                out.push(json!([format!("typelocs/{cls}"), w, got]));
            }
        }
    }
    if let Some(m) = model.get("globals").and_then(|x| x.as_object()) {
        for (g, want) in m {
            let mut got: Vec<String> = d["globals"].get(g).and_then(|t| t["decls"].as_array()).map(|v| v.iter().map(|s| strip(s[0].as_str().unwrap_or(""))).collect()).unwrap_or_default();
            got.sort();
            let mut w: Vec<String> = want.as_array().map(|v| v.iter().map(|s| s.as_str().unwrap_or("").to_string()).collect()).unwrap_or_default();
            w.sort();
            if got != w {
                out.push(json!([format!("globals/{g}"), w, got]));
            }
        }
    }
    if let Some(m) = model.get("members").and_then(|x| x.as_object()) {
        for (cls, want) in m {
            let mut got: Vec<(String, String)> = d["types"].get(cls).and_then(|t| t["members"].as_array()).map(|v| v.iter().map(|s| (s[0].as_str().unwrap_or("").to_string(), strip(s[1].as_str().unwrap_or("")))).collect()).unwrap_or_default();
            got.sort();
            let mut w: Vec<(String, String)> = want.as_array().map(|v| v.iter().map(|s| (s[0].as_str().unwrap_or("").to_string(), s[1].as_str().unwrap_or("").to_string())).collect()).unwrap_or_default();
            w.sort();
            if got != w {
                out.push(json!([format!("members/{cls}"), w, got]));
            }
            // the raw id lists must hold exactly the same (key, file) pairs, each once
            let mut raw: Vec<(String, String)> = Vec::new();
            for e in d["types"].get(cls).and_then(|t| t["member_ids"].as_array()).into_iter().flatten() {
                for f in e[1].as_array().into_iter().flatten() {
                    raw.push((e[0].as_str().unwrap_or("").to_string(), f.as_str().unwrap_or("").to_string()));
                }
            }
            raw.sort();
            if raw != w {
                out.push(json!([format!("member_ids/{cls}"), w, raw]));
            }
        }
    }
    if let Some(m) = model.get("gtype").and_then(|x| x.as_object()) {
        // inferred type of every declaration of the global: (file, type)
        for (g, want) in m {
            let mut got: Vec<(String, String)> = d["globals"].get(g).and_then(|t| t["decls"].as_array()).map(|v| v.iter().map(|s| (strip(s[0].as_str().unwrap_or("")), s[1].as_str().unwrap_or("").to_string())).collect()).unwrap_or_default();
            got.sort();
            let mut w: Vec<(String, String)> = want.as_array().map(|v| v.iter().map(|s| (s[0].as_str().unwrap_or("").to_string(), s[1].as_str().unwrap_or("").to_string())).collect()).unwrap_or_default();
            w.sort();
            if got != w {
                out.push(json!([format!("gtype/{g}"), w, got]));
            }
        }
    }
    if let Some(m) = model.get("gmembers").and_then(|x| x.as_object()) {
        // members listed by the owner GlobalPath(g): (key, file) per stored id, with multiplicity
        for (g, want) in m {
            let mut got: Vec<(String, String)> = d["globals"].get(g).and_then(|t| t["members"].as_array()).map(|v| v.iter().map(|s| (s[0].as_str().unwrap_or("").to_string(), strip(s[1].as_str().unwrap_or("")))).collect()).unwrap_or_default();
            got.sort();
            let mut w: Vec<(String, String)> = want.as_array().map(|v| v.iter().map(|s| (s[0].as_str().unwrap_or("").to_string(), s[1].as_str().unwrap_or("").to_string())).collect()).unwrap_or_default();
            w.sort();
            if got != w {
                out.push(json!([format!("gmembers/{g}"), w, got]));
            }
        }
    }
    if let Some(m) = model.get("probe").and_then(|x| x.as_object()) {
        // C33: expected target path (or null) of every require string: find_module, go-to-definition and the
        // inferred module type must all agree with it
        for (r, want) in m {
            let got = &d["probe"][r];
            let find_ok = &got["find"] == want;
            let (decl_ok, type_ok) = match want.as_str() {
                Some(p) => (
                    got["decl"].as_str().map(|x| x.starts_with(&format!("decl:{p}@"))).unwrap_or(false),
                    got["type"].as_str() == model["probe_types"].get(p).and_then(|x| x.as_str()),
                ),
                None => (got["decl"].as_str().map(|x| x.starts_with("decl:/p/")).unwrap_or(true), true),
            };
            if !find_ok {
                out.push(json!([format!("probe/{r}/find"), want, got["find"]]));
            }
            if !decl_ok {
                out.push(json!([format!("probe/{r}/decl"), want, got["decl"]]));
            }
            if !type_ok {
                out.push(json!([format!("probe/{r}/type"), want, got["type"]]));
            }
        }
    }
    if let Some(want) = model.get("tree_names") {
        if &d["tree"]["names"] != want {
            out.push(json!(["tree/names", want, d["tree"]["names"]]));
        }
    }
    if let Some(want) = model.get("tree_files") {
        if &d["tree"]["files_in_nodes"] != want {
            out.push(json!(["tree/files_in_nodes", want, d["tree"]["files_in_nodes"]]));
        }
    }
    if let Some(m) = model.get("supers").and_then(|x| x.as_object()) {
        for (cls, want) in m {
            // the spec's `supers` observable is the SET of super types (two files declaring the same edge give
            // two entries of the vector; their number is judged through sizes/type.supers.items)
            let mut gv: Vec<Value> = d["types"].get(cls).and_then(|t| t["supers"].as_array().cloned()).unwrap_or_default();
            gv.dedup();
            let got = json!(gv);
            if &got != want {
                out.push(json!([format!("supers/{cls}"), want, got]));
            }
        }
    }
    if let Some(m) = model.get("inherit").and_then(|x| x.as_object()) {
        // [key, declaring path] of every member an instance of the type has (own + inherited)
        for (cls, want) in m {
            let mut got: Vec<(String, String)> = d["types"].get(cls).and_then(|t| t["inherit"].as_array()).map(|v| v.iter().map(|s| (s[0].as_str().unwrap_or("").to_string(), s[2].as_str().unwrap_or("").to_string())).collect()).unwrap_or_default();
            got.sort();
            got.dedup();
            let mut w: Vec<(String, String)> = want.as_array().map(|v| v.iter().map(|s| (s[0].as_str().unwrap_or("").to_string(), s[1].as_str().unwrap_or("").to_string())).collect()).unwrap_or_default();
            w.sort();
            if got != w {
                out.push(json!([format!("inherit/{cls}"), w, got]));
            }
        }
    }
    if let Some(m) = model.get("gen").and_then(|x| x.as_object()) {
        // generic parameter names of every type
        for (cls, want) in m {
            let got: Vec<Value> = d["types"].get(cls).and_then(|t| t["generic"].as_array()).map(|v| v.iter().map(|p| p[0].clone()).collect()).unwrap_or_default();
            if &json!(got) != want {
                out.push(json!([format!("gen/{cls}"), want, got]));
            }
        }
    }
    if let Some(m) = model.get("ops").and_then(|x| x.as_object()) {
        // operators per type and meta method in index order: [[result, path], ...]
        for (cls, want) in m {
            for (mm, w) in want.as_object().into_iter().flatten() {
                let got: Vec<Value> = d["types"]
                    .get(cls)
                    .and_then(|t| t["operators"].get(mm))
                    .and_then(|v| v.as_array())
                    .map(|v| v.iter().map(|o| json!([o[2], strip(o[0].as_str().unwrap_or(""))])).collect())
                    .unwrap_or_default();
                if &json!(got) != w {
                    out.push(json!([format!("ops/{cls}/{mm}"), w, got]));
                }
            }
        }
    }
    if let Some(m) = model.get("modules").and_then(|x| x.as_object()) {
        for (r, want) in m {
            let got = d["modules"].get(r).cloned().unwrap_or(Value::Null);
            if &got != want {
                out.push(json!([format!("modules/{r}"), want, got]));
            }
        }
    }
    if let Some(m) = model.get("sizes").and_then(|x| x.as_object()) {
        for (k, want) in m {
            let got = d["sizes"].get(k).cloned().unwrap_or(Value::Null);
            if &got != want {
                out.push(json!([format!("sizes/{k}"), want, got]));
            }
        }
    }
    if let Some(m) = model.get("diagcodes").and_then(|x| x.as_object()) {
        for (p, want) in m {
            let mut got: Vec<String> = d["files"].get(p).and_then(|f| f["diags"].as_array()).map(|v| v.iter().map(|s| s.as_str().unwrap_or("").split(' ').nth(1).unwrap_or("").to_string()).collect()).unwrap_or_default();
            got.sort();
            got.dedup();
            let mut w: Vec<String> = want.as_array().map(|v| v.iter().map(|s| s.as_str().unwrap_or("").to_string()).collect()).unwrap_or_default();
            w.sort();
            if got != w {
                out.push(json!([format!("diagcodes/{p}"), w, got]));
            }
        }
    }
}

fn files_arg(v: &Value) -> Vec<(String, Option<String>)> {
    v.as_array()
        .map(|xs| xs.iter().map(|x| (x[0].as_str().unwrap_or("").to_string(), x[1].as_str().map(|s| s.to_string()))).collect())
        .unwrap_or_default()
}

fn run_case(case: &Value, dump_all: bool) -> Value {
    let mut setup = Setup {
        cfg: case.get("cfg").cloned().filter(|c| !c.is_null()),
        roots: case["roots"].as_array().map(|r| r.iter().map(|x| (x["path"].as_str().unwrap_or("/ws").to_string(), x["kind"].as_str().unwrap_or("main").to_string())).collect()).unwrap_or_else(|| vec![("/ws".into(), "main".into())]),
    };
    let requires: Vec<String> = case["requires"].as_array().map(|r| r.iter().filter_map(|x| x.as_str().map(|s| s.to_string())).collect()).unwrap_or_default();
    let probe_path: Option<String> = case["probe"]["path"].as_str().map(|s| s.to_string());
    let probe_reqs: Vec<String> = case["probe"]["reqs"].as_array().map(|r| r.iter().filter_map(|x| x.as_str().map(|s| s.to_string())).collect()).unwrap_or_default();
    let mut a = new_analysis(&setup);
    let mut dumps: Vec<Value> = Vec::new();
    let mut results = Vec::new();
    let empty = Vec::new();
    for (i, step) in case["steps"].as_array().unwrap_or(&empty).iter().enumerate() {
        let mut res = serde_json::Map::new();
        res.insert("i".into(), json!(i));
        let op = step["op"].as_str().unwrap_or("");
        let r = guarded(|| {
            match op {
                "load" => {
                    let fs: Vec<(String, String)> = files_arg(&step["files"]).into_iter().map(|(p, t)| (p, t.unwrap_or_default())).collect();
                    load_sorted(&mut a, &fs);
                }
                "batch" => {
                    let fs = files_arg(&step["files"]).into_iter().map(|(p, t)| (uri(&p), t)).collect();
                    a.update_files_by_uri(fs);
                }
                "update" => {
                    a.update_file_by_uri(&uri(step["path"].as_str().unwrap_or("")), Some(step["text"].as_str().unwrap_or("").to_string()));
                }
                "unset" => {
                    a.update_file_by_uri(&uri(step["path"].as_str().unwrap_or("")), None);
                }
                "remove" => {
                    a.remove_file_by_uri(&uri(step["path"].as_str().unwrap_or("")));
                }
                "reindex" => a.reindex(),
                "config" => {
                    setup.cfg = Some(step["cfg"].clone());
                    let rc: Emmyrc = serde_json::from_value(step["cfg"].clone()).expect("emmyrc json");
                    a.update_config(Arc::new(rc));
                }
                x => panic!("vh_analysisdb: unknown op {x}"),
            }
            if let Some(pp) = &probe_path {
                // re-analyse the probe against the current module index
                let text: String = probe_reqs.iter().enumerate().map(|(i, r)| format!("local r{i} = require(\"{r}\")\nlocal u{i} = r{i}\n")).collect();
                a.update_file_by_uri(&uri(pp), Some(text));
                dump_with(&a, &requires, Some((pp.as_str(), &probe_reqs)))
            } else {
                dump(&a, &requires)
            }
        });
        let d = match r {
            Ok(d) => d,
            Err(p) => {
                res.insert("panic".into(), json!(p));
                results.push(Value::Object(res));
                break;
            }
        };
        if let Some(k) = step.get("same_as").and_then(|x| x.as_u64()) {
            let mut out = Vec::new();
            diff("", &dumps[k as usize], &d, &mut out, 12);
            res.insert("same".into(), json!(out));
        }
        if step.get("fresh").and_then(|x| x.as_bool()).unwrap_or(false) {
            let fr = guarded(|| {
                let mut f = new_analysis(&setup);
                load_sorted(&mut f, &live_files(&a));
                dump(&f, &requires)
            });
            match fr {
                Ok(fd) => {
                    let mut out = Vec::new();
                    // the number of id slots ever handed out is history, not state: compare live slots only
                    let mut d2 = d.clone();
                    let mut fd2 = fd.clone();
                    for x in [&mut d2, &mut fd2] {
                        if let Some(s) = x["sizes"].as_object_mut() {
                            s.remove("vfs.file_data.slots");
                        }
                    }
                    diff("", &fd2, &d2, &mut out, 12);
                    res.insert("fresh".into(), json!(out));
                }
                Err(p) => {
                    res.insert("fresh_panic".into(), json!(p));
                }
            }
        }
        if let Some(ab) = step.get("absent").and_then(|x| x.as_array()) {
            let needles: Vec<String> = ab.iter().filter_map(|x| x.as_str().map(|s| s.to_string())).collect();
            let mut out = Vec::new();
            mentions("", &d, &needles, &mut out);
            res.insert("mentions".into(), json!(out));
        }
        if let Some(m) = step.get("model") {
            let mut out = Vec::new();
            model_diff(m, &d, &mut out);
            res.insert("model".into(), json!(out));
        }
        if step.get("probe_out").and_then(|x| x.as_bool()).unwrap_or(false) {
            res.insert("probe".into(), d["probe"].clone());
            res.insert("tree".into(), d["tree"].clone());
            let ms: serde_json::Map<String, Value> = d["sizes"].as_object().map(|m| m.iter().filter(|(k, _)| k.starts_with("module.")).map(|(k, v)| (k.clone(), v.clone())).collect()).unwrap_or_default();
            res.insert("module_sizes".into(), Value::Object(ms));
        }
        if dump_all || step.get("dump").and_then(|x| x.as_bool()).unwrap_or(false) {
            res.insert("dump".into(), d.clone());
        }
        dumps.push(d);
        results.push(Value::Object(res));
    }
    json!({"id": case["id"], "steps": results})
}

fn main() {
    quiet_panics();
    let args: Vec<String> = std::env::args().collect();
    let cases = read_cases(args.get(1).map(|s| s.as_str()));
    let dump_all = args.get(2).map(|s| s == "dump").unwrap_or(false);
    for case in &cases {
        let out = match guarded(|| run_case(case, dump_all)) {
            Ok(v) => v,
            Err(p) => json!({"id": case["id"], "harness_panic": p}),
        };
        emit(&out);
    }
}
