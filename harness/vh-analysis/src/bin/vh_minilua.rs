//! Conformance binary of spec/MiniLua.tla (C15, C41).
//!
//!   vh_minilua analyze <cases.ndjson>   pass (ii): analyse every TLC-built program with the real analyzer and
//!                                       record, per probe, the inferred type of the probed variable as a set
//!                                       of Lua type names (`[]` = never/unreachable, null = no claim) and the
//!                                       nil-related diagnostics the analyzer reports for a use at that point.
//!   vh_minilua exec <runs.ndjson>       pass (iv): run an execution chosen by TLC (program + the values that
//!                                       opaque()/count()/items() return, in order) in the real Lua VM `luars`
//!                                       and print the probe log.
//!
//! A program is the JSON form of the TLA+ instruction sequence:
//!   {"op": "local"|"assign"|"if"|"elseif"|"else"|"end"|"while"|"repeat"|"until"|"fornum"|"forin"|"break"|"probe",
//!    "v": var, "e": expr code, "c": cond}
//!   expr codes: nil false true 0 s t  |  opaque opaque_any  | (fornum bound) 0 2 ?
//!   cond: {"n": bool, "sh": "A"|"AND"|"OR"|"T"|"F", "l": [lit, lit]},
//!   lit: {"neg": bool, "k": "type"|"typene"|"eqnil"|"nenil"|"truthy", "v": var, "t": type name}
//! The rendering below is the only place where instructions become Lua text; both passes use it.
use emmylua_code_analysis::{DiagnosticCode, Emmyrc, LuaType, RenderLevel, VirtualWorkspace, humanize_type};
use emmylua_parser::{LuaAstNode, LuaCallExpr, LuaExpr, LuaIndexExpr};
use luars::{Lua, LuaApi, SafeOption, Stdlib};
use std::collections::BTreeSet;
use std::sync::Arc;
use tokio_util::sync::CancellationToken;
use vh_common::{Value, emit, guarded, json, quiet_panics, read_cases};

const PRELUDE: &str = r#"
---@return boolean|integer|string|table|nil
function opaque() end
---@return any
function opaque_any() end
---@return integer
function count() end
---@return table
function items() end
---@param v any
---@param i integer
function probe(v, i) end
"#;

fn s<'a>(v: &'a Value, k: &str) -> &'a str {
    v.get(k).and_then(|x| x.as_str()).unwrap_or("")
}

fn render_lit(l: &Value) -> String {
    let v = s(l, "v");
    let atom = match s(l, "k") {
        "type" => format!("type({v}) == \"{}\"", s(l, "t")),
        "typene" => format!("type({v}) ~= \"{}\"", s(l, "t")),
        "typer" => format!("\"{}\" == type({v})", s(l, "t")),
        "eqnil" => format!("{v} == nil"),
        "nenil" => format!("{v} ~= nil"),
        "nileq" => format!("nil == {v}"),
        "truthy" => v.to_string(),
        k => panic!("lit kind {k}"),
    };
    let neg = l.get("neg").and_then(|b| b.as_bool()).unwrap_or(false);
    match (neg, s(l, "k")) {
        (false, _) => atom,
        (true, "truthy") => format!("not {atom}"),
        (true, _) => format!("not ({atom})"),
    }
}

fn render_cond(c: &Value) -> String {
    let lits = c.get("l").and_then(|l| l.as_array()).cloned().unwrap_or_default();
    let body = match s(c, "sh") {
        "T" => "true".to_string(),
        "F" => "false".to_string(),
        "A" => render_lit(&lits[0]),
        "AND" => format!("{} and {}", render_lit(&lits[0]), render_lit(&lits[1])),
        "OR" => format!("{} or {}", render_lit(&lits[0]), render_lit(&lits[1])),
        k => panic!("cond shape {k}"),
    };
    if c.get("n").and_then(|b| b.as_bool()).unwrap_or(false) {
        format!("not ({body})")
    } else {
        body
    }
}

fn render_expr(e: &str) -> &'static str {
    match e {
        "nil" => "nil",
        "false" => "false",
        "true" => "true",
        "0" => "0",
        "s" => "\"s\"",
        "t" => "{}",
        "opaque" => "opaque()",
        "opaque_any" => "opaque_any()",
        x => panic!("expr code {x}"),
    }
}

/// `use_form`: probes are rendered as a use (`local _ = x.f`) instead of `probe(x, i)`; only analysed, never run.
fn render(prog: &[Value], use_form: bool) -> String {
    let mut out = String::new();
    let mut depth = 0usize;
    for (i, ins) in prog.iter().enumerate() {
        let idx = i + 1;
        let op = s(ins, "op");
        if matches!(op, "end" | "until" | "else" | "elseif") {
            depth = depth.saturating_sub(1);
        }
        let line = match op {
            "local" => format!("local {} = {}", s(ins, "v"), render_expr(s(ins, "e"))),
            "assign" => format!("{} = {}", s(ins, "v"), render_expr(s(ins, "e"))),
            "if" => format!("if {} then", render_cond(&ins["c"])),
            "elseif" => format!("elseif {} then", render_cond(&ins["c"])),
            "else" => "else".to_string(),
            "end" => "end".to_string(),
            "while" => format!("while {} do", render_cond(&ins["c"])),
            "repeat" => "repeat".to_string(),
            "until" => format!("until {}", render_cond(&ins["c"])),
            "fornum" => match s(ins, "e") {
                "?" => "for _i = 1, count() do".to_string(),
                n => format!("for _i = 1, {n} do"),
            },
            "forin" => "for _k in pairs(items()) do".to_string(),
            "break" => "break".to_string(),
            "probe" => {
                if use_form {
                    format!("local _u{idx} = {}.f{idx}", s(ins, "v"))
                } else {
                    format!("probe({}, {idx})", s(ins, "v"))
                }
            }
            x => panic!("op {x}"),
        };
        for _ in 0..depth {
            out.push_str("  ");
        }
        out.push_str(&line);
        out.push('\n');
        if matches!(op, "if" | "elseif" | "else" | "while" | "repeat" | "fornum" | "forin") {
            depth += 1;
        }
    }
    out
}

// ------------------------------------------------------------------------------------------------
// inferred type -> set of Lua type names
// ------------------------------------------------------------------------------------------------
const ALL: [&str; 8] = ["nil", "boolean", "number", "string", "table", "function", "userdata", "thread"];

/// None = no claim (any / unknown / a type this harness does not interpret).
fn lua_type_names(t: &LuaType, coarse: &mut BTreeSet<&'static str>, fine: &mut BTreeSet<&'static str>) -> Option<()> {
    match t {
        LuaType::Never => {}
        LuaType::Nil => {
            coarse.insert("nil");
            fine.insert("nil");
        }
        LuaType::Boolean => {
            coarse.insert("boolean");
            fine.insert("false");
            fine.insert("true");
        }
        LuaType::BooleanConst(b) | LuaType::DocBooleanConst(b) => {
            coarse.insert("boolean");
            fine.insert(if *b { "true" } else { "false" });
        }
        LuaType::Integer
        | LuaType::Number
        | LuaType::IntegerConst(_)
        | LuaType::FloatConst(_)
        | LuaType::DocIntegerConst(_) => {
            coarse.insert("number");
            fine.insert("number");
        }
        LuaType::String | LuaType::StringConst(_) | LuaType::DocStringConst(_) => {
            coarse.insert("string");
            fine.insert("string");
        }
        LuaType::Table
        | LuaType::TableConst(_)
        | LuaType::Array(_)
        | LuaType::Tuple(_)
        | LuaType::Object(_)
        | LuaType::TableGeneric(_) => {
            coarse.insert("table");
            fine.insert("table");
        }
        LuaType::Function | LuaType::DocFunction(_) | LuaType::Signature(_) => {
            coarse.insert("function");
            fine.insert("function");
        }
        LuaType::Userdata => {
            coarse.insert("userdata");
            fine.insert("userdata");
        }
        LuaType::Thread => {
            coarse.insert("thread");
            fine.insert("thread");
        }
        LuaType::Union(u) => {
            for m in u.into_vec() {
                lua_type_names(&m, coarse, fine)?;
            }
        }
        LuaType::MultiLineUnion(u) => {
            for (m, _) in u.get_unions() {
                lua_type_names(m, coarse, fine)?;
            }
        }
        _ => return None,
    }
    Some(())
}

fn analyze(path: Option<&str>) {
    let cases = read_cases(path);
    let mut ws = VirtualWorkspace::new_with_init_std_lib();
    let mut emmyrc = Emmyrc::default();
    emmyrc.diagnostics.enables.push(DiagnosticCode::NeedCheckNil);
    ws.update_emmyrc(emmyrc.clone());
    ws.analysis.diagnostic.update_config(Arc::new(emmyrc));
    ws.def_file("vh_prelude.lua", PRELUDE);
    let mut n_probes = 0u64;
    for case in &cases {
        let prog = case["prog"].as_array().expect("prog");
        let text = render(prog, false);
        let use_text = render(prog, true);
        let res = guarded(|| {
            let mut probes: Vec<Value> = Vec::new();
            let file_id = ws.def_file("vh_prog.lua", &text);
            let errs = {
                let tree = ws.analysis.compilation.get_db().get_vfs().get_syntax_tree(&file_id).expect("tree");
                tree.get_errors().len()
            };
            let model = ws.analysis.compilation.get_semantic_model(file_id).expect("semantic model");
            let root = model.get_root().clone();
            for call in root.descendants::<LuaCallExpr>() {
                let Some(LuaExpr::NameExpr(pn)) = call.get_prefix_expr() else { continue };
                if pn.get_name_text().as_deref() != Some("probe") {
                    continue;
                }
                let args: Vec<LuaExpr> = call.get_args_list().map(|l| l.get_args().collect()).unwrap_or_default();
                if args.len() != 2 {
                    continue;
                }
                let idx: u64 = args[1].syntax().text().to_string().trim().parse().expect("probe index");
                let var = args[0].syntax().text().to_string();
                let (ty, fine, repr) = match model.infer_expr(args[0].clone()) {
                    Ok(t) => {
                        let mut c = BTreeSet::new();
                        let mut f = BTreeSet::new();
                        let repr = humanize_type(model.get_db(), &t, RenderLevel::Detailed);
                        match lua_type_names(&t, &mut c, &mut f) {
                            Some(()) => (json!(c), json!(f), repr),
                            None => (Value::Null, Value::Null, repr),
                        }
                    }
                    Err(e) => (Value::Null, Value::Null, format!("infer error: {e:?}")),
                };
                probes.push(json!({"i": idx, "v": var, "ty": ty, "fine": fine, "repr": repr, "diag": []}));
            }
            // use variant: which nil-related diagnostics does the analyzer attach to a use of the variable here?
            let use_id = ws.def_file("vh_prog.lua", &use_text);
            let diags = ws.analysis.diagnose_file(use_id, CancellationToken::new()).unwrap_or_default();
            let model = ws.analysis.compilation.get_semantic_model(use_id).expect("semantic model");
            let root = model.get_root().clone();
            let doc = model.get_document();
            for ie in root.descendants::<LuaIndexExpr>() {
                let Some(key) = ie.get_index_key() else { continue };
                let key = key.get_path_part();
                let Some(idx) = key.strip_prefix('f').and_then(|n| n.parse::<u64>().ok()) else { continue };
                let range = ie.get_range();
                let mut codes: BTreeSet<String> = BTreeSet::new();
                for d in &diags {
                    let (Some(a), Some(b)) = (
                        doc.get_offset(d.range.start.line as usize, d.range.start.character as usize),
                        doc.get_offset(d.range.end.line as usize, d.range.end.character as usize),
                    ) else {
                        continue;
                    };
                    if a >= range.start() && b <= range.end() {
                        if let Some(lsp_types::NumberOrString::String(c)) = &d.code {
                            codes.insert(c.clone());
                        }
                    }
                }
                let use_ty = match ie.get_prefix_expr().map(|p| model.infer_expr(p)) {
                    Some(Ok(t)) => humanize_type(model.get_db(), &t, RenderLevel::Detailed),
                    _ => "?".to_string(),
                };
                for p in probes.iter_mut() {
                    if p["i"].as_u64() == Some(idx) {
                        p["diag"] = json!(codes);
                        p["use_repr"] = json!(use_ty);
                    }
                }
            }
            (probes, errs)
        });
        match res {
            Ok((probes, errs)) => {
                n_probes += probes.len() as u64;
                emit(&json!({"id": case["id"], "text": text, "syntax_errors": errs, "probes": probes}));
            }
            Err(p) => {
                emit(&json!({"id": case["id"], "text": text, "panic": p}));
                // the workspace may be poisoned; start over
                ws = VirtualWorkspace::new_with_init_std_lib();
                ws.def_file("vh_prelude.lua", PRELUDE);
            }
        }
    }
    emit(&json!({"summary": {"cases": cases.len(), "probes": n_probes}}));
}

// ------------------------------------------------------------------------------------------------
// execution in the real VM
// ------------------------------------------------------------------------------------------------
fn driver(prog_text: &str, choices: &[Value], max_probes: usize) -> String {
    let mut ch = String::new();
    for c in choices {
        let c = match c {
            Value::String(s) => s.clone(),
            v => v.to_string(),
        };
        ch.push_str(&format!("\"{c}\","));
    }
    format!(
        r#"
local __log, __ch, __ci = {{}}, {{ {ch} }}, 0
local function __next()
  __ci = __ci + 1
  local c = __ch[__ci]
  if c == nil then error("__EXHAUSTED__", 0) end
  return c
end
function opaque()
  local c = __next()
  if c == "nil" then return nil elseif c == "false" then return false elseif c == "true" then return true
  elseif c == "0" then return 0 elseif c == "s" then return "s" elseif c == "t" then return {{}} end
  error("__BADCHOICE__" .. c, 0)
end
opaque_any = opaque
function count() return math.tointeger(tonumber(__next())) end
function items() local n = tonumber(__next()); local t = {{}}; for i = 1, n do t[i] = i end; return t end
function probe(v, i)
  __log[#__log + 1] = i .. ":" .. type(v)
  if #__log >= {max_probes} then error("__PROBELIMIT__", 0) end
end
local __steps = 0
debug.sethook(function() __steps = __steps + 1; if __steps > 200 then error("__STEPLIMIT__", 0) end end, "", 1000)
local ok, err = pcall(function()
{prog_text}
end)
debug.sethook()
return table.concat(__log, ",") .. "|" .. tostring(ok) .. "|" .. tostring(err)
"#
    )
}

fn exec(path: Option<&str>) {
    let runs = read_cases(path);
    for run in &runs {
        let prog = run["prog"].as_array().expect("prog");
        let text = render(prog, false);
        let choices = run["choices"].as_array().cloned().unwrap_or_default();
        let max_probes = run.get("max_probes").and_then(|v| v.as_u64()).unwrap_or(64) as usize;
        let src = driver(&text, &choices, max_probes);
        let r = guarded(|| {
            let mut lua = Lua::new(SafeOption::default());
            lua.open_stdlibs(&[Stdlib::Basic, Stdlib::Table, Stdlib::String, Stdlib::Math, Stdlib::Debug])
                .map_err(|e| format!("stdlib: {e:?}"))?;
            match lua.load(&src).eval::<String>() {
                Ok(s) => Ok(s),
                Err(e) => Err(format!("lua error: {:?}", lua.get_error_message(e))),
            }
        });
        let (log, status) = match r {
            Ok(Ok(sv)) => {
                let mut parts = sv.splitn(3, '|');
                let log = parts.next().unwrap_or("").to_string();
                let ok = parts.next().unwrap_or("");
                let err = parts.next().unwrap_or("");
                let status = if ok == "true" {
                    "finished".to_string()
                } else if err.contains("__EXHAUSTED__") {
                    "exhausted".to_string()
                } else if err.contains("__PROBELIMIT__") {
                    "probelimit".to_string()
                } else if err.contains("__STEPLIMIT__") {
                    "steplimit".to_string()
                } else {
                    format!("error: {err}")
                };
                (log, status)
            }
            Ok(Err(e)) => (String::new(), e),
            Err(p) => (String::new(), format!("panic: {p}")),
        };
        let log: Vec<Value> = log
            .split(',')
            .filter(|x| !x.is_empty())
            .map(|x| {
                let (i, t) = x.split_once(':').unwrap();
                json!([i.parse::<u64>().unwrap(), t])
            })
            .collect();
        emit(&json!({"id": run["id"], "run": run.get("run"), "log": log, "status": status, "text": text}));
    }
    emit(&json!({"summary": {"runs": runs.len()}}));
}

fn main() {
    quiet_panics();
    let args: Vec<String> = std::env::args().collect();
    let _ = ALL;
    match args.get(1).map(|s| s.as_str()) {
        Some("analyze") => analyze(args.get(2).map(|s| s.as_str())),
        Some("exec") => exec(args.get(2).map(|s| s.as_str())),
        Some("render") => {
            for c in read_cases(args.get(2).map(|s| s.as_str())) {
                println!("{}", render(c["prog"].as_array().unwrap(), false));
            }
        }
        _ => {
            eprintln!("usage: vh_minilua analyze|exec|render <file.ndjson>");
            std::process::exit(2);
        }
    }
}
