//! Replays TextPos.tla cases (C22, C23) into the real `LineIndex` and, through a `Vfs`, `LuaDocument`.
//!
//! stdin/arg: NDJSON cases {"t":[letters], "lines":[[startByte,endByte,units16]...],
//!                          "pos":[[byteOff,line,col16,insideCrLf]...]}
//! stdout: one NDJSON line per failing observation + a final {"summary":...} line.
use emmylua_code_analysis::{Emmyrc, Vfs, file_path_to_uri};
use emmylua_parser::LineIndex;
use rowan::TextSize;
use std::path::PathBuf;
use std::sync::Arc;
use vh_common::{Value, emit, guarded, json, quiet_panics, read_cases};

fn concretise(t: &[Value]) -> String {
    let mut s = String::new();
    for c in t {
        match c.as_str().unwrap() {
            "a" => s.push('a'),
            "e" => s.push('\u{e9}'),
            "E" => s.push('\u{1F600}'),
            "n" => s.push('\n'),
            "r" => s.push('\r'),
            x => panic!("letter {x}"),
        }
    }
    s
}

fn main() {
    quiet_panics();
    let args: Vec<String> = std::env::args().collect();
    let cases = read_cases(args.get(1).map(|s| s.as_str()));
    let mut evals = 0u64;
    let mut fails = 0u64;
    let mut vfs = Vfs::new();
    vfs.update_config(Arc::new(Emmyrc::default()));
    for (ci, case) in cases.iter().enumerate() {
        let letters = case["t"].as_array().unwrap();
        let text = concretise(letters);
        // C22 is judged on texts whose CRs all belong to CR LF pairs (the only disputed point of a lone CR is
        // whether it ends a line, which is C23's business)
        let lone_cr = {
            let b = text.as_bytes();
            (0..b.len()).any(|i| b[i] == b'\r' && b.get(i + 1) != Some(&b'\n'))
        };
        let lines: Vec<(u32, u32, u32)> = case["lines"]
            .as_array()
            .unwrap()
            .iter()
            .map(|l| {
                (
                    l[0].as_u64().unwrap() as u32,
                    l[1].as_u64().unwrap() as u32,
                    l[2].as_u64().unwrap() as u32,
                )
            })
            .collect();
        let pos: Vec<(u32, usize, usize, bool)> = case["pos"]
            .as_array()
            .unwrap()
            .iter()
            .map(|p| {
                (
                    p[0].as_u64().unwrap() as u32,
                    p[1].as_u64().unwrap() as usize,
                    p[2].as_u64().unwrap() as usize,
                    p[3].as_u64().unwrap() == 1,
                )
            })
            .collect();
        let mut report = |kind: &str, prop: &str, detail: Value| {
            fails += 1;
            emit(&json!({"fail": kind, "prop": prop, "t": case["t"], "text": text, "detail": detail}));
        };
        // every other case goes through a real Vfs / LuaDocument (same arithmetic, other entry point)
        let via_doc = ci % 2 == 0;
        let path = PathBuf::from(format!("/vh/textpos_{}.lua", ci % 3));
        let uri = file_path_to_uri(&path).unwrap();
        let file_id = if via_doc {
            let id = vfs.set_file_content(&uri, Some(text.clone()));
            Some(id)
        } else {
            None
        };
        let li = LineIndex::parse(&text);
        let to_pos = |o: u32| -> Result<Option<(usize, usize)>, String> {
            guarded(|| {
                if let Some(id) = file_id {
                    let doc = vfs.get_document(&id).expect("doc");
                    doc.get_line_col(TextSize::from(o))
                } else {
                    li.get_line_col(TextSize::from(o), &text)
                }
            })
        };
        let to_off = |l: usize, c: usize| -> Result<Option<u32>, String> {
            guarded(|| {
                if let Some(id) = file_id {
                    let doc = vfs.get_document(&id).expect("doc");
                    doc.get_offset(l, c).map(u32::from)
                } else {
                    li.get_offset(l, c, &text).map(u32::from)
                }
            })
        };

        // ---- C23: exact LSP positions (UTF-16 units; LF, CR LF, CR terminators)
        for &(o, line, col16, inside) in &pos {
            if inside {
                continue;
            }
            evals += 1;
            match to_pos(o) {
                Err(p) => report("panic", "C23", json!({"op":"offset_to_pos","o":o,"panic":p})),
                Ok(got) => {
                    if got != Some((line, col16)) {
                        report("pos", "C23", json!({"o":o,"want":[line,col16],"got":got}));
                    }
                }
            }
            match to_off(line, col16) {
                Err(p) => report("panic", "C23", json!({"op":"pos_to_offset","line":line,"ch":col16,"panic":p})),
                Ok(got) => {
                    if got != Some(o) {
                        report("off", "C23", json!({"line":line,"ch":col16,"want":o,"got":got}));
                    }
                }
            }
        }

        // ---- C22: encoding / terminator independent part, judged on CR-free texts only
        // ---- C23 through the document-level conversions (ranges, positions, line ranges)
        if let Some(id) = file_id {
            let bounds: Vec<(u32, usize, usize)> = pos.iter().filter(|p| !p.3).map(|p| (p.0, p.1, p.2)).collect();
            for &(o1, l1, c1) in &bounds {
                for &(o2, l2, c2) in &bounds {
                    if o2 < o1 {
                        continue;
                    }
                    evals += 1;
                    let got = guarded(|| {
                        let doc = vfs.get_document(&id).expect("doc");
                        let r = doc.to_lsp_range(rowan::TextRange::new(TextSize::from(o1), TextSize::from(o2)));
                        let back = doc.to_rowan_range(lsp_types::Range {
                            start: lsp_types::Position { line: l1 as u32, character: c1 as u32 },
                            end: lsp_types::Position { line: l2 as u32, character: c2 as u32 },
                        });
                        (
                            r.map(|r| (r.start.line, r.start.character, r.end.line, r.end.character)),
                            back.map(|b| (u32::from(b.start()), u32::from(b.end()))),
                        )
                    });
                    match got {
                        Err(p) => report("panic", "C23", json!({"op":"to_lsp_range","o1":o1,"o2":o2,"panic":p})),
                        Ok((r, back)) => {
                            let want = Some((l1 as u32, c1 as u32, l2 as u32, c2 as u32));
                            if r != want {
                                report("range", "C23", json!({"o1":o1,"o2":o2,"want":want,"got":r}));
                            }
                            if back != Some((o1, o2)) {
                                report("range-back", "C23", json!({"range":want,"want":[o1,o2],"got":back}));
                            }
                        }
                    }
                }
            }
        }

        if lone_cr {
            continue;
        }
        for &(o, _, _, inside) in &pos {
            if inside {
                continue; // strictly inside a CR LF pair: no LSP position denotes it
            }
            evals += 1;
            match to_pos(o) {
                Err(p) => report("panic", "C22", json!({"op":"offset_to_pos","o":o,"panic":p})),
                Ok(None) => report("roundtrip", "C22", json!({"o":o,"got":"none"})),
                Ok(Some((l, c))) => match to_off(l, c) {
                    Err(p) => report("panic", "C22", json!({"op":"pos_to_offset","line":l,"ch":c,"panic":p})),
                    Ok(back) => {
                        if back != Some(o) {
                            report("roundtrip", "C22", json!({"o":o,"pos":[l,c],"back":back}));
                        }
                    }
                },
            }
        }
        let nlines = lines.len();
        let maxb = lines.iter().map(|l| l.1 - l.0).max().unwrap_or(0) as usize;
        let mut chars: Vec<usize> = (0..=maxb + 3).collect();
        chars.extend([1000usize, u32::MAX as usize]);
        for l in 0..nlines + 2 {
            for &c in &chars {
                evals += 1;
                match to_off(l, c) {
                    Err(p) => report("panic", "C22", json!({"op":"pos_to_offset","line":l,"ch":c,"panic":p})),
                    Ok(got) => {
                        if l >= nlines {
                            if got.is_some() {
                                report("noline", "C22", json!({"line":l,"ch":c,"got":got,"lines":nlines}));
                            }
                            continue;
                        }
                        let (s, e, _) = lines[l];
                        match got {
                            None => report("none-for-existing-line", "C22", json!({"line":l,"ch":c})),
                            Some(o) => {
                                let in_line = o >= s && o <= e;
                                let boundary = text.is_char_boundary(o as usize);
                                let beyond = c >= (e - s) as usize;
                                if !in_line || !boundary || (beyond && o != e) {
                                    report("clamp", "C22", json!({"line":l,"ch":c,"got":o,"line_start":s,"line_end":e,
                                        "doc_len":text.len(),"char_boundary":boundary}));
                                }
                            }
                        }
                    }
                }
            }
        }
    }
    emit(&json!({"summary": {"cases": cases.len(), "evaluations": evals, "fails": fails}}));
}
