//! vh_anaq: in-process queries on a real `EmmyLuaAnalysis` built from an NDJSON workspace description.
//!
//!   vh_anaq diag  <cases.ndjson>    C36 calibration: diagnostics (line, code, severity) per file
//!   vh_anaq conc  <cases.ndjson>    C38: TLC-chosen query multiset run sequentially and concurrently
//!   vh_anaq crash <cases.ndjson>    C12: index + diagnose + semantic queries on every token, panics are data
//!
//! workspace description (shared by all subcommands):
//!   {"id":..., "emmyrc": {...}|null, "std": bool, "main": "/vh/ws", "libs": ["/vh/ws/lib"],
//!    "files": [["/vh/ws/a.lua", "text"], ...]}
use emmylua_code_analysis::{
    EmmyLuaAnalysis, Emmyrc, FileId, RenderLevel, SemanticDeclLevel, WorkspaceFolder, file_path_to_uri,
    humanize_type,
};
use emmylua_parser::{LuaAstNode, LuaExpr, LuaTokenKind};
use std::collections::HashMap;
use std::io::Write;
use std::path::PathBuf;
use std::sync::{Arc, Barrier, Mutex};
use tokio_util::sync::CancellationToken;
use vh_common::{Value, emit, guarded, json, quiet_panics, read_cases};

struct Built {
    analysis: EmmyLuaAnalysis,
    files: Vec<(String, FileId)>,
}

fn build(case: &Value) -> Built {
    let main = PathBuf::from(case["main"].as_str().unwrap_or("/vh/ws"));
    let mut emmyrc = match case.get("emmyrc") {
        Some(v) if !v.is_null() => {
            serde_json::from_value::<Emmyrc>(v.clone()).unwrap_or_else(|e| panic!("harness: bad emmyrc: {e}"))
        }
        _ => Emmyrc::default(),
    };
    emmyrc.pre_process_emmyrc(&main);
    let mut analysis = EmmyLuaAnalysis::new();
    analysis.update_config(Arc::new(emmyrc));
    if case["std"].as_bool().unwrap_or(false) {
        analysis.init_std_lib(None);
    }
    analysis.add_main_workspace(main);
    if let Some(libs) = case["libs"].as_array() {
        for l in libs {
            analysis.add_library_workspace(&WorkspaceFolder::new(PathBuf::from(l.as_str().unwrap()), true));
        }
    }
    let mut names = Vec::new();
    let mut batch = Vec::new();
    for f in case["files"].as_array().unwrap() {
        let p = f[0].as_str().unwrap().to_string();
        let uri = file_path_to_uri(&PathBuf::from(&p)).unwrap();
        batch.push((uri, Some(f[1].as_str().unwrap().to_string())));
        names.push(p);
    }
    let uris: Vec<_> = batch.iter().map(|(u, _)| u.clone()).collect();
    analysis.update_files_by_uri(batch);
    let files = names
        .into_iter()
        .zip(uris)
        .filter_map(|(n, u)| analysis.get_file_id(&u).map(|id| (n, id)))
        .collect();
    Built { analysis, files }
}

fn diag_json(analysis: &EmmyLuaAnalysis, id: FileId) -> Value {
    match analysis.diagnose_file(id, CancellationToken::new()) {
        None => Value::Null,
        Some(ds) => {
            let mut v: Vec<Value> = ds
                .iter()
                .map(|d| {
                    let code = match &d.code {
                        Some(lsp_types::NumberOrString::String(s)) => s.clone(),
                        Some(lsp_types::NumberOrString::Number(n)) => n.to_string(),
                        None => String::new(),
                    };
                    let sev = match d.severity {
                        Some(lsp_types::DiagnosticSeverity::ERROR) => 1,
                        Some(lsp_types::DiagnosticSeverity::WARNING) => 2,
                        Some(lsp_types::DiagnosticSeverity::INFORMATION) => 3,
                        Some(lsp_types::DiagnosticSeverity::HINT) => 4,
                        _ => 0,
                    };
                    json!([d.range.start.line, d.range.start.character, d.range.end.line, d.range.end.character, code, sev, d.message])
                })
                .collect();
            v.sort_by_key(|x| x.to_string());
            Value::Array(v)
        }
    }
}

fn cmd_diag(cases: &[Value]) {
    for case in cases {
        let r = guarded(|| {
            let b = build(case);
            let mut out = serde_json::Map::new();
            for (name, id) in &b.files {
                out.insert(name.clone(), diag_json(&b.analysis, *id));
            }
            Value::Object(out)
        });
        match r {
            Ok(v) => emit(&json!({"id": case["id"], "diags": v})),
            Err(m) => emit(&json!({"id": case["id"], "panic": m})),
        }
    }
}

// ------------------------------------------------------------------------------------------------
// read-only queries (whole-file granularity so that concurrent threads really overlap)
// ------------------------------------------------------------------------------------------------
fn eval_query(analysis: &EmmyLuaAnalysis, kind: &str, id: FileId) -> String {
    match kind {
        "diag" => diag_json(analysis, id).to_string(),
        "types" | "decl" => {
            let Some(sm) = analysis.compilation.get_semantic_model(id) else {
                return "no-model".to_string();
            };
            let db = sm.get_db();
            let mut out = String::new();
            for tok in sm
                .get_root()
                .syntax()
                .descendants_with_tokens()
                .filter_map(|e| e.into_token())
            {
                let k: LuaTokenKind = tok.kind().into();
                if k != LuaTokenKind::TkName {
                    continue;
                }
                let off: u32 = tok.text_range().start().into();
                if kind == "types" {
                    match sm.get_semantic_info(tok.clone().into()) {
                        Some(info) => {
                            out.push_str(&format!(
                                "{}:{}={}|{:?};",
                                off,
                                tok.text(),
                                humanize_type(db, &info.typ, RenderLevel::Detailed),
                                info.semantic_decl
                            ));
                        }
                        None => out.push_str(&format!("{}:{}=?;", off, tok.text())),
                    }
                } else {
                    let d = sm.find_decl(tok.clone().into(), SemanticDeclLevel::default());
                    out.push_str(&format!("{}:{}->{:?};", off, tok.text(), d));
                }
            }
            out
        }
        other => panic!("harness: unknown query kind {other}"),
    }
}

fn sizes(analysis: &EmmyLuaAnalysis) -> Vec<(String, usize)> {
    analysis.compilation.get_db().verif_sizes()
}

/// C38: queries sequentially, then the TLC-chosen assignment on real threads sharing one Arc<EmmyLuaAnalysis>.
fn cmd_conc(cases: &[Value]) {
    let mut cached: Option<(String, Arc<EmmyLuaAnalysis>, HashMap<String, FileId>)> = None;
    for case in cases {
        let key = case["files"].to_string() + &case["emmyrc"].to_string();
        if cached.as_ref().map(|c| c.0 != key).unwrap_or(true) {
            match guarded(|| build(case)) {
                Ok(b) => {
                    let ids = b.files.iter().cloned().collect();
                    cached = Some((key.clone(), Arc::new(b.analysis), ids));
                }
                Err(m) => {
                    emit(&json!({"id": case["id"], "build_panic": m}));
                    continue;
                }
            }
        }
        let (_, analysis, ids) = cached.as_ref().unwrap();
        let repeat = case["repeat"].as_u64().unwrap_or(1) as usize;
        let threads: Vec<Vec<(String, String)>> = case["threads"]
            .as_array()
            .unwrap()
            .iter()
            .map(|t| {
                t.as_array()
                    .unwrap()
                    .iter()
                    .map(|q| (q["k"].as_str().unwrap().to_string(), q["f"].as_str().unwrap().to_string()))
                    .collect::<Vec<_>>()
            })
            .filter(|t: &Vec<(String, String)>| !t.is_empty())
            .collect();
        let before = sizes(analysis);
        // sequential reference (twice: the sequential result itself must be deterministic to be a reference)
        let mut reference: HashMap<(String, String), Result<String, String>> = HashMap::new();
        let mut seq_unstable = Vec::new();
        for t in &threads {
            for q in t {
                if reference.contains_key(q) {
                    continue;
                }
                let id = ids[&q.1];
                let r1 = guarded(|| eval_query(analysis, &q.0, id));
                let r2 = guarded(|| eval_query(analysis, &q.0, id));
                if r1 != r2 {
                    seq_unstable.push(json!({"k": q.0, "f": q.1}));
                }
                reference.insert(q.clone(), r1);
            }
        }
        let reference = Arc::new(reference);
        let mismatches = Arc::new(Mutex::new(Vec::<Value>::new()));
        let barrier = Arc::new(Barrier::new(threads.len()));
        let mut handles = Vec::new();
        let mut evaluations = 0usize;
        for (ti, t) in threads.iter().enumerate() {
            evaluations += t.len() * repeat;
            let analysis = analysis.clone();
            let reference = reference.clone();
            let mismatches = mismatches.clone();
            let barrier = barrier.clone();
            let t = t.clone();
            let ids = ids.clone();
            handles.push(std::thread::spawn(move || {
                barrier.wait();
                for round in 0..repeat {
                    for (qi, q) in t.iter().enumerate() {
                        let id = ids[&q.1];
                        let r = guarded(|| eval_query(&analysis, &q.0, id));
                        let exp = &reference[q];
                        if &r != exp {
                            let mut m = mismatches.lock().unwrap();
                            if m.len() < 5 {
                                let (a, b) = (format!("{:?}", exp), format!("{:?}", r));
                                let pos = a.bytes().zip(b.bytes()).position(|(x, y)| x != y).unwrap_or(0);
                                let lo = pos.saturating_sub(60);
                                m.push(json!({"thread": ti, "round": round, "index": qi, "k": q.0, "f": q.1,
                                    "panic_seq": exp.is_err(), "panic_conc": r.is_err(),
                                    "sequential": a.chars().skip(lo).take(200).collect::<String>(),
                                    "concurrent": b.chars().skip(lo).take(200).collect::<String>()}));
                            }
                        }
                    }
                }
            }));
        }
        let mut thread_panics = 0;
        for h in handles {
            if h.join().is_err() {
                thread_panics += 1;
            }
        }
        let after = sizes(analysis);
        let changed: Vec<Value> = before
            .iter()
            .zip(after.iter())
            .filter(|(a, b)| a != b)
            .map(|(a, b)| json!({"index": a.0, "before": a.1, "after": b.1}))
            .collect();
        let seq_panics: Vec<Value> = reference
            .iter()
            .filter_map(|(q, r)| r.as_ref().err().map(|m| json!({"k": q.0, "f": q.1, "panic": m})))
            .collect();
        let mm = mismatches.lock().unwrap().clone();
        emit(&json!({"id": case["id"], "threads": threads.len(), "evaluations": evaluations,
            "distinct_queries": reference.len(), "mismatches": mm, "sizes_changed": changed,
            "seq_unstable": seq_unstable, "seq_panics": seq_panics, "thread_panics": thread_panics}));
    }
}

// ------------------------------------------------------------------------------------------------
// C12: crash-freedom.  Every case: index all files, diagnose each, semantic info / decl of every token,
// type of every expression, rendered at every level.  A "start" line is flushed before each case so that the
// driver can attribute an abort (stack overflow) or a budget overrun to the case.
// ------------------------------------------------------------------------------------------------
fn cpu_seconds() -> f64 {
    // utime + stime of the whole process, clock ticks (100 Hz on Linux)
    let s = std::fs::read_to_string("/proc/self/stat").unwrap_or_default();
    let rest = s.rsplit(") ").next().unwrap_or("");
    let f: Vec<&str> = rest.split_whitespace().collect();
    let ut: f64 = f.get(11).and_then(|x| x.parse().ok()).unwrap_or(0.0);
    let st: f64 = f.get(12).and_then(|x| x.parse().ok()).unwrap_or(0.0);
    (ut + st) / 100.0
}

fn crash_case(case: &Value) -> Value {
    let mut stage = "index";
    let mut counts = [0usize; 4];
    let stage_cell = std::cell::Cell::new(stage);
    let r = guarded(|| {
        let b = build(case);
        let analysis = &b.analysis;
        for (_, id) in &b.files {
            stage_cell.set("diagnose");
            if let Some(d) = analysis.diagnose_file(*id, CancellationToken::new()) {
                counts[0] += d.len();
            }
            stage_cell.set("semantic");
            let Some(sm) = analysis.compilation.get_semantic_model(*id) else { continue };
            let db = sm.get_db();
            for el in sm.get_root().syntax().descendants_with_tokens() {
                match el {
                    rowan::NodeOrToken::Token(tok) => {
                        let k: LuaTokenKind = tok.kind().into();
                        if matches!(k, LuaTokenKind::TkWhitespace | LuaTokenKind::TkEndOfLine) {
                            continue;
                        }
                        counts[1] += 1;
                        if let Some(info) = sm.get_semantic_info(tok.clone().into()) {
                            for lvl in [RenderLevel::Detailed, RenderLevel::Simple, RenderLevel::Documentation, RenderLevel::Brief] {
                                let _ = humanize_type(db, &info.typ, lvl);
                            }
                            let _ = sm.get_member_infos(&info.typ);
                        }
                        let _ = sm.find_decl(tok.clone().into(), SemanticDeclLevel::default());
                        let _ = sm.find_decl(tok.into(), SemanticDeclLevel::NoTrace);
                    }
                    rowan::NodeOrToken::Node(node) => {
                        if let Some(expr) = LuaExpr::cast(node.clone()) {
                            counts[2] += 1;
                            if let Ok(t) = sm.infer_expr(expr) {
                                let _ = humanize_type(db, &t, RenderLevel::Detailed);
                                let _ = sm.type_check(&t, &t);
                            }
                        }
                        counts[3] += 1;
                        let _ = sm.get_semantic_info(node.into());
                    }
                }
            }
        }
    });
    stage = stage_cell.get();
    match r {
        Ok(()) => json!({"id": case["id"], "ok": true, "diags": counts[0], "tokens": counts[1], "exprs": counts[2], "nodes": counts[3]}),
        Err(m) => json!({"id": case["id"], "panic": m, "stage": stage}),
    }
}

fn cmd_crash(cases: &[Value], budget: f64) {
    // watchdog: CPU budget per case (process CPU time, so machine load does not matter)
    let current: Arc<Mutex<(i64, f64)>> = Arc::new(Mutex::new((-1, 0.0)));
    {
        let current = current.clone();
        std::thread::spawn(move || {
            loop {
                std::thread::sleep(std::time::Duration::from_millis(200));
                let (idx, started) = *current.lock().unwrap();
                if idx >= 0 && cpu_seconds() - started > budget {
                    let out = std::io::stdout();
                    let mut l = out.lock();
                    let _ = writeln!(l, "{}", json!({"idx": idx, "budget_exceeded": budget}));
                    let _ = l.flush();
                    std::process::exit(3);
                }
            }
        });
    }
    for (i, case) in cases.iter().enumerate() {
        *current.lock().unwrap() = (i as i64, cpu_seconds());
        emit(&json!({"idx": i, "start": case["id"]}));
        let _ = std::io::stdout().flush();
        let c = case.clone();
        // same stack size as a default main thread: a stack overflow kills the process and is attributed by the driver
        let h = std::thread::Builder::new().stack_size(8 << 20).spawn(move || crash_case(&c)).unwrap();
        let v = h.join().unwrap_or_else(|_| json!({"id": case["id"], "panic": "thread panicked outside guard"}));
        let mut v = v;
        v["idx"] = json!(i);
        v["cpu_s"] = json!(cpu_seconds() - current.lock().unwrap().1);
        emit(&v);
        let _ = std::io::stdout().flush();
    }
    *current.lock().unwrap() = (-1, 0.0);
}

fn main() {
    quiet_panics();
    let args: Vec<String> = std::env::args().collect();
    let cmd = args.get(1).map(|s| s.as_str()).unwrap_or("");
    let cases = read_cases(args.get(2).map(|s| s.as_str()));
    match cmd {
        "diag" => cmd_diag(&cases),
        "conc" => cmd_conc(&cases),
        "crash" => cmd_crash(
            &cases,
            args.get(3).and_then(|b| b.parse().ok()).unwrap_or(20.0),
        ),
        _ => {
            eprintln!("usage: vh_anaq diag|conc|crash <cases.ndjson>");
            std::process::exit(2);
        }
    }
    emit(&json!({"summary": {"cases": cases.len()}}));
}

