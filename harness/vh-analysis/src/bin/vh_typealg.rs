//! Replays TypeAlgebra cases (C16 laws / C16 union batches / C17 render round trip / C18 substitution)
//! into the real analyser through a `VirtualWorkspace`.
//!
//! usage: vh_typealg <mode> <cases.ndjson>      mode = laws | union | render | subst
//! The first NDJSON line is a header `{"prelude": "<lua declarations>", ...}`; the rest are cases.
//! stdout: NDJSON observations + a final {"summary": ...}.  The binary only transports and observes;
//! every expected value comes from the TLA+ specification and is compared in the python driver
//! (except plain "law says accepted" checks, where the observation itself is the verdict).
use emmylua_code_analysis::{
    FileId, LuaType, LuaUnionType, RenderLevel, TypeOps, VirtualWorkspace, humanize_type,
};
use emmylua_parser::{LuaAstNode, LuaAstToken, LuaLocalName};
use std::collections::HashMap;
use std::sync::Arc;
use vh_common::{Value, emit, guarded, json, quiet_panics, read_cases};

fn variant(t: &LuaType) -> &'static str {
    match t {
        LuaType::Unknown => "unknown",
        LuaType::Any => "any",
        LuaType::Nil => "nil",
        LuaType::Table => "table",
        LuaType::Userdata => "userdata",
        LuaType::Function => "function",
        LuaType::Thread => "thread",
        LuaType::Boolean => "boolean",
        LuaType::String => "string",
        LuaType::Integer => "integer",
        LuaType::Number => "number",
        LuaType::Never => "never",
        LuaType::BooleanConst(_) | LuaType::StringConst(_) | LuaType::IntegerConst(_) | LuaType::FloatConst(_) => "const",
        LuaType::DocBooleanConst(_) | LuaType::DocStringConst(_) | LuaType::DocIntegerConst(_) => "lit",
        LuaType::TableConst(_) => "tableconst",
        LuaType::Ref(_) => "ref",
        LuaType::Def(_) => "def",
        LuaType::Array(_) => "array",
        LuaType::Tuple(_) => "tuple",
        LuaType::DocFunction(_) => "docfunction",
        LuaType::Signature(_) => "signature",
        LuaType::Object(_) => "object",
        LuaType::Union(_) => "union",
        LuaType::Intersection(_) => "intersection",
        LuaType::Generic(_) => "generic",
        LuaType::TableGeneric(_) => "tablegeneric",
        LuaType::TplRef(_) => "tplref",
        LuaType::Variadic(_) => "variadic",
        LuaType::Instance(_) => "instance",
        _ => "other",
    }
}

/// Types of all `local` names of a file, in source order.
fn local_types(ws: &VirtualWorkspace, file_id: FileId) -> Vec<LuaType> {
    let tree = ws
        .analysis
        .compilation
        .get_db()
        .get_vfs()
        .get_syntax_tree(&file_id)
        .expect("tree");
    let model = ws.analysis.compilation.get_semantic_model(file_id).expect("model");
    let mut out = Vec::new();
    for name in tree.get_chunk_node().descendants::<LuaLocalName>() {
        let token = name.get_name_token().expect("name token");
        let ty = model
            .get_semantic_info(token.syntax().clone().into())
            .map(|i| i.typ)
            .unwrap_or(LuaType::Unknown);
        out.push(ty);
    }
    out
}

/// Build annotation types in bulk: `---@type <syntax>` on a local each. A bare `table` directly under
/// `@type` denotes a fresh table instance (TableConst), so the plain `table` type is read out of a
/// one-element tuple.
fn build_types(ws: &mut VirtualWorkspace, syntaxes: &[String]) -> Vec<LuaType> {
    let mut out = Vec::with_capacity(syntaxes.len());
    for chunk in syntaxes.chunks(300) {
        let mut src = String::new();
        for (i, s) in chunk.iter().enumerate() {
            if s == "table" {
                src.push_str(&format!("---@type [table]\nlocal t{i}\n"));
            } else {
                src.push_str(&format!("---@type {s}\nlocal t{i}\n"));
            }
        }
        let id = ws.def(&src);
        let tys = local_types(ws, id);
        assert_eq!(tys.len(), chunk.len(), "one local per annotation");
        for (s, t) in chunk.iter().zip(tys) {
            if s == "table" {
                match &t {
                    LuaType::Tuple(tp) => out.push(tp.get_types()[0].clone()),
                    _ => out.push(t),
                }
            } else {
                out.push(t);
            }
        }
    }
    out
}

fn build_exprs(ws: &mut VirtualWorkspace, exprs: &[String]) -> Vec<LuaType> {
    let mut src = String::new();
    for (i, e) in exprs.iter().enumerate() {
        src.push_str(&format!("local e{i} = {e}\n"));
    }
    let id = ws.def(&src);
    local_types(ws, id)
}

fn strs(v: &Value) -> Vec<String> {
    v.as_array()
        .map(|a| a.iter().map(|x| x.as_str().unwrap_or("").to_string()).collect())
        .unwrap_or_default()
}

// ------------------------------------------------------------------------------------------------
// laws: {"id", "law", "s", "v", "sv", "vv"}  ->  check_type_compact(ty(s), ty(v)) must be Ok
// ------------------------------------------------------------------------------------------------
fn run_laws(ws: &mut VirtualWorkspace, cases: &[Value]) {
    let mut index: HashMap<String, usize> = HashMap::new();
    let mut syntaxes: Vec<String> = Vec::new();
    let mut expect_variant: Vec<String> = Vec::new();
    for c in cases {
        for (k, kv) in [("s", "sv"), ("v", "vv")] {
            let s = c[k].as_str().unwrap().to_string();
            if !index.contains_key(&s) {
                index.insert(s.clone(), syntaxes.len());
                syntaxes.push(s);
                expect_variant.push(c[kv].as_str().unwrap_or("").to_string());
            }
        }
    }
    let types = build_types(ws, &syntaxes);
    let mut mismatches = 0u64;
    for (i, t) in types.iter().enumerate() {
        if variant(t) != expect_variant[i] {
            mismatches += 1;
            emit(&json!({"variant_mismatch": syntaxes[i], "expected": expect_variant[i], "actual": variant(t),
                         "debug": format!("{:?}", t).chars().take(200).collect::<String>()}));
        }
    }
    let any_file = ws.def("local _ = 1");
    let model = ws.analysis.compilation.get_semantic_model(any_file).expect("model");
    let mut rejected = 0u64;
    for c in cases {
        let s = &types[index[c["s"].as_str().unwrap()]];
        let v = &types[index[c["v"].as_str().unwrap()]];
        match guarded(|| model.type_check(s, v)) {
            Ok(Ok(())) => {}
            Ok(Err(reason)) => {
                rejected += 1;
                emit(&json!({"id": c["id"], "result": "reject", "reason": format!("{:?}", reason)}));
            }
            Err(msg) => {
                rejected += 1;
                emit(&json!({"id": c["id"], "result": "panic", "reason": msg}));
            }
        }
    }
    emit(&json!({"summary": {"cases": cases.len(), "types": syntaxes.len(), "rejected": rejected,
                             "variant_mismatches": mismatches}}));
}

// ------------------------------------------------------------------------------------------------
// union: header {"universe": {name: {"src": [how, text]}}}; case {"id", "b": [names]}
// ------------------------------------------------------------------------------------------------
fn same_identity(a: &LuaType, b: &LuaType) -> bool {
    match (a, b) {
        (LuaType::TableGeneric(x), LuaType::TableGeneric(y)) => Arc::ptr_eq(x, y),
        (LuaType::Object(x), LuaType::Object(y)) => Arc::ptr_eq(x, y),
        (LuaType::Generic(x), LuaType::Generic(y)) => Arc::ptr_eq(x, y),
        (LuaType::Union(x), LuaType::Union(y)) => Arc::ptr_eq(x, y),
        _ => a == b,
    }
}

fn name_of(t: &LuaType, atoms: &[(String, LuaType)]) -> String {
    for (n, a) in atoms {
        if !matches!(a, LuaType::Union(_)) && same_identity(a, t) {
            return n.clone();
        }
    }
    format!("?{:?}", t).chars().take(120).collect()
}

fn describe(t: &LuaType, atoms: &[(String, LuaType)]) -> Value {
    match t {
        LuaType::Union(u) => {
            let (k, members): (&str, Vec<LuaType>) = match u.as_ref() {
                LuaUnionType::Basic(_) => ("basic", u.into_vec()),
                LuaUnionType::Nullable(inner) => ("nullable", vec![inner.clone()]),
                LuaUnionType::Multi(ts) => ("multi", ts.clone()),
            };
            let ms: Vec<String> = members.iter().map(|m| name_of(m, atoms)).collect();
            json!({"k": k, "n": "", "m": ms})
        }
        _ => json!({"k": "a", "n": name_of(t, atoms), "m": []}),
    }
}

fn run_union(ws: &mut VirtualWorkspace, header: &Value, cases: &[Value]) {
    let uni = header["universe"].as_object().expect("universe");
    let mut atoms: Vec<(String, LuaType)> = Vec::new();
    for (name, info) in uni {
        let how = info["src"][0].as_str().unwrap();
        let text = info["src"][1].as_str().unwrap().to_string();
        let t = match how {
            "ty" => build_types(ws, &[text]).remove(0),
            "elem" => build_types(ws, &[text]).remove(0), // build_types unwraps `table`
            "expr" => build_exprs(ws, &[text]).remove(0),
            x => panic!("src kind {x}"),
        };
        atoms.push((name.clone(), t));
    }
    // report how each universe element was really built (the driver compares with the spec's value)
    for (n, t) in &atoms {
        emit(&json!({"atom": n, "variant": variant(t), "desc": describe(t, &atoms)}));
    }
    let by_name: HashMap<String, LuaType> = atoms.iter().cloned().collect();
    let db = ws.analysis.compilation.get_db();
    for c in cases {
        let batch: Vec<LuaType> = strs(&c["b"]).iter().map(|n| by_name[n].clone()).collect();
        let r = guarded(|| {
            let all = TypeOps::union_all(db, batch.clone());
            let mut fold = LuaType::Never;
            for t in &batch {
                fold = TypeOps::Union.apply(db, &fold, t);
            }
            (all, fold)
        });
        match r {
            Ok((all, fold)) => {
                emit(&json!({"id": c["id"], "eq": all == fold, "all": describe(&all, &atoms),
                             "fold": describe(&fold, &atoms)}));
            }
            Err(msg) => emit(&json!({"id": c["id"], "panic": msg})),
        }
    }
    emit(&json!({"summary": {"cases": cases.len(), "atoms": atoms.len()}}));
}


// ------------------------------------------------------------------------------------------------
// render: case {"id", "s"}: t1 = ty(s); text = humanize_type(t1, Documentation); t2 = ty(text)
// ------------------------------------------------------------------------------------------------
/// A string literal value as its code points ("s:97,34,98"): control and non-ASCII characters
/// are compared with the specification's normal form without any text encoding in between.
fn code_points(prefix: &str, s: &str) -> String {
    let cps: Vec<String> = s.chars().map(|c| (c as u32).to_string()).collect();
    format!("{prefix}:{}", cps.join(","))
}

fn desc_tree(t: &LuaType, depth: u32) -> Value {
    let leaf = |k: &str, n: String| json!({"k": k, "n": n, "m": [], "keys": []});
    if depth > 12 {
        return leaf("deep", String::new());
    }
    let kids = |ts: &[LuaType]| -> Vec<Value> { ts.iter().map(|x| desc_tree(x, depth + 1)).collect() };
    match t {
        LuaType::DocStringConst(s) => leaf("lit", code_points("s", s.as_str())),
        LuaType::DocIntegerConst(i) => leaf("lit", format!("i:{i}")),
        LuaType::DocBooleanConst(b) => leaf("lit", format!("b:{b}")),
        LuaType::StringConst(s) => leaf("const", code_points("s", s.as_str())),
        LuaType::IntegerConst(i) => leaf("const", format!("i:{i}")),
        LuaType::BooleanConst(b) => leaf("const", format!("b:{b}")),
        LuaType::FloatConst(f) => leaf("const", format!("f:{f}")),
        LuaType::TableConst(_) => leaf("tableconst", String::new()),
        LuaType::Ref(id) => leaf("ref", id.get_name().to_string()),
        LuaType::Def(id) => leaf("def", id.get_name().to_string()),
        LuaType::Union(u) => json!({"k": "union", "n": "", "m": kids(&u.into_vec()), "keys": []}),
        LuaType::Array(a) => json!({"k": "arr", "n": "", "m": kids(&[a.get_base().clone()]), "keys": []}),
        LuaType::TableGeneric(ps) => json!({"k": "map", "n": "", "m": kids(ps), "keys": []}),
        LuaType::Tuple(tp) => json!({"k": "tup", "n": "", "m": kids(tp.get_types()), "keys": []}),
        LuaType::Generic(g) => json!({"k": "gen", "n": g.get_base_type_id().get_name(), "m": kids(g.get_params()), "keys": []}),
        LuaType::Object(o) => {
            let mut fields: Vec<(String, Value)> = Vec::new();
            for (k, v) in o.get_fields() {
                let key = match k {
                    emmylua_code_analysis::LuaMemberKey::Name(s) => format!("n:{}", s.as_str()),
                    emmylua_code_analysis::LuaMemberKey::Integer(i) => format!("i:{i}"),
                    other => format!("?:{:?}", other),
                };
                fields.push((key, desc_tree(v, depth + 1)));
            }
            fields.sort_by(|a, b| a.0.cmp(&b.0));
            for (k, v) in o.get_index_access() {
                let key = match k {
                    LuaType::Union(_) | LuaType::Array(_) | LuaType::Object(_) => format!("t:{}", desc_tree(k, depth + 1)),
                    _ => format!("t:{}", variant(k)),
                };
                fields.push((key, desc_tree(v, depth + 1)));
            }
            let keys: Vec<String> = fields.iter().map(|f| f.0.clone()).collect();
            let ms: Vec<Value> = fields.into_iter().map(|f| f.1).collect();
            json!({"k": "rec", "n": "", "m": ms, "keys": keys})
        }
        LuaType::DocFunction(f) if f.get_params().is_empty() => {
            json!({"k": "fun0", "n": "", "m": kids(&[f.get_ret().clone()]), "keys": []})
        }
        LuaType::DocFunction(f) => {
            let mut ms: Vec<LuaType> = f.get_params().iter().map(|p| p.1.clone().unwrap_or(LuaType::Unknown)).collect();
            ms.push(f.get_ret().clone());
            json!({"k": "fun", "n": "", "m": kids(&ms), "keys": []})
        }
        LuaType::Signature(_) => leaf("signature", String::new()),
        LuaType::TplRef(t) => leaf("tpl", t.get_name().to_string()),
        LuaType::Nil | LuaType::Any | LuaType::Unknown | LuaType::Table | LuaType::Boolean | LuaType::String
        | LuaType::Integer | LuaType::Number | LuaType::Function | LuaType::Never | LuaType::Userdata
        | LuaType::Thread => leaf("prim", variant(t).to_string()),
        _ => leaf("other", format!("{:?}", t).chars().take(200).collect()),
    }
}

fn run_render(ws: &mut VirtualWorkspace, cases: &[Value]) {
    let syntaxes: Vec<String> = cases.iter().map(|c| c["s"].as_str().unwrap().to_string()).collect();
    let t1 = build_types(ws, &syntaxes);
    let mut rendered: Vec<Result<String, String>> = Vec::new();
    {
        let db = ws.analysis.compilation.get_db();
        for t in &t1 {
            rendered.push(guarded(|| humanize_type(db, t, RenderLevel::Documentation)));
        }
    }
    // re-parse every single-line rendering in bulk
    let reparse: Vec<String> = rendered
        .iter()
        .map(|r| match r {
            Ok(s) if !s.contains('\n') && !s.trim().is_empty() => s.clone(),
            _ => "unknown".to_string(),
        })
        .collect();
    let t2 = build_types(ws, &reparse);
    for (i, c) in cases.iter().enumerate() {
        match &rendered[i] {
            Err(msg) => emit(&json!({"id": c["id"], "panic": msg, "d1": desc_tree(&t1[i], 0)})),
            Ok(text) => {
                let single = !text.contains('\n') && !text.trim().is_empty();
                emit(&json!({"id": c["id"], "rendered": text, "single_line": single,
                             "d1": desc_tree(&t1[i], 0),
                             "d2": if single { desc_tree(&t2[i], 0) } else { Value::Null },
                             "eq": single && t1[i] == t2[i]}));
            }
        }
    }
    emit(&json!({"summary": {"cases": cases.len()}}));
}

// ------------------------------------------------------------------------------------------------
// subst: case {"id", "decl": {"generics": [..], "params": [..], "ret": ".."}, "args": [syntax..]}
//        -> inferred type of `local r = f(a1, ..)`
// ------------------------------------------------------------------------------------------------
fn named_local_types(ws: &VirtualWorkspace, file_id: FileId) -> HashMap<String, LuaType> {
    let tree = ws.analysis.compilation.get_db().get_vfs().get_syntax_tree(&file_id).expect("tree");
    let model = ws.analysis.compilation.get_semantic_model(file_id).expect("model");
    let mut out = HashMap::new();
    for name in tree.get_chunk_node().descendants::<LuaLocalName>() {
        let token = name.get_name_token().expect("name token");
        let text = token.get_name_text().to_string();
        let ty = model
            .get_semantic_info(token.syntax().clone().into())
            .map(|i| i.typ)
            .unwrap_or(LuaType::Unknown);
        out.insert(text, ty);
    }
    out
}

fn run_subst(ws: &mut VirtualWorkspace, cases: &[Value]) {
    for chunk in cases.chunks(100) {
        let mut src = String::new();
        for (i, c) in chunk.iter().enumerate() {
            let d = &c["decl"];
            let generics = strs(&d["generics"]);
            let params = strs(&d["params"]);
            src.push_str(&format!("---@generic {}\n", generics.join(", ")));
            for (k, p) in params.iter().enumerate() {
                src.push_str(&format!("---@param p{} {}\n", k + 1, p));
            }
            src.push_str(&format!("---@return {}\n", d["ret"].as_str().unwrap()));
            let pnames: Vec<String> = (1..=params.len()).map(|k| format!("p{k}")).collect();
            src.push_str(&format!("local function f{}({}) end\n", i, pnames.join(", ")));
            let args = strs(&c["args"]);
            let mut anames = Vec::new();
            for (k, a) in args.iter().enumerate() {
                src.push_str(&format!("---@type {}\nlocal a{}_{}\n", a, i, k + 1));
                anames.push(format!("a{}_{}", i, k + 1));
            }
            src.push_str(&format!("local r{} = f{}({})\n", i, i, anames.join(", ")));
        }
        let r = guarded(|| {
            let id = ws.def(&src);
            named_local_types(ws, id)
        });
        match r {
            Err(msg) => {
                for c in chunk {
                    emit(&json!({"id": c["id"], "panic": msg}));
                }
            }
            Ok(tys) => {
                for (i, c) in chunk.iter().enumerate() {
                    let n = strs(&c["args"]).len();
                    let args: Vec<Value> = (1..=n)
                        .map(|k| tys.get(&format!("a{}_{}", i, k)).map(|t| desc_tree(t, 0)).unwrap_or(Value::Null))
                        .collect();
                    let r = tys.get(&format!("r{}", i));
                    emit(&json!({"id": c["id"], "r": r.map(|t| desc_tree(t, 0)).unwrap_or(Value::Null), "args": args}));
                }
            }
        }
    }
    emit(&json!({"summary": {"cases": cases.len()}}));
}

fn main() {
    quiet_panics();
    let args: Vec<String> = std::env::args().collect();
    let mode = args.get(1).map(|s| s.as_str()).unwrap_or("");
    let mut cases = read_cases(args.get(2).map(|s| s.as_str()));
    if cases.is_empty() {
        panic!("no input");
    }
    let header = cases.remove(0);
    let mut ws = VirtualWorkspace::new();
    if let Some(p) = header["prelude"].as_str() {
        ws.def(p);
    }
    match mode {
        "laws" => run_laws(&mut ws, &cases),
        "union" => run_union(&mut ws, &header, &cases),
        "render" => run_render(&mut ws, &cases),
        "subst" => run_subst(&mut ws, &cases),
        _ => panic!("mode {mode}"),
    }
}
