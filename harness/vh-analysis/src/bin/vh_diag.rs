//! Runs the real `EmmyLuaAnalysis::diagnose_file` on cases generated from DiagRules.tla (C19, C20) and on
//! generated valid / corrupted programs (C21).
//!
//! stdin/arg: NDJSON cases
//!   {"id":n, "emmyrc": {..}|null, "std": bool,
//!    "files":[{"path":"main/a.lua" | "lib/b.lua" | "std/c.lua", "text":"..."}],   // lib/ = library, std/ = std workspace
//!    "query":["main/a.lua", ...]}
//! stdout: per case {"id":n, "results":{path: null | [{"code","sev","r":[sl,sc,el,ec],"msg"}...]},
//!                   "errors":{path:[{"kind":"syntax"|"doc","s":byte,"e":byte}...]},
//!                   "meta":{path:bool}, "ws":{path:"main"|"lib"|"std"|"none"}}
//!         or {"id":n, "panic":"..."}; finally {"summary":{...}}.
//! Workspaces are cached per (emmyrc, std) and reused; files of the previous case are removed first.
use emmylua_code_analysis::{EmmyLuaAnalysis, Emmyrc, WorkspaceFolder, WorkspaceId, file_path_to_uri};
use emmylua_parser::LuaParseErrorKind;
use lsp_types::NumberOrString;
use std::collections::{BTreeSet, HashMap};
use std::path::PathBuf;
use std::sync::Arc;
use tokio_util::sync::CancellationToken;
use vh_common::{Value, emit, guarded, json, quiet_panics, read_cases};

const ROOT: &str = "/vh/ws";

struct Ws {
    analysis: EmmyLuaAnalysis,
    loaded: BTreeSet<String>,
}

fn new_ws(emmyrc: &Value, std: bool) -> Ws {
    let mut analysis = EmmyLuaAnalysis::new();
    if !emmyrc.is_null() {
        let rc: Emmyrc = serde_json::from_value(emmyrc.clone()).expect("emmyrc json");
        analysis.update_config(Arc::new(rc));
    }
    if std {
        analysis.init_std_lib(None);
    }
    // a standard-library root of our own (what init_std_lib does for the bundled resources)
    analysis
        .compilation
        .get_db_mut()
        .get_module_index_mut()
        .add_workspace_root(PathBuf::from(format!("{ROOT}/std")), WorkspaceId::STD);
    analysis.add_main_workspace(PathBuf::from(format!("{ROOT}/main")));
    analysis.add_library_workspace(&WorkspaceFolder::new(PathBuf::from(format!("{ROOT}/lib")), true));
    Ws { analysis, loaded: BTreeSet::new() }
}

fn main() {
    quiet_panics();
    let args: Vec<String> = std::env::args().collect();
    let cases = read_cases(args.get(1).map(|s| s.as_str()));
    let mut cache: HashMap<String, Ws> = HashMap::new();
    let mut panics = 0u64;
    let mut diagnosed = 0u64;
    for case in &cases {
        let id = case["id"].clone();
        let emmyrc = case.get("emmyrc").cloned().unwrap_or(Value::Null);
        let std = case.get("std").and_then(|v| v.as_bool()).unwrap_or(false);
        let key = format!("{}|{}", emmyrc, std);
        if cache.len() > 256 && !cache.contains_key(&key) {
            cache.clear();
        }
        let r = guarded(|| {
            let ws = cache.entry(key.clone()).or_insert_with(|| new_ws(&emmyrc, std));
            let files = case["files"].as_array().expect("files");
            let now: BTreeSet<String> = files.iter().map(|f| f["path"].as_str().unwrap().to_string()).collect();
            let stale: Vec<String> = ws.loaded.difference(&now).cloned().collect();
            for p in stale {
                let uri = file_path_to_uri(&PathBuf::from(format!("{ROOT}/{p}"))).unwrap();
                ws.analysis.remove_file_by_uri(&uri);
                ws.loaded.remove(&p);
            }
            let mut ids = HashMap::new();
            let list: Vec<_> = files
                .iter()
                .map(|f| {
                    let p = f["path"].as_str().unwrap();
                    let uri = file_path_to_uri(&PathBuf::from(format!("{ROOT}/{p}"))).unwrap();
                    (uri, Some(f["text"].as_str().unwrap().to_string()))
                })
                .collect();
            let file_ids = ws.analysis.update_files_by_uri(list);
            for (f, fid) in files.iter().zip(file_ids.iter()) {
                let p = f["path"].as_str().unwrap().to_string();
                ws.loaded.insert(p.clone());
                ids.insert(p, *fid);
            }
            let mut results = serde_json::Map::new();
            let mut errors = serde_json::Map::new();
            let mut meta = serde_json::Map::new();
            let mut wsk = serde_json::Map::new();
            for q in case["query"].as_array().expect("query") {
                let p = q.as_str().unwrap();
                let uri = file_path_to_uri(&PathBuf::from(format!("{ROOT}/{p}"))).unwrap();
                let fid = ws.analysis.get_file_id(&uri).expect("file id");
                let diags = ws.analysis.diagnose_file(fid, CancellationToken::new());
                let v = match diags {
                    None => Value::Null,
                    Some(ds) => Value::Array(
                        ds.iter()
                            .map(|d| {
                                let code = match &d.code {
                                    Some(NumberOrString::String(s)) => Value::String(s.clone()),
                                    Some(NumberOrString::Number(n)) => json!(n),
                                    None => Value::Null,
                                };
                                let sev = match d.severity {
                                    Some(s) => serde_json::to_value(s).unwrap_or(Value::Null),
                                    None => Value::Null,
                                };
                                json!({"code": code, "sev": sev,
                                       "r": [d.range.start.line, d.range.start.character, d.range.end.line, d.range.end.character],
                                       "msg": d.message})
                            })
                            .collect(),
                    ),
                };
                results.insert(p.to_string(), v);
                let db = ws.analysis.compilation.get_db();
                let errs = db
                    .get_vfs()
                    .get_syntax_tree(&fid)
                    .map(|t| {
                        t.get_errors()
                            .iter()
                            .map(|e| {
                                json!({"kind": match e.kind { LuaParseErrorKind::SyntaxError => "syntax", LuaParseErrorKind::DocError => "doc" },
                                       "s": u32::from(e.range.start()), "e": u32::from(e.range.end()), "msg": e.message})
                            })
                            .collect::<Vec<_>>()
                    })
                    .unwrap_or_default();
                errors.insert(p.to_string(), Value::Array(errs));
                meta.insert(p.to_string(), json!(db.get_module_index().is_meta_file(&fid)));
                let w = match db.get_module_index().get_workspace_id(fid) {
                    None => "none",
                    Some(w) if w.is_main() => "main",
                    Some(w) if w.is_library() => "lib",
                    Some(_) => "std",
                };
                wsk.insert(p.to_string(), json!(w));
            }
            json!({"id": id, "results": results, "errors": errors, "meta": meta, "ws": wsk})
        });
        match r {
            Ok(v) => {
                diagnosed += 1;
                emit(&v);
            }
            Err(p) => {
                panics += 1;
                emit(&json!({"id": id, "panic": p}));
                cache.remove(&key);
            }
        }
    }
    emit(&json!({"summary": {"cases": cases.len(), "diagnosed": diagnosed, "panics": panics}}));
}
