fn main() { println!("placeholder"); }
