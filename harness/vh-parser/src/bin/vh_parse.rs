//! Replay / recording binary for the parser properties C01, C02 (progress part), C03.
//!
//!   vh_parse soup  <cases.ndjson>   C01: each case {"l":[lexeme names]} (TokenSoup.tla) is concretised,
//!                                   parsed at every language level x doc on/off, and the property
//!                                   predicate (tree text == input, tokens tile the input) evaluated.
//!                                   stdout: one line per failing (case, config) + {"summary":..}
//!   vh_parse trace <cases.ndjson>   C01/C02: each case {"l":[..],"level":"Lua54","doc":true} is parsed
//!                                   with the verif recorder on; stdout: one NDJSON line per event of
//!                                   every parse, in the format ParserTrace.tla validates.
//!   vh_parse errors <cases.ndjson>  C03: each case {"t":[token texts],"levels":[..]} joined with " ";
//!                                   stdout per case: error count per level (+ luars verdict).
use emmylua_parser::verif::{self, MarkEvent};
use emmylua_parser::{
    LexerConfig, LuaFeaturesSet, LuaLanguageLevel, LuaLexer, LuaParser, LuaSyntaxKind, LuaSyntaxTree,
    LuaTokenKind, ParserConfig, Reader,
};
use rowan::NodeOrToken;
use std::collections::HashMap;
use vh_common::{Value, emit, guarded, json, quiet_panics, read_cases};

pub const LEVELS: [(&str, LuaLanguageLevel); 8] = [
    ("Lua51", LuaLanguageLevel::Lua51),
    ("LuaJIT2", LuaLanguageLevel::LuaJIT2),
    ("LuaJIT", LuaLanguageLevel::LuaJIT),
    ("LuaJIT3", LuaLanguageLevel::LuaJIT3),
    ("Lua52", LuaLanguageLevel::Lua52),
    ("Lua53", LuaLanguageLevel::Lua53),
    ("Lua54", LuaLanguageLevel::Lua54),
    ("Lua55", LuaLanguageLevel::Lua55),
];

fn level_of(name: &str) -> LuaLanguageLevel {
    LEVELS
        .iter()
        .find(|(n, _)| *n == name)
        .unwrap_or_else(|| panic!("unknown level {name}"))
        .1
}

/// Lexeme names of TokenSoup.tla that do not stand for themselves.
fn concretise_one(name: &str, out: &mut String) {
    match name {
        "<NUL>" => out.push('\0'),
        "<BOM>" => out.push('\u{feff}'),
        "<NL>" => out.push('\n'),
        "<CR>" => out.push('\r'),
        "<SP>" => out.push(' '),
        "<TAB>" => out.push('\t'),
        "<EACUTE>" => out.push('\u{e9}'),
        "<EMOJI>" => out.push('\u{1F600}'),
        "<BSLASH>" => out.push('\\'),
        "<DQUOTE>" => out.push('"'),
        x if x.starts_with('<') && x.ends_with('>') && x.len() > 2 && x != "<const>" && x != "<close>" => {
            panic!("unknown lexeme name {x}")
        }
        x => out.push_str(x),
    }
}

fn concretise(l: &[Value]) -> String {
    let mut s = String::new();
    for x in l {
        concretise_one(x.as_str().expect("lexeme name"), &mut s);
    }
    s
}

fn config(level: LuaLanguageLevel, doc: bool) -> ParserConfig<'static> {
    ParserConfig::new(level, None, HashMap::new(), LuaFeaturesSet::default(), doc)
}

/// The property predicate of C01 on one tree. Returns None if it holds, else a description.
fn lossless(text: &str, tree: &LuaSyntaxTree) -> Option<Value> {
    let root = tree.get_red_root();
    let tree_text = root.text().to_string();
    let mut pos: usize = 0;
    let mut tile_fail: Option<Value> = None;
    let mut ntok = 0usize;
    for el in root.descendants_with_tokens() {
        if let NodeOrToken::Token(t) = el {
            ntok += 1;
            let r = t.text_range();
            let (s, e): (usize, usize) = (r.start().into(), r.end().into());
            if tile_fail.is_none() {
                if s != pos {
                    tile_fail = Some(json!({"kind":"gap-or-overlap","at":pos,"token_start":s}));
                } else if text.get(s..e) != Some(t.text()) {
                    tile_fail = Some(json!({"kind":"token-text-differs","at":s,"token":t.text()}));
                }
            }
            pos = e;
        }
    }
    if tile_fail.is_none() && pos != text.len() {
        tile_fail = Some(json!({"kind":"dropped-suffix","tree_len":pos,"input_len":text.len()}));
    }
    if tree_text == text && tile_fail.is_none() {
        return None;
    }
    let common = tree_text
        .bytes()
        .zip(text.bytes())
        .take_while(|(a, b)| a == b)
        .count();
    Some(json!({
        "tree_text": tree_text, "tree_len": tree_text.len(), "input_len": text.len(),
        "common_prefix": common, "is_prefix": common == tree_text.len(), "tile": tile_fail, "tokens": ntok,
    }))
}

/// Watchdog for hangs (C02): the working thread publishes the index of the case it is parsing; if one case
/// consumes more than HANG_CPU_SECS of CPU time of the working (main) thread the watchdog reports it as
/// {"fail":"hang"} and ends the process (the remaining cases stay unjudged, which the driver notices from the
/// missing summary). CPU time, not wall time, so that a loaded machine does not look like a hang.
static CURRENT_CASE: std::sync::atomic::AtomicI64 = std::sync::atomic::AtomicI64::new(-1);
const HANG_CPU_SECS: u64 = 3;

fn main_thread_cpu_ns() -> u64 {
    std::fs::read_to_string("/proc/self/schedstat")
        .ok()
        .and_then(|s| s.split_whitespace().next().and_then(|x| x.parse().ok()))
        .unwrap_or(0)
}

fn start_watchdog(cases: &[Value]) {
    use std::sync::atomic::Ordering;
    let cases: Vec<Value> = cases.to_vec();
    std::thread::spawn(move || {
        let mut last = -2i64;
        let mut since = main_thread_cpu_ns();
        loop {
            std::thread::sleep(std::time::Duration::from_millis(200));
            let cur = CURRENT_CASE.load(Ordering::SeqCst);
            if cur != last {
                last = cur;
                since = main_thread_cpu_ns();
            } else if cur >= 0 && main_thread_cpu_ns().saturating_sub(since) >= HANG_CPU_SECS * 1_000_000_000 {
                let case = &cases[cur as usize];
                let text = case.get("l").and_then(|l| l.as_array()).map(|l| concretise(l));
                emit(&json!({"fail":"hang","case_index":cur,"l":case.get("l"),"text":text,"seconds":HANG_CPU_SECS}));
                std::process::exit(0);
            }
        }
    });
}

fn mode_soup(cases: &[Value]) {
    start_watchdog(cases);
    let mut parses = 0u64;
    let mut fails = 0u64;
    let mut panics = 0u64;
    for (ci, case) in cases.iter().enumerate() {
        CURRENT_CASE.store(ci as i64, std::sync::atomic::Ordering::SeqCst);
        let l = case["l"].as_array().expect("l");
        let text = concretise(l);
        // group identical failures over configs
        let mut seen: Vec<(Value, Vec<String>)> = Vec::new();
        for (lname, level) in LEVELS {
            for doc in [true, false] {
                parses += 1;
                let r = guarded(|| {
                    let tree = LuaParser::parse(&text, config(level, doc));
                    lossless(&text, &tree)
                });
                let obs = match r {
                    Ok(None) => continue,
                    Ok(Some(v)) => v,
                    Err(p) => {
                        panics += 1;
                        json!({"panic": p})
                    }
                };
                let cfg = format!("{}/{}", lname, if doc { "doc" } else { "nodoc" });
                if let Some(e) = seen.iter_mut().find(|(v, _)| *v == obs) {
                    e.1.push(cfg);
                } else {
                    seen.push((obs, vec![cfg]));
                }
            }
        }
        for (obs, cfgs) in seen {
            fails += 1;
            emit(&json!({"fail": if obs.get("panic").is_some() {"panic"} else {"lossy"},
                         "l": case["l"], "text": text, "configs": cfgs, "obs": obs}));
        }
    }
    CURRENT_CASE.store(-1, std::sync::atomic::Ordering::SeqCst);
    emit(&json!({"summary": {"cases": cases.len(), "parses": parses, "fails": fails, "panics": panics}}));
}

// ------------------------------------------------------------------------------------------------
// trace recording (ParserTrace.tla)
// ------------------------------------------------------------------------------------------------

/// Node-kind class as the green builder distinguishes them (lua_green_builder.rs finish_node/is_trivia).
fn node_class(k: LuaSyntaxKind) -> &'static str {
    match k {
        LuaSyntaxKind::None => "None",
        LuaSyntaxKind::Chunk => "Chunk",
        LuaSyntaxKind::Block => "Block",
        LuaSyntaxKind::Comment => "Comment",
        LuaSyntaxKind::TypeMultiLineUnion => "MLUnion",
        LuaSyntaxKind::DocDescription => "DocDesc",
        _ => "Other",
    }
}

/// Token-kind class as the green builder distinguishes them.
fn token_class(k: LuaTokenKind) -> &'static str {
    match k {
        LuaTokenKind::TkWhitespace | LuaTokenKind::TkEndOfLine => "ws",
        LuaTokenKind::TkDocContinue => "cont",
        _ => "plain",
    }
}

/// Pre-order dump of the real tree in the vocabulary of the spec: records {t:"N"|"T"|"E", k, s, n}.
fn tree_preorder(tree: &LuaSyntaxTree) -> Vec<Value> {
    let mut out = Vec::new();
    let root = tree.get_red_root();
    for ev in root.preorder_with_tokens() {
        match ev {
            rowan::WalkEvent::Enter(NodeOrToken::Node(n)) => {
                let k = match node_class(n.kind().into()) {
                    "None" => "Other",
                    k => k,
                };
                out.push(json!({"t":"N","k":k,"s":0,"n":0}));
            }
            rowan::WalkEvent::Leave(NodeOrToken::Node(_)) => out.push(json!({"t":"E","k":"","s":0,"n":0})),
            rowan::WalkEvent::Enter(NodeOrToken::Token(t)) => {
                let r = t.text_range();
                let s: usize = r.start().into();
                let l: usize = r.len().into();
                out.push(json!({"t":"T","k":"","s":s,"n":l}));
            }
            _ => {}
        }
    }
    out
}

fn mode_trace(cases: &[Value]) {
    let mut n = 0u64;
    for (ci, case) in cases.iter().enumerate() {
        let text = match case.get("text").and_then(|t| t.as_str()) {
            Some(t) => t.to_string(),
            None => concretise(case["l"].as_array().expect("l")),
        };
        let lname = case["level"].as_str().unwrap_or("Lua54");
        let level = level_of(lname);
        let doc = case["doc"].as_bool().unwrap_or(true);
        let cfg = config(level, doc);
        // lexer tokens straight from the real lexer (before the grammar re-tags any kind)
        let lex_tokens = {
            let mut errs = Vec::new();
            let mut lx = LuaLexer::new(Reader::new(&text), LexerConfig::new(level), Some(&mut errs));
            lx.tokenize()
        };
        verif::start_recording();
        let r = guarded(|| LuaParser::parse(&text, cfg));
        let rec = verif::take_recording().unwrap_or_default();
        let toks: Vec<Value> = lex_tokens
            .iter()
            .map(|t| json!([t.range.start_offset, t.range.length]))
            .collect();
        emit(&json!({"e":"Reset","case":ci,"l":case.get("l"),"level":lname,"doc":doc,"len":text.len(),"toks":toks,
                     "loop": rec.chunk_loop, "ntok": rec.tokens.len()}));
        for ev in &rec.events {
            match ev {
                MarkEvent::NodeStart { kind, parent } => {
                    emit(&json!({"e":"Start","k":node_class(*kind),"p":parent}))
                }
                MarkEvent::EatToken { kind, range } => {
                    emit(&json!({"e":"Eat","c":token_class(*kind),"s":range.start_offset,"n":range.length}))
                }
                MarkEvent::NodeEnd => emit(&json!({"e":"End"})),
                MarkEvent::Trivia => emit(&json!({"e":"Trivia"})),
            }
        }
        match r {
            Ok(tree) => {
                let lossy = lossless(&text, &tree).is_some();
                emit(&json!({"e":"Finish"}));
                emit(&json!({"e":"Tree","tree":tree_preorder(&tree),"lossless": !lossy,
                             "errors": tree.get_errors().len()}));
            }
            Err(p) => emit(&json!({"e":"Panic","msg":p})),
        }
        n += 1;
    }
    eprintln!("traces: {n}");
}


// ------------------------------------------------------------------------------------------------
// C03: error verdicts of the real parser per level + reference verdict of luars (Lua 5.5)
// ------------------------------------------------------------------------------------------------

/// Reference verdict for Lua 5.5: "ok" or the compile error message of luars.
fn luars_verdict(lua: &mut luars::Lua, src: &str) -> String {
    use luars::LuaApi;
    match lua.load(src).into_function() {
        Ok(_) => "ok".to_string(),
        Err(e) => format!("{}", lua.get_error_message(e)),
    }
}

fn join_tokens(t: &[Value]) -> String {
    let mut s = String::new();
    for (i, x) in t.iter().enumerate() {
        if i > 0 {
            s.push(' ');
        }
        s.push_str(x.as_str().expect("token"));
    }
    s
}

fn mode_errors(cases: &[Value]) {
    let mut lua = luars::Lua::new(luars::SafeOption::default());
    for (i, case) in cases.iter().enumerate() {
        let text = match case.get("text").and_then(|t| t.as_str()) {
            Some(t) => t.to_string(),
            None => join_tokens(case["t"].as_array().expect("t")),
        };
        let mut errs = serde_json::Map::new();
        let mut first = serde_json::Map::new();
        for lv in case["levels"].as_array().expect("levels") {
            let lname = lv.as_str().unwrap();
            let level = level_of(lname);
            match guarded(|| {
                let tree = LuaParser::parse(&text, ParserConfig::with_level(level));
                let e = tree.get_errors();
                (e.len(), tree.has_syntax_errors(), e.first().map(|x| x.message.clone()))
            }) {
                Ok((n, _syn, msg)) => {
                    errs.insert(lname.to_string(), json!(n));
                    if let Some(m) = msg {
                        first.insert(lname.to_string(), json!(m));
                    }
                }
                Err(p) => {
                    errs.insert(lname.to_string(), json!(-1));
                    first.insert(lname.to_string(), json!(format!("PANIC {p}")));
                }
            }
        }
        let reference = if case["luars"].as_bool().unwrap_or(false) {
            json!(luars_verdict(&mut lua, &text))
        } else {
            Value::Null
        };
        emit(&json!({"i": i, "errs": errs, "first": first, "luars": reference}));
    }
}

fn main() {
    quiet_panics();
    let args: Vec<String> = std::env::args().collect();
    let mode = args.get(1).map(|s| s.as_str()).unwrap_or("");
    let cases = read_cases(args.get(2).map(|s| s.as_str()));
    match mode {
        "soup" => mode_soup(&cases),
        "trace" => mode_trace(&cases),
        "errors" => mode_errors(&cases),
        m => {
            eprintln!("unknown mode {m}");
            std::process::exit(2);
        }
    }
}
