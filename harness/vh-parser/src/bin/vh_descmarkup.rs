//! Records the output of `emmylua_parser_desc::parse` (C37) for DescMarkup.tla cases.
//!
//! usage: vh_descmarkup <cases.ndjson>
//!   case: {"id": n, "text": "<lua source with a doc comment>", "cursors": [null | byte offset, ...]}
//! For every case, every description node, every flavour (md, myst, rst) and every cursor one NDJSON record:
//!   {"id", "flavour", "cursor", "panic": 0|1, "msg", "lo", "hi", "items": [[start, end, onCharBoundary], ...]}
//! (plus a {"begin": id} marker before each case, so that an abort of the process can be attributed)
//! where [lo, hi) is the range of the description (from the comment start marker that precedes its first
//! line to the end of the description node).  Nothing is judged here: DescMarkupJudge (TLA+) does that.
use emmylua_parser::{LuaAstNode, LuaDocDescription, LuaParser, LuaTokenKind, ParserConfig};
use emmylua_parser_desc::{DescParserType, parse};
use rowan::Direction;
use vh_common::{emit, guarded, json, quiet_panics, read_cases};

fn flavours() -> Vec<(&'static str, DescParserType)> {
    vec![
        ("md", DescParserType::Md),
        ("myst", DescParserType::MySt { primary_domain: Some("lua".to_string()) }),
        (
            "rst",
            DescParserType::Rst { primary_domain: Some("lua".to_string()), default_role: Some("lua:obj".to_string()) },
        ),
    ]
}

fn main() {
    quiet_panics();
    let args: Vec<String> = std::env::args().collect();
    let cases = read_cases(args.get(1).map(|s| s.as_str()));
    let mut records = 0u64;
    let mut panics = 0u64;
    for case in &cases {
        let id = case["id"].as_u64().unwrap();
        // marker: every case before this one is complete (an abort of the process is attributed to this case)
        emit(&json!({"begin": id}));
        let text = case["text"].as_str().unwrap();
        let tree = LuaParser::parse(text, ParserConfig::default());
        let descs: Vec<LuaDocDescription> = tree.get_chunk_node().descendants::<LuaDocDescription>().collect();
        for desc in descs {
            let r = desc.syntax().text_range();
            let mut lo: usize = r.start().into();
            let hi: usize = r.end().into();
            // desc_to_lines also reads the comment start marker in front of the description
            let prev = desc
                .syntax()
                .siblings_with_tokens(Direction::Prev)
                .skip(1)
                .find(|tk| tk.kind() != LuaTokenKind::TkWhitespace.into());
            if let Some(prev) = prev {
                if prev.kind() == LuaTokenKind::TkNormalStart.into() {
                    lo = prev.text_range().start().into();
                }
            }
            for (fname, flavour) in flavours() {
                for cur in case["cursors"].as_array().unwrap() {
                    let cursor = cur.as_u64().map(|c| c as usize);
                    records += 1;
                    let res = guarded(|| parse(flavour.clone(), text, desc.clone(), cursor));
                    match res {
                        Err(msg) => {
                            panics += 1;
                            emit(&json!({"id": id, "flavour": fname, "cursor": cur, "panic": 1, "msg": msg,
                                         "lo": lo, "hi": hi, "items": []}));
                        }
                        Ok(items) => {
                            let its: Vec<_> = items
                                .iter()
                                .map(|it| {
                                    let s: usize = it.range.start().into();
                                    let e: usize = it.range.end().into();
                                    let cb = s <= text.len() && e <= text.len() && text.is_char_boundary(s) && text.is_char_boundary(e);
                                    json!([s, e, if cb { 1 } else { 0 }])
                                })
                                .collect();
                            emit(&json!({"id": id, "flavour": fname, "cursor": cur, "panic": 0, "msg": "",
                                         "lo": lo, "hi": hi, "items": its}));
                        }
                    }
                }
            }
        }
    }
    emit(&json!({"summary": {"cases": cases.len(), "records": records, "panics": panics}}));
}
