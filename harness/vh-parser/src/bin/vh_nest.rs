//! C02 crash/stack part: parses one nesting-matrix case (NestMatrix.tla) per SUBPROCESS on a thread with a
//! 2 MiB stack (the stack of a tokio worker thread, where the language server parses), so that a stack
//! overflow (SIGSEGV/SIGABRT of the child) is an observation, not the end of the run.
//!
//!   vh_nest matrix <cases.ndjson>   parent: one child per case; stdout one result line per case
//!   vh_nest one <case-json>         child: builds the text, parses, prints {"errors","cpu_ns","len","depth"}
//!
//! case: {"id","construct","level","doc","depth","prefix","open","core","close","suffix","budget_ms"}
//! text = prefix ++ open^depth ++ core ++ close^depth ++ suffix      (only repetition happens here)
use emmylua_parser::{LuaFeaturesSet, LuaLanguageLevel, LuaParser, ParserConfig};
use std::collections::HashMap;
use std::io::Read;
use std::process::{Command, Stdio};
use std::time::{Duration, Instant};
use vh_common::{Value, emit, json, read_cases};

const STACK: usize = 2 * 1024 * 1024;

fn level_of(name: &str) -> LuaLanguageLevel {
    match name {
        "Lua51" => LuaLanguageLevel::Lua51,
        "Lua52" => LuaLanguageLevel::Lua52,
        "Lua53" => LuaLanguageLevel::Lua53,
        "Lua54" => LuaLanguageLevel::Lua54,
        "Lua55" => LuaLanguageLevel::Lua55,
        "LuaJIT" => LuaLanguageLevel::LuaJIT,
        "LuaJIT2" => LuaLanguageLevel::LuaJIT2,
        "LuaJIT3" => LuaLanguageLevel::LuaJIT3,
        x => panic!("level {x}"),
    }
}

fn thread_cpu_ns() -> u64 {
    std::fs::read_to_string("/proc/thread-self/schedstat")
        .ok()
        .and_then(|s| s.split_whitespace().next().and_then(|x| x.parse().ok()))
        .unwrap_or(0)
}

fn build_text(c: &Value) -> String {
    let d = c["depth"].as_u64().unwrap() as usize;
    let g = |k: &str| c[k].as_str().unwrap_or("").to_string();
    let mut s = g("prefix");
    s.push_str(&g("open").repeat(d));
    s.push_str(&g("core"));
    s.push_str(&g("close").repeat(d));
    s.push_str(&g("suffix"));
    s
}

fn child(case: &str) {
    let c: Value = serde_json::from_str(case).expect("case json");
    let text = build_text(&c);
    let level = level_of(c["level"].as_str().unwrap());
    let doc = c["doc"].as_bool().unwrap_or(true);
    // never outlive the budget, even if the parent was killed (a non-terminating parse must not be orphaned)
    let budget = c["budget_ms"].as_u64().unwrap_or(20000) + 5000;
    std::thread::spawn(move || {
        std::thread::sleep(Duration::from_millis(budget));
        std::process::exit(4);
    });
    let h = std::thread::Builder::new()
        .stack_size(STACK)
        .spawn(move || {
            let t0 = thread_cpu_ns();
            let w0 = Instant::now();
            let cfg = ParserConfig::new(level, None, HashMap::new(), LuaFeaturesSet::default(), doc);
            emmylua_parser::verif::start_recording();
            let tree = LuaParser::parse(&text, cfg);
            let cpu = thread_cpu_ns() - t0;
            let rec = emmylua_parser::verif::take_recording().unwrap_or_default();
            let (nev, ntok, nloop) = (rec.events.len(), rec.tokens.len(), rec.chunk_loop.len());
            let progress = rec.chunk_loop.windows(2).all(|w| w[0] < w[1]);
            drop(rec);
            let wall = w0.elapsed().as_nanos() as u64;
            let errors = tree.get_errors().len();
            let first = tree.get_errors().first().map(|e| e.message.clone());
            // what every consumer does next: walk the tree and read its text (iterative in rowan), then drop it
            let root = tree.get_red_root();
            let mut depth = 0usize;
            let mut maxd = 0usize;
            for ev in root.preorder() {
                match ev {
                    rowan::WalkEvent::Enter(_) => {
                        depth += 1;
                        maxd = maxd.max(depth);
                    }
                    rowan::WalkEvent::Leave(_) => depth -= 1,
                }
            }
            let lossless = root.text().len() == rowan::TextSize::from(text.len() as u32);
            if std::env::var("VH_NEST_FORGET").is_ok() {
                // diagnosis aid: leak the tree instead of dropping it (tells a recursive drop from a recursive parse)
                std::mem::forget(root);
                std::mem::forget(tree);
            } else {
                drop(root);
                drop(tree);
            }
            json!({"errors": errors, "first": first, "cpu_ns": cpu, "wall_ns": wall, "len": text.len(),
                   "tree_depth": maxd, "lossless": lossless,
                   "nev": nev, "ntok": ntok, "loop_iterations": nloop, "progress": progress})
        })
        .expect("spawn");
    match h.join() {
        Ok(v) => {
            println!("{}", v);
        }
        Err(_) => {
            println!("{}", json!({"panic": true}));
            std::process::exit(3);
        }
    }
}

fn parent(path: Option<&str>) {
    let cases = read_cases(path);
    let exe = std::env::current_exe().expect("exe");
    for c in &cases {
        let budget = Duration::from_millis(c["budget_ms"].as_u64().unwrap_or(20000));
        // address-space limit for the child: a non-terminating parse allocates without bound
        let mut ch = Command::new("sh")
            .arg("-c")
            .arg("ulimit -v 6291456; exec \"$0\" \"$@\"")
            .arg(&exe)
            .arg("one")
            .arg(c.to_string())
            .stdout(Stdio::piped())
            .stderr(Stdio::piped())
            .spawn()
            .expect("spawn child");
        let t0 = Instant::now();
        let mut timed_out = false;
        let status = loop {
            match ch.try_wait().expect("wait") {
                Some(s) => break s,
                None => {
                    if t0.elapsed() > budget {
                        timed_out = true;
                        let _ = ch.kill();
                        break ch.wait().expect("wait");
                    }
                    std::thread::sleep(Duration::from_millis(5));
                }
            }
        };
        let mut out = String::new();
        let mut err = String::new();
        if let Some(mut o) = ch.stdout.take() {
            let _ = o.read_to_string(&mut out);
        }
        if let Some(mut e) = ch.stderr.take() {
            let _ = e.read_to_string(&mut err);
        }
        #[cfg(unix)]
        let signal = {
            use std::os::unix::process::ExitStatusExt;
            status.signal()
        };
        #[cfg(not(unix))]
        let signal: Option<i32> = None;
        let res: Value = serde_json::from_str(out.trim()).unwrap_or(Value::Null);
        let outcome = if timed_out {
            "timeout"
        } else if signal.is_some() {
            if err.contains("overflowed its stack") { "stack-overflow" } else { "killed-by-signal" }
        } else if status.code() == Some(0) && !res.is_null() {
            "tree"
        } else if res.get("panic").is_some() || status.code() == Some(3) || status.code() == Some(101) {
            "panic"
        } else {
            "abnormal-exit"
        };
        let tail: String = err.chars().rev().take(300).collect::<String>().chars().rev().collect();
        emit(&json!({"id": c["id"], "outcome": outcome, "signal": signal, "code": status.code(), "res": res,
                     "stderr": tail, "wall_ms": t0.elapsed().as_millis() as u64}));
    }
}

fn main() {
    let args: Vec<String> = std::env::args().collect();
    match args.get(1).map(|s| s.as_str()) {
        Some("one") => child(&args[2]),
        Some("matrix") => parent(args.get(2).map(|s| s.as_str())),
        _ => {
            eprintln!("usage: vh_nest matrix <cases> | one <json>");
            std::process::exit(2);
        }
    }
}
