//! Helpers shared by the harness binaries: NDJSON I/O, panic capture, tiny deterministic RNG.
use std::io::{BufRead, Write};
use std::panic::{AssertUnwindSafe, catch_unwind};

pub use serde_json::{Value, json};

/// Read NDJSON cases from stdin (or the file given as first CLI argument after the subcommand).
pub fn read_cases(path: Option<&str>) -> Vec<Value> {
    let rd: Box<dyn BufRead> = match path {
        Some(p) if p != "-" => Box::new(std::io::BufReader::new(
            std::fs::File::open(p).unwrap_or_else(|e| panic!("open {p}: {e}")),
        )),
        _ => Box::new(std::io::BufReader::new(std::io::stdin())),
    };
    let mut v = Vec::new();
    for line in rd.lines() {
        let line = line.expect("read line");
        let t = line.trim();
        if t.is_empty() {
            continue;
        }
        v.push(serde_json::from_str(t).unwrap_or_else(|e| panic!("bad json line: {e}: {t}")));
    }
    v
}

/// Emit one NDJSON line on stdout.
pub fn emit(v: &Value) {
    let out = std::io::stdout();
    let mut l = out.lock();
    serde_json::to_writer(&mut l, v).expect("write");
    l.write_all(b"\n").expect("write");
}

/// Silence the default panic hook (panics of the code under test are data, reported as JSON).
pub fn quiet_panics() {
    std::panic::set_hook(Box::new(|_| {}));
}

/// Run `f`, turning a panic into Err(message).
pub fn guarded<R>(f: impl FnOnce() -> R) -> Result<R, String> {
    match catch_unwind(AssertUnwindSafe(f)) {
        Ok(r) => Ok(r),
        Err(e) => {
            let msg = if let Some(s) = e.downcast_ref::<&str>() {
                s.to_string()
            } else if let Some(s) = e.downcast_ref::<String>() {
                s.clone()
            } else {
                "panic".to_string()
            };
            Err(msg)
        }
    }
}

/// splitmix64: deterministic, seedable, no dependency.
#[derive(Clone)]
pub struct Rng(pub u64);
impl Rng {
    pub fn new(seed: u64) -> Self {
        Rng(seed.wrapping_mul(0x9E3779B97F4A7C15) ^ 0xD1B54A32D192ED03)
    }
    pub fn next(&mut self) -> u64 {
        self.0 = self.0.wrapping_add(0x9E3779B97F4A7C15);
        let mut z = self.0;
        z = (z ^ (z >> 30)).wrapping_mul(0xBF58476D1CE4E5B9);
        z = (z ^ (z >> 27)).wrapping_mul(0x94D049BB133111EB);
        z ^ (z >> 31)
    }
    pub fn below(&mut self, n: usize) -> usize {
        if n == 0 { 0 } else { (self.next() % n as u64) as usize }
    }
    pub fn pick<'a, T>(&mut self, xs: &'a [T]) -> &'a T {
        &xs[self.below(xs.len())]
    }
}
