//! C38 static part: every public component type that a shared `EmmyLuaAnalysis` holds must be `Send + Sync`
//! ON ITS OWN.  `EmmyLuaAnalysis` (and `SemanticModel`) assert it with `unsafe impl`, which would silently cover a
//! future `Rc`/`RefCell`/raw-pointer field; these assertions do not go through that `unsafe impl`.
//! If this file stops compiling with E0277, checks/C38.py reports the type as a violation.
use emmylua_code_analysis as ca;

fn assert_send_sync<T: Send + Sync>() {}

fn main() {
    // the aggregate parts of EmmyLuaAnalysis { compilation, diagnostic, emmyrc }
    assert_send_sync::<ca::LuaCompilation>();
    assert_send_sync::<ca::LuaDiagnostic>();
    assert_send_sync::<ca::Emmyrc>();
    assert_send_sync::<ca::DbIndex>();
    assert_send_sync::<ca::Vfs>();
    // every index of DbIndex
    assert_send_sync::<ca::LuaDeclIndex>();
    assert_send_sync::<ca::LuaReferenceIndex>();
    assert_send_sync::<ca::LuaTypeIndex>();
    assert_send_sync::<ca::LuaModuleIndex>();
    assert_send_sync::<ca::LuaMemberIndex>();
    assert_send_sync::<ca::LuaPropertyIndex>();
    assert_send_sync::<ca::LuaSignatureIndex>();
    assert_send_sync::<ca::DiagnosticIndex>();
    assert_send_sync::<ca::LuaOperatorIndex>();
    assert_send_sync::<ca::LuaFlowIndex>();
    assert_send_sync::<ca::LuaDependencyIndex>();
    assert_send_sync::<ca::LuaMetatableIndex>();
    assert_send_sync::<ca::LuaGlobalIndex>();
    assert_send_sync::<ca::JsonSchemaIndex>();
    // the values stored in them
    assert_send_sync::<ca::LuaType>();
    assert_send_sync::<ca::LuaTypeDecl>();
    assert_send_sync::<ca::LuaTypeCache>();
    assert_send_sync::<ca::LuaDecl>();
    assert_send_sync::<ca::LuaMember>();
    assert_send_sync::<ca::LuaSignature>();
    assert_send_sync::<ca::LuaOperator>();
    assert_send_sync::<ca::ModuleInfo>();
    assert_send_sync::<ca::LuaSemanticDeclId>();
    assert_send_sync::<ca::FileId>();
    // parser-side values kept by the Vfs
    assert_send_sync::<emmylua_parser::LuaSyntaxTree>();
    assert_send_sync::<emmylua_parser::LineIndex>();
    println!("ok");
}
