//! Generic script replayer / recorder for the in-process server session (C24, C25, C26).
//!
//! usage: vh_lsproto <cases.ndjson> <root-dir> [--results]
//!
//! Every input line is one run:
//!   {"run": "<key>", "sched": bool, "split": bool, "steps": [step, ...], "caps": {"multilineTokenSupport": bool}?}
//! caps (C26): the client of this run announces textDocument.semanticTokens.multilineTokenSupport = bool.
//! split (sched): the wrapper task of ServerContext::task is kept parked at its final lock request
//! (`cancellations`.M, after it has sent the response) until a "remove" step: the main loop handles the
//! messages played in between while the answered id is still registered in the cancellation map.
//! step:
//!   {"op":"notif","method":M,"params":P}
//!   {"op":"req","id":N,"method":M,"params":P,"hold":bool,"inject_panic":bool}
//!   {"op":"resp","id":N}                 client response (null result) to a server request
//!   {"op":"respond","id":N}              (sched) let the held handler task of request N run to completion:
//!                                        the wrapper task answers and (split) parks at `cancellations`
//!   {"op":"remove","id":N}               (sched, split) let the parked wrapper task of N remove its entry
//!   {"op":"finish","id":N}               (sched) respond + remove
//!   {"op":"advance","ms":N}              advance virtual time
//! Any JSON string containing "$ROOT" has it replaced by the file URI of <root-dir>.
//!
//! Output: NDJSON events in observation order (with --results first {"ev":"caps","caps":ServerCapabilities})
//!   {"ev":"reset","run":K}
//!   {"ev":"csend","kind":"req"|"notif"|"resp","id":N?,"method":M?}      client -> server, as delivered
//!   {"ev":"held","id":N,"ok":bool}                                        (sched) task of N parked
//!   {"ev":"held_remove","id":N,"ok":bool}   (split) N answered, its wrapper task parked at `cancellations`
//!   {"ev":"ssend","kind":"resp","id":N,"ok":bool,"code":C?,"null":bool,"result":R?}
//!   {"ev":"ssend","kind":"notif"|"req","method":M,"id":N?}
//!   {"ev":"panic","msg":S}
//!   {"ev":"quiesce","leaked":N}         all steps played, system stable; leaked = cancellation
//!                                       entries still registered (None when not observable)
//! The harness only transports: which stream is acceptable is decided by spec/LsProtocolTrace.tla.
use std::collections::{BTreeMap, BTreeSet};
use std::io::{BufRead, Write};
use std::path::PathBuf;

use emmylua_ls::verif as hook;
use lsp_server::{Message, Notification, Request, RequestId, Response};
use vh_ls::*;

fn subst(v: &mut Value, root_uri: &str) {
    match v {
        Value::String(s) => {
            if s.contains("$ROOT") {
                *s = s.replace("$ROOT", root_uri);
            }
        }
        Value::Array(a) => a.iter_mut().for_each(|x| subst(x, root_uri)),
        Value::Object(o) => o.values_mut().for_each(|x| subst(x, root_uri)),
        _ => {}
    }
}

fn id_json(id: &RequestId) -> Value {
    let s = id.to_string();
    match s.parse::<i64>() {
        Ok(n) => json!(n),
        Err(_) => json!(s.trim_matches('"')),
    }
}

struct Out {
    lines: Vec<String>,
    results: bool,
}

impl Out {
    fn ev(&mut self, v: Value) {
        self.lines.push(v.to_string());
    }

    /// Report the server->client messages of outbox[from..] and pending panics.
    fn flush(&mut self, s: &Session, from: usize) -> usize {
        for m in &s.outbox[from..] {
            match m {
                Message::Response(r) => {
                    let mut o = json!({"ev":"ssend","kind":"resp","id":id_json(&r.id),
                        "ok": r.error.is_none(),
                        "null": r.error.is_none() && r.result.as_ref().map(|x| x.is_null()).unwrap_or(true)});
                    if let Some(e) = &r.error {
                        o["code"] = json!(e.code);
                        o["message"] = json!(e.message.chars().take(200).collect::<String>());
                    }
                    if self.results
                        && let Some(res) = &r.result
                    {
                        o["result"] = res.clone();
                    }
                    self.ev(o);
                }
                Message::Notification(n) => {
                    self.ev(json!({"ev":"ssend","kind":"notif","method":n.method}));
                }
                Message::Request(r) => {
                    self.ev(json!({"ev":"ssend","kind":"req","id":id_json(&r.id),"method":r.method}));
                }
            }
        }
        for p in take_panics() {
            self.ev(json!({"ev":"panic","msg":p}));
        }
        s.outbox.len()
    }
}

/// scheduling state of one run
#[derive(Default)]
struct Sched {
    /// handler tasks kept parked at their first lock request
    held: BTreeSet<u64>,
    task_of: BTreeMap<i64, u64>,
    /// split: wrapper tasks (parked at `cancellations` after they answered) are kept parked ...
    split: bool,
    wrappers: BTreeSet<u64>,
    wrapper_of: BTreeMap<i64, u64>,
    /// ... until they are freed by a "remove" step
    freed: BTreeSet<u64>,
}

impl Sched {
    fn blocked(&self, s: &Session, t: u64, lock: &str) -> bool {
        self.held.contains(&t)
            || (self.split && t != s.main_task && lock == "cancellations" && !self.freed.contains(&t))
    }

    /// step every parked task that is not kept parked until none is left
    async fn run(&mut self, s: &mut Session) {
        let mut guard = 0;
        loop {
            guard += 1;
            if guard > 10_000 {
                break;
            }
            let parked = s.parked();
            let Some(t) = parked
                .iter()
                .find(|(t, (l, _))| !self.blocked(s, **t, l))
                .map(|(t, _)| *t)
            else {
                break;
            };
            s.step(t).await;
        }
    }

    /// split: wrapper tasks that parked at `cancellations` since the last call; the first one belongs
    /// to request `idn` (one request is answered per step), any other is not kept
    fn adopt(&mut self, s: &Session, idn: Option<i64>) -> bool {
        if !self.split {
            return false;
        }
        let mut got = false;
        for (t, (l, _)) in s.parked() {
            if t == s.main_task || l != "cancellations" || self.wrappers.contains(&t) {
                continue;
            }
            self.wrappers.insert(t);
            match idn {
                Some(i) if !got && !self.wrapper_of.contains_key(&i) => {
                    self.wrapper_of.insert(i, t);
                    got = true;
                }
                _ => {
                    self.freed.insert(t);
                }
            }
        }
        got
    }
}

async fn play(run: &Value, root: &PathBuf, out: &mut Out) {
    let root_uri = uri_of(root).to_string();
    let sched = run["sched"].as_bool().unwrap_or(false);
    out.ev(json!({"ev":"reset","run":run["run"]}));
    take_panics();
    let mut opts = SessionOpts {
        root: Some(root.clone()),
        scheduled: sched,
        ..Default::default()
    };
    // C26: "caps":{"multilineTokenSupport":bool} -- the client of this run announces
    // textDocument.semanticTokens.multilineTokenSupport (absent: the default client, which does not)
    if let Some(ml) = run["caps"]["multilineTokenSupport"].as_bool() {
        let td: lsp_types::TextDocumentClientCapabilities = serde_json::from_value(json!({
            "semanticTokens": {"requests": {"full": true}, "tokenTypes": [], "tokenModifiers": [],
                               "formats": ["relative"], "multilineTokenSupport": ml}
        }))
        .expect("client capabilities");
        let mut have = opts.capabilities.text_document.take().unwrap_or_default();
        have.semantic_tokens = td.semantic_tokens;
        opts.capabilities.text_document = Some(have);
    }
    let mut s = Session::start(opts).await;
    let mut from = s.outbox.len();
    let mut sc = Sched {
        split: sched && run["split"].as_bool().unwrap_or(false),
        ..Default::default()
    };
    let empty = Vec::new();
    for st in run["steps"].as_array().unwrap_or(&empty) {
        let op = st["op"].as_str().unwrap_or("");
        match op {
            "notif" => {
                let mut p = st["params"].clone();
                subst(&mut p, &root_uri);
                let method = st["method"].as_str().unwrap_or("").to_string();
                out.ev(json!({"ev":"csend","kind":"notif","method":method,
                    "cancel": if method == "$/cancelRequest" { p["id"].clone() } else { Value::Null }}));
                s.deliver(Message::Notification(Notification { method, params: p }))
                    .await;
                if sched {
                    sc.run(&mut s).await;
                }
            }
            "req" => {
                let mut p = st["params"].clone();
                subst(&mut p, &root_uri);
                let method = st["method"].as_str().unwrap_or("").to_string();
                let idn = st["id"].as_i64().unwrap_or(0);
                let hold = sched && st["hold"].as_bool().unwrap_or(false);
                let inject = sched && st["inject_panic"].as_bool().unwrap_or(false);
                out.ev(json!({"ev":"csend","kind":"req","id":idn,"method":method}));
                let req = Request {
                    id: RequestId::from(idn as i32),
                    method,
                    params: p,
                };
                if sched {
                    s.new_tasks();
                }
                s.deliver(Message::Request(req)).await;
                if sched {
                    // run the main loop to idle; tasks spawned meanwhile park at their first lock
                    let main = s.main_task;
                    let mut g = 0;
                    while s.parked().contains_key(&main) && g < 1000 {
                        s.step(main).await;
                        g += 1;
                    }
                    // the handler's task is the new task parked at a lock of the server state; a task
                    // parked at the cancellation map is the wrapper that has already answered
                    let parked_now = s.parked();
                    let newt: Vec<u64> = s
                        .new_tasks()
                        .into_iter()
                        .filter(|t| *t != main && !sc.held.contains(t))
                        .filter(|t| parked_now.get(t).map(|(l, _)| l != "cancellations").unwrap_or(false))
                        .collect();
                    if hold || inject {
                        // the task(s) spawned for this request
                        let ok = !newt.is_empty();
                        for t in &newt {
                            sc.held.insert(*t);
                        }
                        if let Some(t) = newt.first() {
                            sc.task_of.insert(idn, *t);
                        }
                        out.ev(json!({"ev":"held","id":idn,"ok":ok}));
                        if inject {
                            for t in &newt {
                                hook::inject_panic(*t);
                            }
                            if !hold {
                                for t in &newt {
                                    sc.held.remove(t);
                                }
                            }
                        }
                    }
                    sc.run(&mut s).await;
                    // a handler without a lock request has finished at once: its wrapper task has
                    // answered and is parked at the cancellation map
                    if sc.adopt(&s, Some(idn)) {
                        from = out.flush(&s, from);
                        out.ev(json!({"ev":"held_remove","id":idn,"ok":true}));
                    }
                }
            }
            "resp" => {
                let idn = st["id"].as_i64().unwrap_or(0);
                out.ev(json!({"ev":"csend","kind":"resp","id":idn}));
                s.deliver(Message::Response(Response::new_ok(
                    RequestId::from(idn as i32),
                    Value::Null,
                )))
                .await;
                if sched {
                    sc.run(&mut s).await;
                }
            }
            "respond" | "finish" | "remove" => {
                let idn = st["id"].as_i64().unwrap_or(0);
                if op != "remove"
                    && let Some(t) = sc.task_of.get(&idn).cloned()
                    && sc.held.remove(&t)
                {
                    // tasks spawned by the request's task itself are not held either
                    sc.run(&mut s).await;
                    if sc.split {
                        let ok = sc.adopt(&s, Some(idn));
                        from = out.flush(&s, from);
                        out.ev(json!({"ev":"held_remove","id":idn,"ok":ok}));
                    }
                }
                if op != "respond" {
                    if let Some(w) = sc.wrapper_of.get(&idn).cloned() {
                        sc.freed.insert(w);
                    }
                    sc.run(&mut s).await;
                }
            }
            "advance" => {
                let ms = st["ms"].as_u64().unwrap_or(0);
                s.advance_ms(ms).await;
                if sched {
                    sc.run(&mut s).await;
                }
            }
            _ => {}
        }
        from = out.flush(&s, from);
    }
    if sched {
        sc.held.clear();
        sc.split = false;
        sc.run(&mut s).await;
        s.free_run().await;
    }
    s.settle().await;
    from = out.flush(&s, from);
    let _ = from;
    let leaked = hook_leaked(&s);
    out.ev(json!({"ev":"quiesce","leaked":leaked}));
}

/// number of cancellation entries still registered, if the hook exposes it
fn hook_leaked(_s: &Session) -> Value {
    Value::Null
}

fn main() {
    capture_panics();
    let args: Vec<String> = std::env::args().collect();
    let cases = args.get(1).expect("cases.ndjson");
    let root = PathBuf::from(args.get(2).expect("root dir"));
    let results = args.iter().any(|a| a == "--results");
    std::fs::create_dir_all(&root).unwrap();
    let _ = hook::event_count();
    let f = std::io::BufReader::new(std::fs::File::open(cases).expect("open cases"));
    let stdout = std::io::stdout();
    let mut w = std::io::BufWriter::new(stdout.lock());
    if results {
        // what the server advertises to the client the sessions are created for (legend etc.)
        let caps = hook::server_capabilities(&lsp_types::ClientCapabilities::default());
        writeln!(w, "{}", json!({"ev":"caps","caps":serde_json::to_value(&caps).unwrap_or(Value::Null)})).unwrap();
    }
    for line in f.lines() {
        let line = line.unwrap();
        if line.trim().is_empty() {
            continue;
        }
        let run: Value = serde_json::from_str(&line).expect("case json");
        let mut out = Out {
            lines: Vec::new(),
            results,
        };
        let root2 = root.clone();
        run_rt(async {
            play(&run, &root2, &mut out).await;
        });
        for l in out.lines {
            writeln!(w, "{}", l).unwrap();
        }
    }
    w.flush().unwrap();
}

fn run_rt<F: std::future::Future>(f: F) -> F::Output {
    vh_ls::run(f)
}
