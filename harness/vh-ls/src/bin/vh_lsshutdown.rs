//! In-process replay of the shutdown phase: the REAL `AsyncConnection::handle_shutdown` (the code that
//! answers `shutdown` and then owns the main loop until `exit`) over `Connection::memory()`.
//!
//! usage: vh_lsshutdown <cases.ndjson>
//! Every line: {"run": K, "after": [ {"k":"req","id":N} | {"k":"notif"} | {"k":"resp"} | {"k":"exit"} ... ]}
//! The `shutdown` request has id 1000.  All messages of `after` are queued before handle_shutdown is
//! called, so the outcome does not depend on timing; when `after` has no `exit` the client side is
//! closed instead (handle_shutdown then sees the closed channel).
//! Output: the event format of vh_lsproto (reset / csend / ssend / exit / quiesce).
use std::io::BufRead;

use emmylua_ls::AsyncConnection;
use lsp_server::{Connection, Message, Notification, Request, RequestId, Response};
use serde_json::{Value, json};

fn main() {
    let path = std::env::args().nth(1).expect("cases.ndjson");
    let f = std::io::BufReader::new(std::fs::File::open(path).expect("open"));
    let rt = tokio::runtime::Builder::new_multi_thread()
        .worker_threads(1)
        .enable_all()
        .build()
        .unwrap();
    for line in f.lines() {
        let line = line.unwrap();
        if line.trim().is_empty() {
            continue;
        }
        let case: Value = serde_json::from_str(&line).expect("json");
        println!("{}", json!({"ev":"reset","run":case["run"]}));
        let (server, client) = Connection::memory();
        let shutdown = Request {
            id: RequestId::from(1000),
            method: "shutdown".to_string(),
            params: Value::Null,
        };
        println!("{}", json!({"ev":"csend","kind":"req","id":1000,"method":"shutdown"}));
        let mut has_exit = false;
        for m in case["after"].as_array().cloned().unwrap_or_default() {
            let k = m["k"].as_str().unwrap_or("");
            let msg = match k {
                "req" => {
                    let id = m["id"].as_i64().unwrap_or(0);
                    println!("{}", json!({"ev":"csend","kind":"req","id":id,"method":"textDocument/hover"}));
                    Message::Request(Request {
                        id: RequestId::from(id as i32),
                        method: "textDocument/hover".to_string(),
                        params: json!({"textDocument":{"uri":"file:///x.lua"},"position":{"line":0,"character":0}}),
                    })
                }
                "exit" => {
                    has_exit = true;
                    println!("{}", json!({"ev":"csend","kind":"notif","method":"exit"}));
                    Message::Notification(Notification {
                        method: "exit".to_string(),
                        params: Value::Null,
                    })
                }
                "resp" => {
                    println!("{}", json!({"ev":"csend","kind":"resp","id":777}));
                    Message::Response(Response::new_ok(RequestId::from(777), Value::Null))
                }
                "cancel" => {
                    let id = m["id"].as_i64().unwrap_or(0);
                    println!("{}", json!({"ev":"csend","kind":"notif","method":"$/cancelRequest","cancel":id}));
                    Message::Notification(Notification {
                        method: "$/cancelRequest".to_string(),
                        params: json!({"id": id}),
                    })
                }
                _ => {
                    println!("{}", json!({"ev":"csend","kind":"notif","method":"$/setTrace"}));
                    Message::Notification(Notification {
                        method: "$/setTrace".to_string(),
                        params: json!({"value":"off"}),
                    })
                }
            };
            client.sender.send(msg).unwrap();
            if k == "exit" {
                break;
            }
        }
        let Connection { sender, receiver } = client;
        if !has_exit {
            drop(sender);
        }
        let result = rt.block_on(async {
            let mut conn = AsyncConnection::from_sync(server);
            let r = conn.handle_shutdown(&shutdown).await;
            match r {
                Ok(b) => Ok(b),
                Err(e) => Err(e.to_string()),
            }
        });
        while let Ok(m) = receiver.try_recv() {
            if let Message::Response(r) = m {
                let id: Value = serde_json::to_value(&r.id).unwrap_or(Value::Null);
                let mut o = json!({"ev":"ssend","kind":"resp","id":id,"ok":r.error.is_none(),"null":true});
                if let Some(e) = &r.error {
                    o["code"] = json!(e.code);
                    o["message"] = json!(e.message);
                }
                println!("{}", o);
            }
        }
        match result {
            Ok(b) => println!("{}", json!({"ev":"exit","code":0,"shutdown":b})),
            Err(e) => println!("{}", json!({"ev":"exit","code":1,"error":e.chars().take(200).collect::<String>()})),
        }
        println!("{}", json!({"ev":"quiesce"}));
    }
}
