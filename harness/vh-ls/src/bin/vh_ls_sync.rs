//! SR binding of spec/LsSync.tla: replays TLC-generated schedules (one per distinct quiescent state) on
//! the REAL server under the deterministic scheduler, comparing the projected real state with the
//! specification state after every step and evaluating C27 / C29 / C30 on the real final state.
//!
//! usage: vh_ls_sync <scratch-root> <schedules.ndjson>
//! stdout NDJSON: {"sched": n, "ok": bool, "diverged": null | {...}, "real": {...}, "c27":..,"c29":..,"c30":..}
use std::collections::BTreeMap;
use std::path::{Path, PathBuf};

use vh_ls::*;

/// documents of `outside` live in a sibling directory of the workspace root (a library only once configured)
fn lib_dir(root: &Path) -> PathBuf {
    let name = format!("{}_lib", root.file_name().unwrap().to_string_lossy());
    root.parent().unwrap().join(name)
}

fn doc_path(root: &Path, u: &str, outside: &[String]) -> PathBuf {
    if outside.iter().any(|x| x == u) {
        lib_dir(root).join(format!("{u}.lua"))
    } else {
        root.join(format!("{u}.lua"))
    }
}

fn write_config(root: &Path, reindex: bool, lib: bool) {
    let mut ws = serde_json::Map::new();
    if reindex {
        ws.insert("enableReindex".into(), json!(true));
    }
    if lib {
        ws.insert("library".into(), json!([lib_dir(root).to_string_lossy()]));
    }
    std::fs::write(root.join(".emmyrc.json"), json!({"workspace": ws}).to_string() + "\n").unwrap();
}

fn text_of(id: &str) -> String {
    format!("local {id} = 1")
}

/// text id of a document text / of a diagnostics array ("empty" when there are none)
fn id_of_text(t: &str) -> String {
    t.trim()
        .strip_prefix("local ")
        .and_then(|r| r.split(' ').next())
        .unwrap_or("?")
        .to_string()
}

fn id_of_diags(d: &Value) -> String {
    let arr = d.as_array().cloned().unwrap_or_default();
    if arr.is_empty() {
        return "empty".into();
    }
    for x in &arr {
        let m = x["message"].as_str().unwrap_or("");
        if let Some(name) = m.split(' ').next()
            && (name.starts_with('t') || name.starts_with('d'))
        {
            return name.to_string();
        }
    }
    "?".into()
}

struct Real {
    open: BTreeMap<String, String>,
    vfs: BTreeMap<String, String>,
    publ: BTreeMap<String, String>,
}

fn observe(s: &Session, root: &Path, uris: &[String], outside: &[String]) -> Option<Real> {
    let (_, _, open) = s.wm_state().ok()?;
    let mut r = Real {
        open: BTreeMap::new(),
        vfs: BTreeMap::new(),
        publ: BTreeMap::new(),
    };
    for u in uris {
        let uri = uri_of(&doc_path(root.as_ref(), u.as_ref(), outside.as_ref()));
        let o = open
            .get(&uri.to_string())
            .map(|t| id_of_text(t))
            .unwrap_or("none".into());
        r.open.insert(u.clone(), o);
        let v = s.vfs_text(&uri).ok()?;
        r.vfs
            .insert(u.clone(), v.map(|t| id_of_text(&t)).unwrap_or("absent".into()));
        let mut p = "never".to_string();
        for (pu, d) in s.published(0) {
            if pu == uri.to_string() {
                p = id_of_diags(&d);
            }
        }
        r.publ.insert(u.clone(), p);
    }
    Some(r)
}

fn real_json(r: &Real) -> Value {
    json!({"open": r.open, "vfs": r.vfs, "pub": r.publ})
}

fn same(st: &Value, r: &Real) -> Option<String> {
    for (u, v) in &r.open {
        if st["open"][u].as_str() != Some(v) {
            return Some(format!("open[{u}] spec={} real={v}", st["open"][u]));
        }
    }
    for (u, v) in &r.vfs {
        if st["vfs"][u].as_str() != Some(v) {
            return Some(format!("vfs[{u}] spec={} real={v}", st["vfs"][u]));
        }
    }
    for (u, v) in &r.publ {
        if st["pub"][u].as_str() != Some(v) {
            return Some(format!("pub[{u}] spec={} real={v}", st["pub"][u]));
        }
    }
    None
}

fn set_disk(root: &Path, u: &str, t: &str, outside: &[String]) {
    let p = doc_path(root.as_ref(), u.as_ref(), outside.as_ref());
    if t == "absent" {
        let _ = std::fs::remove_file(p);
    } else {
        std::fs::write(p, text_of(t)).unwrap();
    }
}

fn main() {
    capture_panics();
    let base = PathBuf::from(std::env::args().nth(1).expect("scratch root"));
    let cases = {
        let p = std::env::args().nth(2).expect("schedules");
        std::fs::read_to_string(p).unwrap()
    };
    for (n, line) in cases.lines().enumerate() {
        if line.trim().is_empty() {
            continue;
        }
        let sc: Value = serde_json::from_str(line).unwrap();
        let hist = sc["hist"].as_array().unwrap().clone();
        let root = base.join(format!("ws{}", n % 4));
        let _ = std::fs::remove_dir_all(&root);
        std::fs::create_dir_all(&root).unwrap();
        let reindex = sc["reindex"].as_bool().unwrap_or(false);
        let outside: Vec<String> = sc["outside"]
            .as_array()
            .map(|v| v.iter().filter_map(|x| x.as_str().map(|s| s.to_string())).collect())
            .unwrap_or_default();
        let _ = std::fs::remove_dir_all(lib_dir(&root));
        std::fs::create_dir_all(lib_dir(&root)).unwrap();
        write_config(&root, reindex, false);
        let st0 = &hist[0]["st"];
        let mut uris: Vec<String> = st0["vfs"].as_object().unwrap().keys().cloned().collect();
        uris.sort();
        // the first entry is never a disk write of the same uri, so its disk map is the initial disk,
        // except when the first entry itself is a disk step: then undo it
        let disk0: BTreeMap<String, String> = sc["disk0"]
            .as_object()
            .expect("disk0")
            .iter()
            .map(|(k, v)| (k.clone(), v.as_str().unwrap().to_string()))
            .collect();
        for (u, t) in &disk0 {
            set_disk(&root, u, t, &outside);
        }
        let init_open: Vec<String> = sc["initOpen"]
            .as_array()
            .map(|v| v.iter().filter_map(|x| x.as_str().map(|s| s.to_string())).collect())
            .unwrap_or_default();
        let root2 = root.clone();
        let uris2 = uris.clone();
        let outside2 = outside.clone();
        let out = run(async move {
            let root = root2;
            let uris = uris2;
            let outside = outside2;
            let mut emmyrc = emmylua_code_analysis::Emmyrc::default();
            emmyrc.workspace.enable_reindex = reindex;
            let mut s = Session::start(SessionOpts {
                root: Some(root.clone()),
                scheduled: false,
                emmyrc: std::sync::Arc::new(emmyrc),
                ..Default::default()
            })
            .await;
            // documents that are already open when the behaviour starts: opened, analysed and diagnosed freely
            for u in init_open.iter() {
                let uri = uri_of(&doc_path(root.as_ref(), u.as_ref(), outside.as_ref()));
                let (m, p) = did_open(&uri, &text_of("t1"), 1);
                s.notify(&m, p).await;
            }
            if !init_open.is_empty() {
                s.advance_ms(1000).await;
            }
            s.set_scheduled(true);
            let _ = s.new_tasks();
            let mut map: BTreeMap<u64, u64> = BTreeMap::new(); // spec index -> real task
            let mut diverged: Option<Value> = None;
            let mut steps = 0;
            for (k, h) in hist.iter().enumerate() {
                let a = h["a"].as_str().unwrap();
                let mut woke: Vec<u64> = h["woke"]
                    .as_array()
                    .map(|v| v.iter().filter_map(|x| x.as_u64()).collect())
                    .unwrap_or_default();
                woke.sort();
                match a {
                    "deliver" => {
                        let kind = h["kind"].as_str().unwrap();
                        let u = h["uri"].as_str().unwrap_or("none");
                        let uri = uri_of(&doc_path(root.as_ref(), u.as_ref(), outside.as_ref()));
                        let t = h["text"].as_str().unwrap_or("none");
                        let (m, p) = match kind {
                            "open" => did_open(&uri, &text_of(t), 1),
                            "change" => did_change(&uri, &text_of(t), 2),
                            "close" => did_close(&uri),
                            "save" => did_save(&uri),
                            "rename" => {
                                // the client renames the file on disk, then tells the server
                                let newp = doc_path(root.as_ref(), t, outside.as_ref());
                                let _ = std::fs::rename(doc_path(root.as_ref(), u, outside.as_ref()), &newp);
                                (
                                    "workspace/didRenameFiles".to_string(),
                                    json!({"files": [{"oldUri": uri.to_string(), "newUri": uri_of(&newp).to_string()}]}),
                                )
                            }
                            "watch" => did_change_watched(&[(uri.clone(), 2)]),
                            "wdel" => did_change_watched(&[(uri.clone(), 3)]),
                            "cfg" => {
                                // the config on disk changes first, then the client reports the change
                                write_config(&root, reindex, h["lib"].as_bool().unwrap_or(false));
                                did_change_watched(&[(uri_of(&root.join(".emmyrc.json")), 2)])
                            }
                            k => panic!("kind {k}"),
                        };
                        s.notify(&m, p).await;
                        if h["inline"].as_bool() == Some(true) {
                            if !s.parked().contains_key(&s.main_task) && diverged.is_none() {
                                diverged = Some(json!({"at": k, "why": "inline handler did not park on the main task"}));
                            }
                            map.insert(woke[0], s.main_task);
                            woke.clear();
                        } else if s.parked().contains_key(&s.main_task) && diverged.is_none() {
                            diverged = Some(json!({"at": k, "why": "handler runs inline on the main loop but the spec constant says spawned"}));
                        }
                    }
                    "step" => {
                        let i = h["i"].as_u64().unwrap();
                        let lock = h["lock"].as_str().unwrap();
                        let mode = h["mode"].as_str().unwrap().chars().next().unwrap();
                        match map.get(&i) {
                            None => {
                                if diverged.is_none() {
                                    diverged = Some(json!({"at": k, "why": format!("spec task {i} has no real counterpart")}));
                                }
                            }
                            Some(real) => {
                                let parked = s.parked();
                                match parked.get(real) {
                                    Some((l, m)) => {
                                        if (l != lock || *m != mode) && diverged.is_none() {
                                            diverged = Some(json!({"at": k, "why": format!("spec task {i} expected parked at {lock}.{mode}, real: {l}.{m}")}));
                                        }
                                        // after a divergence the schedule is only an ORDER in which to step the real tasks
                                        if s.grantable(*real) {
                                            s.step(*real).await;
                                            steps += 1;
                                        } else if diverged.is_none() {
                                            diverged = Some(json!({"at": k, "why": format!("lock {l}.{m} not grantable for spec task {i}")}));
                                        }
                                    }
                                    None => {
                                        if diverged.is_none() {
                                            diverged = Some(json!({"at": k, "why": format!("spec task {i} expected parked at {lock}.{mode}, real task is not parked")}));
                                        }
                                    }
                                }
                            }
                        }
                    }
                    "tick" => {
                        s.advance_ms(h["ms"].as_u64().unwrap()).await;
                    }
                    "disk" => {
                        set_disk(&root, h["uri"].as_str().unwrap(), h["text"].as_str().unwrap(), &outside);
                    }
                    x => panic!("action {x}"),
                }
                // eager identification of the tasks that became runnable in this transition
                let newly = s.new_tasks();
                if newly.len() != woke.len() && diverged.is_none() {
                    diverged = Some(json!({"at": k, "why": format!("spec woke {woke:?} but {} real tasks newly parked", newly.len()),
                                           "entry": h}));
                }
                for (si, ri) in woke.iter().zip(newly.iter()) {
                    map.insert(*si, *ri);
                }
                if diverged.is_none() {
                    match observe(&s, &root, &uris, &outside) {
                        None => {} // a lock is write-held across the step: not observable now
                        Some(r) => {
                            if let Some(why) = same(&h["st"], &r) {
                                diverged = Some(json!({"at": k, "why": why, "entry": h, "real": real_json(&r)}));
                            }
                        }
                    }
                }
            }
            // settle whatever is left (after a divergence the schedule is abandoned): free run + time
            let leftover = s.parked().len();
            s.free_run().await;
            for _ in 0..6 {
                s.advance_ms(1000).await;
            }
            let fin = observe(&s, &root, &uris, &outside);
            (diverged, steps, leftover, fin.map(|r| real_json(&r)), take_panics())
        });
        let (diverged, steps, leftover, fin, panics) = out;
        println!(
            "{}",
            json!({"sched": n, "steps": steps, "diverged": diverged, "leftover_parked": leftover, "final": fin,
                   "panics": panics, "script": sc["script"], "spec": {"c27": sc["c27"], "c29": sc["c29"], "c30": sc["c30"]}})
        );
    }
}
