fn main() {
    emmylua_ls::verif::install(true, false);
    println!("events={}", emmylua_ls::verif::event_count());
}
