use vh_ls::*;
fn main() {
    capture_panics();
    let root = std::path::PathBuf::from(std::env::args().nth(1).expect("root dir"));
    std::fs::create_dir_all(&root).unwrap();
    run(async move {
        let mut s = Session::start(SessionOpts { root: Some(root.clone()), scheduled: true, ..Default::default() }).await;
        let u = uri_of(&root.join("a.lua"));
        let (m, p) = did_open(&u, "local t1 = 1", 1);
        s.notify(&m, p).await;
        println!("after open: parked={:?} new={:?} main={}", s.parked(), s.new_tasks(), s.main_task);
        let (m, p) = did_change(&u, "local t2 = 2", 2);
        s.notify(&m, p).await;
        println!("after change: parked={:?} new={:?} idle={}", s.parked(), s.new_tasks(), s.main_idle());
        // run the inline change (main task) to completion first
        let main = s.main_task;
        let mut n = 0;
        while s.parked().contains_key(&main) && n < 20 { assert!(s.grantable(main)); s.step(main).await; n += 1; }
        println!("change done: idle={} vfs={:?} wm={:?}", s.main_idle(), s.vfs_text(&u), s.wm_state());
        // now the open task
        let others: Vec<u64> = s.parked().keys().cloned().collect();
        for t in others { let mut k = 0; while s.parked().contains_key(&t) && k < 20 { s.step(t).await; k += 1; } }
        println!("open done: vfs={:?} wm={:?} parked={:?}", s.vfs_text(&u), s.wm_state(), s.parked());
        s.advance_ms(1000).await;
        println!("after tick parked={:?}", s.parked());
        s.free_run().await;
        s.advance_ms(1000).await;
        println!("published={:?} panics={:?}", s.published(0), take_panics());
    });
}
