//! Binds the lock semantics assumed by LsLocks.tla / LsSync.tla (spec/FairRwLock.tla) to the real
//! tokio::sync::RwLock: plays TLC-generated Request/Release sequences and compares the holder sets.
//! usage: vh_ls_fairlock <behaviours.ndjson>   (each line: [{a:"req"|"rel", t, m:"R"|"W", holders:[..]}, ...])
use std::collections::BTreeSet;
use std::sync::{Arc, Mutex};
use tokio::sync::{Notify, RwLock};
use vh_ls::{Value, json, run};

fn main() {
    let path = std::env::args().nth(1).expect("behaviours");
    let text = std::fs::read_to_string(path).unwrap();
    let mut n = 0;
    let mut bad = 0;
    for line in text.lines() {
        if line.trim().is_empty() {
            continue;
        }
        let beh: Vec<Value> = serde_json::from_str(line).unwrap();
        n += 1;
        let res = run(async move {
            let lock = Arc::new(RwLock::new(0u32));
            let holding: Arc<Mutex<BTreeSet<u64>>> = Arc::new(Mutex::new(BTreeSet::new()));
            let mut gates: std::collections::BTreeMap<u64, Arc<Notify>> = Default::default();
            for (k, st) in beh.iter().enumerate() {
                let t = st["t"].as_u64().unwrap();
                match st["a"].as_str().unwrap() {
                    "req" => {
                        let gate = Arc::new(Notify::new());
                        gates.insert(t, gate.clone());
                        let lock = lock.clone();
                        let holding = holding.clone();
                        let write = st["m"] == "W";
                        tokio::spawn(async move {
                            if write {
                                let g = lock.write().await;
                                holding.lock().unwrap().insert(t);
                                gate.notified().await;
                                holding.lock().unwrap().remove(&t);
                                drop(g);
                            } else {
                                let g = lock.read().await;
                                holding.lock().unwrap().insert(t);
                                gate.notified().await;
                                holding.lock().unwrap().remove(&t);
                                drop(g);
                            }
                        });
                    }
                    "rel" => gates[&t].notify_one(),
                    _ => unreachable!(),
                }
                for _ in 0..20 {
                    tokio::task::yield_now().await;
                }
                let want: BTreeSet<u64> = st["holders"].as_array().unwrap().iter().map(|x| x.as_u64().unwrap()).collect();
                let got = holding.lock().unwrap().clone();
                if want != got {
                    return Some(json!({"step": k, "want": want, "got": got}));
                }
            }
            None
        });
        if let Some(d) = res {
            bad += 1;
            println!("{}", json!({"mismatch": d, "behaviour": serde_json::from_str::<Value>(line).unwrap()}));
        }
    }
    println!("{}", json!({"summary": {"behaviours": n, "mismatches": bad}}));
}
