//! Escalation path of the LsSync checks (DESIGN §2.2): when replays diverge from the specification the
//! model no longer tells which interleavings matter, so the REAL server's schedule space is explored
//! directly: for each client script (taken from the TLC behaviours) a number of seeded random schedules of
//! the real parked tasks (deliver next message / step a grantable task / advance virtual time) is run
//! to quiescence and the final projected state is printed for the property predicates.
//!
//! usage: vh_ls_explore <scratch-root> <scripts.ndjson> <schedules-per-script> <seed>
//! each input line: {"script":[{kind,uri,text}...], "disk0": {uri: text|"absent"}, "reindex": bool}
use std::collections::BTreeMap;
use std::path::{Path, PathBuf};

use vh_ls::*;

/// documents of `outside` live in a sibling directory of the workspace root (a library only once configured)
fn lib_dir(root: &Path) -> PathBuf {
    let name = format!("{}_lib", root.file_name().unwrap().to_string_lossy());
    root.parent().unwrap().join(name)
}

fn doc_path(root: &Path, u: &str, outside: &[String]) -> PathBuf {
    if outside.iter().any(|x| x == u) {
        lib_dir(root).join(format!("{u}.lua"))
    } else {
        root.join(format!("{u}.lua"))
    }
}

fn write_config(root: &Path, reindex: bool, lib: bool) {
    let mut ws = serde_json::Map::new();
    if reindex {
        ws.insert("enableReindex".into(), json!(true));
    }
    if lib {
        ws.insert("library".into(), json!([lib_dir(root).to_string_lossy()]));
    }
    std::fs::write(root.join(".emmyrc.json"), json!({"workspace": ws}).to_string() + "\n").unwrap();
}

fn text_of(id: &str) -> String {
    format!("local {id} = 1")
}

fn id_of_text(t: &str) -> String {
    t.trim()
        .strip_prefix("local ")
        .and_then(|r| r.split(' ').next())
        .unwrap_or("?")
        .to_string()
}

fn id_of_diags(d: &Value) -> String {
    let arr = d.as_array().cloned().unwrap_or_default();
    if arr.is_empty() {
        return "empty".into();
    }
    for x in &arr {
        let m = x["message"].as_str().unwrap_or("");
        if let Some(name) = m.split(' ').next()
            && (name.starts_with('t') || name.starts_with('d'))
        {
            return name.to_string();
        }
    }
    "?".into()
}

fn observe(s: &Session, root: &Path, uris: &[String], outside: &[String]) -> Option<Value> {
    let (_, _, open) = s.wm_state().ok()?;
    let mut o = BTreeMap::new();
    let mut v = BTreeMap::new();
    let mut p = BTreeMap::new();
    for u in uris {
        let uri = uri_of(&doc_path(root.as_ref(), u.as_ref(), outside.as_ref()));
        o.insert(
            u.clone(),
            open.get(&uri.to_string())
                .map(|t| id_of_text(t))
                .unwrap_or("none".into()),
        );
        let t = s.vfs_text(&uri).ok()?;
        v.insert(u.clone(), t.map(|t| id_of_text(&t)).unwrap_or("absent".into()));
        let mut last = "never".to_string();
        for (pu, d) in s.published(0) {
            if pu == uri.to_string() {
                last = id_of_diags(&d);
            }
        }
        p.insert(u.clone(), last);
    }
    Some(json!({"open": o, "vfs": v, "pub": p}))
}

struct Rng(u64);
impl Rng {
    fn next(&mut self) -> u64 {
        self.0 = self.0.wrapping_add(0x9E3779B97F4A7C15);
        let mut z = self.0;
        z = (z ^ (z >> 30)).wrapping_mul(0xBF58476D1CE4E5B9);
        z = (z ^ (z >> 27)).wrapping_mul(0x94D049BB133111EB);
        z ^ (z >> 31)
    }
    fn below(&mut self, n: usize) -> usize {
        (self.next() % n.max(1) as u64) as usize
    }
}

fn main() {
    capture_panics();
    let base = PathBuf::from(std::env::args().nth(1).expect("scratch root"));
    let cases = std::fs::read_to_string(std::env::args().nth(2).expect("scripts")).unwrap();
    let per: u64 = std::env::args().nth(3).and_then(|x| x.parse().ok()).unwrap_or(20);
    let seed: u64 = std::env::args().nth(4).and_then(|x| x.parse().ok()).unwrap_or(1);
    for (n, line) in cases.lines().enumerate() {
        if line.trim().is_empty() {
            continue;
        }
        let sc: Value = serde_json::from_str(line).unwrap();
        let script = sc["script"].as_array().unwrap().clone();
        let reindex = sc["reindex"].as_bool().unwrap_or(false);
        let lib = sc["lib"].as_bool().unwrap_or(false);
        let outside: Vec<String> = sc["outside"]
            .as_array()
            .map(|v| v.iter().filter_map(|x| x.as_str().map(|s| s.to_string())).collect())
            .unwrap_or_default();
        let mut uris: Vec<String> = sc["disk0"].as_object().unwrap().keys().cloned().collect();
        uris.sort();
        for k in 0..per {
            let root = base.join(format!("x{}", (n as u64 * per + k) % 4));
            let _ = std::fs::remove_dir_all(&root);
            std::fs::create_dir_all(&root).unwrap();
            let _ = std::fs::remove_dir_all(lib_dir(&root));
            std::fs::create_dir_all(lib_dir(&root)).unwrap();
            write_config(&root, reindex, false);
            for (u, t) in sc["disk0"].as_object().unwrap() {
                if t != "absent" {
                    std::fs::write(doc_path(root.as_ref(), u.as_ref(), outside.as_ref()), text_of(t.as_str().unwrap())).unwrap();
                }
            }
            let mut rng = Rng(seed.wrapping_mul(1_000_003) ^ (n as u64 * 7919 + k));
            let script2 = script.clone();
            let uris2 = uris.clone();
            let root2 = root.clone();
            let outside = outside.clone();
            let (fin, trace, panics) = run(async move {
                let root = root2;
                let mut emmyrc = emmylua_code_analysis::Emmyrc::default();
                emmyrc.workspace.enable_reindex = reindex;
                let mut s = Session::start(SessionOpts {
                    root: Some(root.clone()),
                    scheduled: true,
                    emmyrc: std::sync::Arc::new(emmyrc),
                    ..Default::default()
                })
                .await;
                let _ = s.new_tasks();
                let mut next = 0usize;
                let mut trace: Vec<Value> = Vec::new();
                let mut idle_ticks = 0;
                for _ in 0..400 {
                    let parked = s.parked();
                    let mut grantable: Vec<u64> = parked.keys().cloned().filter(|t| s.grantable(*t)).collect();
                    grantable.sort();
                    let can_deliver = next < script2.len() && s.main_idle();
                    let mut choices: Vec<u8> = Vec::new(); // 0 deliver, 1 step, 2 tick
                    if can_deliver {
                        choices.push(0);
                        choices.push(0);
                    }
                    if !grantable.is_empty() {
                        choices.push(1);
                        choices.push(1);
                        choices.push(1);
                    }
                    choices.push(2);
                    match choices[rng.below(choices.len())] {
                        0 => {
                            let m = &script2[next];
                            next += 1;
                            let kind = m["kind"].as_str().unwrap();
                            let u = m["uri"].as_str().unwrap_or("none");
                            let uri = uri_of(&doc_path(root.as_ref(), u.as_ref(), outside.as_ref()));
                            let t = m["text"].as_str().unwrap_or("none");
                            let (mm, p) = match kind {
                                "open" => did_open(&uri, &text_of(t), 1),
                                "change" => did_change(&uri, &text_of(t), 2),
                                "close" => did_close(&uri),
                                "save" => did_save(&uri),
                                "rename" => {
                                    let newp = doc_path(root.as_ref(), t, outside.as_ref());
                                    let _ = std::fs::rename(doc_path(root.as_ref(), u, outside.as_ref()), &newp);
                                    (
                                        "workspace/didRenameFiles".to_string(),
                                        json!({"files": [{"oldUri": uri.to_string(), "newUri": uri_of(&newp).to_string()}]}),
                                    )
                                }
                                "watch" => did_change_watched(&[(uri.clone(), 2)]),
                                "wdel" => did_change_watched(&[(uri.clone(), 3)]),
                                "cfg" => {
                                    write_config(&root, reindex, lib);
                                    did_change_watched(&[(uri_of(&root.join(".emmyrc.json")), 2)])
                                }
                                k => panic!("kind {k}"),
                            };
                            s.notify(&mm, p).await;
                            trace.push(json!(["deliver", kind, u, t]));
                            idle_ticks = 0;
                        }
                        1 => {
                            let t = grantable[rng.below(grantable.len())];
                            let at = parked[&t].clone();
                            s.step(t).await;
                            trace.push(json!(["step", t, at.0, at.1.to_string()]));
                            idle_ticks = 0;
                        }
                        _ => {
                            s.advance_ms(500).await;
                            trace.push(json!(["tick", 500]));
                            if next >= script2.len() && s.parked().is_empty() {
                                idle_ticks += 1;
                                if idle_ticks > 14 {
                                    break;
                                }
                            }
                        }
                    }
                }
                s.free_run().await;
                for _ in 0..8 {
                    s.advance_ms(1000).await;
                }
                (observe(&s, &root, &uris2, &outside), trace, take_panics())
            });
            println!(
                "{}",
                json!({"script": script, "reindex": reindex, "disk0": sc["disk0"], "final": fin, "trace": trace, "panics": panics})
            );
        }
    }
}
