//! Parameter mining (PM) for LsLocks.tla / LsSync.tla: run every message kind through the REAL
//! dispatch functions once per relevant state class with the lock hooks tracing, and print, per
//! real task, its lock program (sequence of lock requests and releases).
//!
//! usage: vh_ls_mine <scratch-root>      stdout: NDJSON
//!   {"program": name, "scenario": s, "task": k, "inline": bool, "ops": [["acq"|"rel", lock, mode], ...]}
//!   {"inline": {"<notification method>": bool, ...}}
use std::collections::BTreeMap;
use std::path::{Path, PathBuf};
use std::sync::Arc;

use emmylua_code_analysis::Emmyrc;
use emmylua_ls::verif as hook;
use vh_ls::*;

const DOC: &str = "---@class Foo\n---@field x integer\nlocal Foo = {}\nfunction Foo:bar(a)\n  local s = \"#ff0000\"\n  return a + self.x\nend\nlocal v = Foo:bar(1)\nprint(v, undefinedGlobal)\nreturn Foo\n";

struct Scenario {
    name: String,
    /// pull diagnostics capability
    pull: bool,
    reindex: bool,
    /// a.lua is opened before the measured message
    open_first: bool,
    method: String,
    params: Value,
    request: bool,
}

fn pos() -> Value {
    json!({"line": 3, "character": 14})
}

fn scenarios(root: &Path) -> Vec<Scenario> {
    let a = uri_of(&root.join("a.lua")).to_string();
    let b = uri_of(&root.join("b.lua")).to_string();
    let nodisk = uri_of(&root.join("nodisk.lua")).to_string();
    let rc = uri_of(&root.join(".emmyrc.json")).to_string();
    let td = json!({"uri": a});
    let tdp = json!({"textDocument": td, "position": pos()});
    let range = json!({"start": {"line": 0, "character": 0}, "end": {"line": 9, "character": 0}});
    let mut v = Vec::new();
    let mut req = |name: &str, method: &str, params: Value| {
        v.push(Scenario {
            name: format!("req:{name}"),
            pull: false,
            reindex: false,
            open_first: true,
            method: method.to_string(),
            params,
            request: true,
        });
    };
    req("hover", "textDocument/hover", tdp.clone());
    req("documentSymbol", "textDocument/documentSymbol", json!({"textDocument": td}));
    req("foldingRange", "textDocument/foldingRange", json!({"textDocument": td}));
    req("documentColor", "textDocument/documentColor", json!({"textDocument": td}));
    req(
        "colorPresentation",
        "textDocument/colorPresentation",
        json!({"textDocument": td, "color": {"red":1.0,"green":0.0,"blue":0.0,"alpha":1.0},
               "range": {"start":{"line":4,"character":13},"end":{"line":4,"character":20}}}),
    );
    req("documentLink", "textDocument/documentLink", json!({"textDocument": td}));
    req(
        "documentLinkResolve",
        "documentLink/resolve",
        json!({"range": {"start":{"line":0,"character":0},"end":{"line":0,"character":1}}}),
    );
    req("emmyAnnotator", "emmy/annotator", json!({"uri": a}));
    req("emmyGutter", "emmy/gutter", json!({"uri": a}));
    req("emmyGutterDetail", "emmy/gutter/detail", json!({"data": "Foo"}));
    req("emmySyntaxTree", "emmy/syntaxTree", json!({"uri": a}));
    req(
        "selectionRange",
        "textDocument/selectionRange",
        json!({"textDocument": td, "positions": [pos()]}),
    );
    req("completion", "textDocument/completion", tdp.clone());
    req("completionResolve", "completionItem/resolve", json!({"label": "bar"}));
    req("inlayHint", "textDocument/inlayHint", json!({"textDocument": td, "range": range}));
    req(
        "inlayHintResolve",
        "inlayHint/resolve",
        json!({"position": pos(), "label": "x"}),
    );
    req("definition", "textDocument/definition", tdp.clone());
    req("implementation", "textDocument/implementation", tdp.clone());
    req(
        "references",
        "textDocument/references",
        json!({"textDocument": td, "position": pos(), "context": {"includeDeclaration": true}}),
    );
    req(
        "rename",
        "textDocument/rename",
        json!({"textDocument": td, "position": pos(), "newName": "baz"}),
    );
    req("prepareRename", "textDocument/prepareRename", tdp.clone());
    req("codeLens", "textDocument/codeLens", json!({"textDocument": td}));
    req(
        "codeLensResolve",
        "codeLens/resolve",
        json!({"range": {"start":{"line":3,"character":0},"end":{"line":3,"character":1}}, "data": null}),
    );
    req("signatureHelp", "textDocument/signatureHelp", tdp.clone());
    req("documentHighlight", "textDocument/documentHighlight", tdp.clone());
    req("semanticTokens", "textDocument/semanticTokens/full", json!({"textDocument": td}));
    req(
        "executeCommand.disableCode",
        "workspace/executeCommand",
        json!({"command": "emmy.disable.code", "arguments": ["project", 0, range, "undefined-global"]}),
    );
    req(
        "executeCommand.addDocTag",
        "workspace/executeCommand",
        json!({"command": "emmy.add.doctag", "arguments": ["mytag"]}),
    );
    req(
        "executeCommand.autoRequire",
        "workspace/executeCommand",
        json!({"command": "emmy.auto.require", "arguments": [0, 1, {"line":0,"character":0}, null]}),
    );
    req(
        "codeAction",
        "textDocument/codeAction",
        json!({"textDocument": td, "range": {"start":{"line":8,"character":9},"end":{"line":8,"character":24}},
               "context": {"diagnostics": [{"range": {"start":{"line":8,"character":9},"end":{"line":8,"character":24}},
                    "message": "undefined global", "code": "undefined-global", "severity": 1, "data": "undefinedGlobal"}]}}),
    );
    req("inlineValue", "textDocument/inlineValue", json!({"textDocument": td, "range": range,
        "context": {"frameId": 1, "stoppedLocation": range}}));
    req("workspaceSymbol", "workspace/symbol", json!({"query": "Foo"}));
    let fmt_opts = json!({"tabSize": 4, "insertSpaces": true});
    req("formatting", "textDocument/formatting", json!({"textDocument": td, "options": fmt_opts}));
    req(
        "rangeFormatting",
        "textDocument/rangeFormatting",
        json!({"textDocument": td, "range": range, "options": fmt_opts}),
    );
    req(
        "onTypeFormatting",
        "textDocument/onTypeFormatting",
        json!({"textDocument": td, "position": {"line": 6, "character": 3}, "ch": "\n", "options": fmt_opts}),
    );
    req("prepareCallHierarchy", "textDocument/prepareCallHierarchy", tdp.clone());
    let item = json!({"name": "bar", "kind": 12, "uri": a, "range": {"start":{"line":3,"character":0},"end":{"line":6,"character":3}},
        "selectionRange": {"start":{"line":3,"character":13},"end":{"line":3,"character":16}}, "data": null});
    req("incomingCalls", "callHierarchy/incomingCalls", json!({"item": item}));
    req("outgoingCalls", "callHierarchy/outgoingCalls", json!({"item": item}));
    // pull diagnostics need the capability
    for (n, m, p) in [
        ("pullDocumentDiagnostic", "textDocument/diagnostic", json!({"textDocument": td})),
        ("pullWorkspaceDiagnostic", "workspace/diagnostic", json!({"previousResultIds": []})),
    ] {
        v.push(Scenario {
            name: format!("req:{n}"),
            pull: true,
            reindex: false,
            open_first: true,
            method: m.to_string(),
            params: p,
            request: true,
        });
    }
    // notifications x state classes
    let mut notif = |name: &str, pull: bool, reindex: bool, open_first: bool, m: (String, Value)| {
        v.push(Scenario {
            name: format!("notif:{name}"),
            pull,
            reindex,
            open_first,
            method: m.0,
            params: m.1,
            request: false,
        });
    };
    let ua = uri_of(&root.join("a.lua"));
    let ub = uri_of(&root.join("b.lua"));
    let un = uri_of(&root.join("nodisk.lua"));
    let urc = uri_of(&root.join(".emmyrc.json"));
    let _ = (&b, &nodisk, &rc);
    for pull in [false, true] {
        let p = if pull { ".pull" } else { "" };
        notif(&format!("didOpen.known{p}"), pull, false, false, did_open(&ua, DOC, 1));
        notif(&format!("didOpen.new{p}"), pull, false, false, did_open(&un, "local n = 1", 1));
        notif(&format!("didChange{p}"), pull, false, true, did_change(&ua, "local changed = 1", 2));
        notif(&format!("didChange.reindex{p}"), pull, true, true, did_change(&ua, "local changed = 1", 2));
        notif(&format!("didClose.ondisk{p}"), pull, false, true, did_close(&ua));
        notif(&format!("didSave{p}"), pull, false, true, did_save(&ua));
        notif(&format!("didSave.reindex{p}"), pull, true, true, did_save(&ua));
        notif(&format!("watched.changed{p}"), pull, false, false, did_change_watched(&[(ub.clone(), 2)]));
        notif(&format!("watched.deleted{p}"), pull, false, false, did_change_watched(&[(ub.clone(), 3)]));
        notif(&format!("watched.emmyrc{p}"), pull, false, false, did_change_watched(&[(urc.clone(), 2)]));
        notif(
            &format!("watched.mixed{p}"),
            pull,
            false,
            true,
            did_change_watched(&[(ua.clone(), 2), (ub.clone(), 2), (urc.clone(), 2)]),
        );
    }
    notif("didClose.nodisk", false, false, false, did_close(&un));
    notif(
        "didChangeConfiguration",
        false,
        false,
        false,
        ("workspace/didChangeConfiguration".into(), json!({"settings": {}})),
    );
    notif(
        "didRenameFiles",
        false,
        false,
        false,
        (
            "workspace/didRenameFiles".into(),
            json!({"files": [{"oldUri": a, "newUri": uri_of(&root.join("a2.lua")).to_string()}]}),
        ),
    );
    notif("setTrace", false, false, false, ("$/setTrace".into(), json!({"value": "off"})));
    notif("cancel", false, false, false, ("$/cancelRequest".into(), json!({"id": 9999})));
    v
}

fn prepare_root(root: &Path) {
    let _ = std::fs::remove_dir_all(root);
    std::fs::create_dir_all(root).unwrap();
    std::fs::write(root.join("a.lua"), DOC).unwrap();
    std::fs::write(root.join("b.lua"), "local Foo = require('a')\nreturn Foo\n").unwrap();
    std::fs::write(root.join(".emmyrc.json"), "{}\n").unwrap();
}

fn main() {
    capture_panics();
    let base = PathBuf::from(std::env::args().nth(1).expect("scratch root"));
    let only = std::env::args().nth(2);
    let scs = scenarios(&base.join("ws"));
    let mut inline: BTreeMap<String, bool> = BTreeMap::new();
    for sc in scs {
        if let Some(o) = &only
            && !sc.name.contains(o.as_str())
        {
            continue;
        }
        let root = base.join("ws");
        prepare_root(&root);
        let caps = default_capabilities(sc.pull);
        let mut emmyrc = Emmyrc::default();
        emmyrc.workspace.enable_reindex = sc.reindex;
        let opts = SessionOpts {
            root: Some(root.clone()),
            capabilities: caps,
            emmyrc: Arc::new(emmyrc),
            load_std: false,
            scheduled: false,
        };
        let name = sc.name.clone();
        let out = run(async move {
            let mut s = Session::start(opts).await;
            if sc.open_first {
                let (m, p) = did_open(&uri_of(&root.join("a.lua")), DOC, 1);
                s.notify(&m, p).await;
                s.advance_ms(3000).await;
            }
            if sc.method == "textDocument/didClose" && sc.name.contains("nodisk") {
                let (m, p) = did_open(&uri_of(&root.join("nodisk.lua")), "local n = 1", 1);
                s.notify(&m, p).await;
                s.advance_ms(3000).await;
            }
            if sc.method == "workspace/didRenameFiles" {
                // a.lua is required by b.lua: the handler asks the client whether to rewrite the require paths
                let _ = std::fs::rename(root.join("a.lua"), root.join("a2.lua"));
            }
            hook::install(true, false);
            let from = s.outbox.len();
            if sc.request {
                let _ = s.request(&sc.method, sc.params.clone()).await;
            } else {
                s.notify(&sc.method, sc.params.clone()).await;
            }
            s.answer_server_requests(from).await;
            for _ in 0..8 {
                s.advance_ms(1000).await;
                let n = s.outbox.len();
                s.answer_server_requests(n).await;
            }
            (hook::events_since(0), s.main_task)
        });
        let (events, main_task) = out;
        let mut per_task: BTreeMap<u64, Vec<Value>> = BTreeMap::new();
        let mut order: Vec<u64> = Vec::new();
        for e in &events {
            if !order.contains(&e.task) {
                order.push(e.task);
            }
            let ops = per_task.entry(e.task).or_default();
            match e.ev {
                "req" => ops.push(json!(["acq", e.lock, e.mode.to_string()])),
                "rel" => ops.push(json!(["rel", e.lock, e.mode.to_string()])),
                _ => {}
            }
        }
        if !sc_is_request(&name) {
            let first_inline = order.first().map(|t| *t == main_task).unwrap_or(false);
            // a notification without lock events tells nothing about inline/spawned
            if !order.is_empty() {
                let m = name.trim_start_matches("notif:").split('.').next().unwrap().to_string();
                let e = inline.entry(m).or_insert(first_inline);
                *e = *e && first_inline;
            }
        }
        for (k, t) in order.iter().enumerate() {
            let mut ops = per_task[t].clone();
            if ops.is_empty() {
                continue;
            }
            if *t == main_task {
                // whatever runs on the main loop keeps the main loop busy: nothing else is dispatched and
                // no client response is delivered meanwhile. Modelled as holding the pseudo-mutex `main`,
                // which tasks awaiting a client response (ClientProxy::send_request hook) need.
                ops.insert(0, json!(["acq", "main", "M"]));
                ops.push(json!(["rel", "main", "M"]));
            }
            let ops = &ops;
            println!(
                "{}",
                json!({"program": format!("{name}#{k}"), "scenario": name, "task": k, "inline": *t == main_task, "ops": ops})
            );
        }
        let panics = take_panics();
        if !panics.is_empty() {
            println!("{}", json!({"scenario": name, "panics": panics}));
        }
    }
    println!("{}", json!({"inline": inline}));
}

fn sc_is_request(name: &str) -> bool {
    name.starts_with("req:")
}
