//! C14: drives `textDocument/references` and `textDocument/rename` of the REAL in-process server
//! (real dispatch, real handlers) for Scope.tla programs.
//!
//! usage: vh_ls_refs <cases.ndjson> <root-dir>
//! input line:  {"id":n, "text":"...", "points":[[line, character], ...]}
//! output line: {"id":n, "answers":[{"refs": null | [[sl,sc,el,ec]...], "refs_nodecl": null | [...],
//!                                   "rename": null | [[sl,sc,el,ec,newText]...], "other_files": k}...]}
//!              (null = null result or no/duplicate response), then {"summary":{...}}.
//! Every program replaces the content of one open document (didOpen once, then full-text didChange).
use std::path::PathBuf;

use vh_common::{Value, emit, json, read_cases};
use vh_ls::*;

const FRESH: &str = "zz9";

fn ranges_of_locations(v: &Value, uri: &str, other: &mut u64) -> Value {
    match v.as_array() {
        None => Value::Null,
        Some(a) => Value::Array(
            a.iter()
                .filter_map(|l| {
                    if l["uri"].as_str() != Some(uri) {
                        *other += 1;
                        return None;
                    }
                    let r = &l["range"];
                    Some(json!([r["start"]["line"], r["start"]["character"], r["end"]["line"], r["end"]["character"]]))
                })
                .collect(),
        ),
    }
}

fn main() {
    capture_panics();
    let args: Vec<String> = std::env::args().collect();
    let cases = read_cases(args.get(1).map(|s| s.as_str()));
    let root = PathBuf::from(args.get(2).expect("root dir"));
    std::fs::create_dir_all(&root).unwrap();
    run(async move {
        let mut s = Session::start(SessionOpts { root: Some(root.clone()), ..Default::default() }).await;
        let u = uri_of(&root.join("scope_case.lua"));
        let us = u.to_string();
        let mut version = 0;
        let mut requests = 0u64;
        let mut dropped = 0u64;
        for case in &cases {
            let text = case["text"].as_str().unwrap();
            version += 1;
            let (m, p) = if version == 1 { did_open(&u, text, version) } else { did_change(&u, text, version) };
            s.notify(&m, p).await;
            s.outbox.clear();
            let mut answers = Vec::new();
            for pt in case["points"].as_array().unwrap() {
                let pos = json!({"line": pt[0], "character": pt[1]});
                let mut other = 0u64;
                let mut ask_refs = |incl: bool| json!({"textDocument": {"uri": us}, "position": pos, "context": {"includeDeclaration": incl}});
                let (_, rs) = s.request("textDocument/references", ask_refs(true)).await;
                requests += 1;
                let refs = if rs.len() == 1 && rs[0].error.is_none() {
                    ranges_of_locations(rs[0].result.as_ref().unwrap_or(&Value::Null), &us, &mut other)
                } else {
                    dropped += 1;
                    Value::Null
                };
                let (_, rs) = s.request("textDocument/references", ask_refs(false)).await;
                requests += 1;
                let refs_nodecl = if rs.len() == 1 && rs[0].error.is_none() {
                    ranges_of_locations(rs[0].result.as_ref().unwrap_or(&Value::Null), &us, &mut other)
                } else {
                    dropped += 1;
                    Value::Null
                };
                let (_, rs) = s
                    .request("textDocument/rename", json!({"textDocument": {"uri": us}, "position": pos, "newName": FRESH}))
                    .await;
                requests += 1;
                let rename = if rs.len() == 1 && rs[0].error.is_none() {
                    match rs[0].result.as_ref().and_then(|r| r.get("changes")).and_then(|c| c.as_object()) {
                        None => Value::Null,
                        Some(ch) => {
                            let mut edits = Vec::new();
                            for (k, v) in ch {
                                if k != &us {
                                    other += v.as_array().map(|a| a.len() as u64).unwrap_or(0);
                                    continue;
                                }
                                for e in v.as_array().unwrap() {
                                    let r = &e["range"];
                                    edits.push(json!([r["start"]["line"], r["start"]["character"], r["end"]["line"],
                                                      r["end"]["character"], e["newText"]]));
                                }
                            }
                            Value::Array(edits)
                        }
                    }
                } else {
                    dropped += 1;
                    Value::Null
                };
                answers.push(json!({"refs": refs, "refs_nodecl": refs_nodecl, "rename": rename, "other_files": other}));
                s.outbox.clear();
            }
            emit(&json!({"id": case["id"], "answers": answers}));
        }
        let panics = take_panics();
        emit(&json!({"summary": {"cases": cases.len(), "requests": requests, "dropped": dropped, "panics": panics}}));
    });
}
