//! In-process driver of the REAL emmylua_ls server (feature `verif`).
//!
//! * `Session` owns a real `ServerContext` over `lsp_server::Connection::memory()` and feeds client
//!   messages to the real `on_notification_handler` / `on_request_handler` from a long-lived *main
//!   task* that handles one message at a time, exactly like `LspServer::run`.
//! * Everything runs on a current-thread tokio runtime with paused time (`run`). The driver never
//!   blocks: it yields until the system is *stable* (no new hook event, no new outgoing message for
//!   `SETTLE` consecutive yields), so quiescence is decided without wall-clock heuristics.
//! * free mode: lock hooks only trace. scheduled mode: every lock request parks until `step(task)`.
use std::collections::{BTreeMap, BTreeSet};
use std::path::{Path, PathBuf};
use std::sync::{Arc, Mutex};

use emmylua_code_analysis::{Emmyrc, WorkspaceFolder, file_path_to_uri};
use emmylua_ls::verif as hook;
use hook::{ServerContext, ServerContextSnapshot};
use lsp_server::{Connection, Message, Notification, Request, RequestId, Response};
use lsp_types::{ClientCapabilities, Uri};
pub use serde_json::{Value, json};
use tokio::sync::mpsc;

pub const SETTLE: usize = 40;

/// Run a future on a current-thread runtime with paused (virtual) time.
pub fn run<F: std::future::Future>(f: F) -> F::Output {
    let rt = tokio::runtime::Builder::new_current_thread()
        .enable_all()
        .start_paused(true)
        .build()
        .expect("runtime");
    rt.block_on(f)
}

static PANICS: Mutex<Vec<String>> = Mutex::new(Vec::new());

/// Record panics of server tasks instead of printing them (a panic in code under test is data).
pub fn capture_panics() {
    std::panic::set_hook(Box::new(|info| {
        let msg = if let Some(s) = info.payload().downcast_ref::<&str>() {
            s.to_string()
        } else if let Some(s) = info.payload().downcast_ref::<String>() {
            s.clone()
        } else {
            "panic".to_string()
        };
        let loc = info
            .location()
            .map(|l| format!("{}:{}", l.file(), l.line()))
            .unwrap_or_default();
        PANICS
            .lock()
            .unwrap_or_else(|e| e.into_inner())
            .push(format!("{msg} @ {loc}"));
    }));
}

pub fn take_panics() -> Vec<String> {
    std::mem::take(&mut *PANICS.lock().unwrap_or_else(|e| e.into_inner()))
}

#[derive(Clone)]
pub struct SessionOpts {
    /// workspace root (must exist); None = no workspace folder
    pub root: Option<PathBuf>,
    pub capabilities: ClientCapabilities,
    pub emmyrc: Arc<Emmyrc>,
    pub load_std: bool,
    /// lock requests are scheduling points controlled by `step`
    pub scheduled: bool,
}

impl Default for SessionOpts {
    fn default() -> Self {
        let mut emmyrc = Emmyrc::default();
        // keep reindex off unless a scenario turns it on (save handler then only bumps versions)
        emmyrc.workspace.enable_reindex = false;
        // dynamic watched-files registration: otherwise a workspace reload falls back to the
        // fs-notify watcher whose forwarding task calls the BLOCKING std::sync::mpsc::Receiver::recv()
        // inside a tokio task (register_file_watch.rs) and would stall this single-threaded runtime.
        let capabilities = default_capabilities(false);
        SessionOpts {
            root: None,
            capabilities,
            emmyrc: Arc::new(emmyrc),
            load_std: false,
            scheduled: false,
        }
    }
}

/// Client capabilities used by the in-process sessions (push diagnostics unless `pull`).
pub fn default_capabilities(pull: bool) -> ClientCapabilities {
    let mut caps = ClientCapabilities::default();
    caps.workspace = Some(lsp_types::WorkspaceClientCapabilities {
        did_change_watched_files: Some(lsp_types::DidChangeWatchedFilesClientCapabilities {
            dynamic_registration: Some(true),
            relative_pattern_support: None,
        }),
        ..Default::default()
    });
    if pull {
        caps.text_document = Some(lsp_types::TextDocumentClientCapabilities {
            diagnostic: Some(Default::default()),
            ..Default::default()
        });
    }
    caps
}

pub struct Session {
    pub ctx_snapshot: ServerContextSnapshot,
    pub client: Connection,
    to_main: mpsc::UnboundedSender<Message>,
    main_done: Arc<Mutex<u64>>,
    delivered: u64,
    pub main_task: u64,
    next_id: i32,
    pub outbox: Vec<Message>,
    seen_tasks: BTreeSet<u64>,
    pub scheduled: bool,
}

pub fn uri_of(path: &Path) -> Uri {
    file_path_to_uri(&path.to_path_buf()).expect("absolute path")
}

impl Session {
    pub async fn start(opts: SessionOpts) -> Session {
        hook::install(true, false);
        let (server_conn, client_conn) = Connection::memory();
        let mut ctx = ServerContext::new(server_conn, opts.capabilities.clone());
        let snapshot = ctx.snapshot();
        let folders: Vec<WorkspaceFolder> = opts
            .root
            .iter()
            .map(|r| WorkspaceFolder::new(r.clone(), false))
            .collect();
        {
            let mut wm = snapshot.workspace_manager().write().await;
            wm.workspace_folders = folders.clone();
            wm.update_match_state(opts.emmyrc.as_ref());
        }
        if opts.load_std {
            let mut an = snapshot.analysis().write().await;
            an.update_config(opts.emmyrc.clone());
            an.init_std_lib(None);
        }
        hook::init_analysis(
            snapshot.analysis(),
            snapshot.status_bar(),
            snapshot.file_diagnostic(),
            snapshot.lsp_features(),
            folders,
            opts.emmyrc.clone(),
            Vec::new(),
        )
        .await;

        // the main loop: one message at a time through the real dispatch functions
        let (tx, mut rx) = mpsc::unbounded_channel::<Message>();
        let main_done = Arc::new(Mutex::new(0u64));
        let done2 = main_done.clone();
        let main_id = Arc::new(Mutex::new(0u64));
        let main_id2 = main_id.clone();
        tokio::spawn(async move {
            *main_id2.lock().unwrap() = hook::current_task();
            while let Some(msg) = rx.recv().await {
                match msg {
                    Message::Request(req) => {
                        let _ = hook::on_request_handler(req, &mut ctx).await;
                    }
                    Message::Notification(n) => {
                        let _ = hook::on_notification_handler(n, &mut ctx).await;
                    }
                    Message::Response(r) => {
                        let _ = hook::on_response_handler(r, &mut ctx).await;
                    }
                }
                *done2.lock().unwrap() += 1;
            }
        });
        let mut s = Session {
            ctx_snapshot: snapshot,
            client: client_conn,
            to_main: tx,
            main_done,
            delivered: 0,
            main_task: 0,
            next_id: 1,
            outbox: Vec::new(),
            seen_tasks: BTreeSet::new(),
            scheduled: false,
        };
        s.settle().await;
        s.main_task = *main_id.lock().unwrap();
        s.outbox.clear(); // messages of the initial load (workspace diagnostics etc.)
        // let the initial workspace-diagnostic task run to completion in virtual time
        s.advance_ms(10).await;
        s.outbox.clear();
        if opts.scheduled {
            hook::install(true, true);
            s.scheduled = true;
        } else {
            hook::install(true, false);
        }
        s.seen_tasks.insert(s.main_task);
        s
    }

    fn drain(&mut self) -> usize {
        let mut n = 0;
        while let Ok(m) = self.client.receiver.try_recv() {
            self.outbox.push(m);
            n += 1;
        }
        n
    }

    /// Yield until nothing happens any more (no hook event, no outgoing message, main loop idle
    /// or parked). Returns the number of yields.
    pub async fn settle(&mut self) -> usize {
        let mut quiet = 0;
        let mut total = 0;
        let mut last_ev = hook::event_count();
        let mut last_done = *self.main_done.lock().unwrap();
        while quiet < SETTLE && total < 100_000 {
            tokio::task::yield_now().await;
            total += 1;
            let got = self.drain();
            let ev = hook::event_count();
            let done = *self.main_done.lock().unwrap();
            if got > 0 || ev != last_ev || done != last_done {
                quiet = 0;
                last_ev = ev;
                last_done = done;
            } else {
                quiet += 1;
            }
        }
        total
    }

    pub fn main_idle(&self) -> bool {
        *self.main_done.lock().unwrap() == self.delivered
    }

    /// Hand one client message to the main loop (it is handled when the main loop is idle).
    pub async fn deliver(&mut self, msg: Message) {
        self.delivered += 1;
        let _ = self.to_main.send(msg);
        self.settle().await;
    }

    pub async fn notify(&mut self, method: &str, params: Value) {
        self.deliver(Message::Notification(Notification {
            method: method.to_string(),
            params,
        }))
        .await;
    }

    pub fn fresh_id(&mut self) -> RequestId {
        let id = self.next_id;
        self.next_id += 1;
        RequestId::from(id)
    }

    /// Deliver a request and return every response carrying its id once the system is stable
    /// (free mode). 0 responses = the request was dropped or its task died; >1 = duplicates.
    pub async fn request(&mut self, method: &str, params: Value) -> (RequestId, Vec<Response>) {
        let id = self.fresh_id();
        let from = self.outbox.len();
        self.deliver(Message::Request(Request {
            id: id.clone(),
            method: method.to_string(),
            params,
        }))
        .await;
        let rs = self.outbox[from..]
            .iter()
            .filter_map(|m| match m {
                Message::Response(r) if r.id == id => Some(r.clone()),
                _ => None,
            })
            .collect();
        (id, rs)
    }

    /// Answer every pending server->client request with a null result (keeps handlers that await the
    /// client from hanging).
    pub async fn answer_server_requests(&mut self, from: usize) {
        let reqs: Vec<RequestId> = self.outbox[from..]
            .iter()
            .filter_map(|m| match m {
                Message::Request(r) => Some(r.id.clone()),
                _ => None,
            })
            .collect();
        for id in reqs {
            self.deliver(Message::Response(Response::new_ok(id, Value::Null)))
                .await;
        }
    }

    pub async fn advance_ms(&mut self, ms: u64) {
        tokio::time::advance(std::time::Duration::from_millis(ms)).await;
        self.settle().await;
    }

    // ---------------------------------------------------------------------------------------
    // scheduled mode
    // ---------------------------------------------------------------------------------------

    /// Tasks currently parked before a lock request: task -> (lock, mode).
    pub fn parked(&self) -> BTreeMap<u64, (String, char)> {
        hook::parked()
            .into_iter()
            .map(|p| (p.task, (p.lock.to_string(), p.mode)))
            .collect()
    }

    /// Tasks that parked for the first time since the last call (in tokio task-id = spawn order).
    pub fn new_tasks(&mut self) -> Vec<u64> {
        let mut v = Vec::new();
        for t in self.parked().keys() {
            if self.seen_tasks.insert(*t) {
                v.push(*t);
            }
        }
        v
    }

    /// Would the lock request the task is parked at be granted immediately?
    pub fn grantable(&self, task: u64) -> bool {
        let parked = self.parked();
        let Some((lock, mode)) = parked.get(&task) else {
            return false;
        };
        let mut readers = 0;
        let mut exclusive = 0;
        for t in self.seen_tasks.iter() {
            for (l, m) in hook::held_by(*t) {
                if l == lock {
                    if m == 'R' {
                        readers += 1
                    } else {
                        exclusive += 1
                    }
                }
            }
        }
        match mode {
            'R' => exclusive == 0,
            _ => exclusive == 0 && readers == 0,
        }
    }

    /// Let a parked task request its lock and run until it parks again, blocks or ends.
    pub async fn step(&mut self, task: u64) -> bool {
        if !hook::release(task) {
            return false;
        }
        self.settle().await;
        true
    }

    /// Switch the lock hooks between tracing only and scheduling (at a quiescent point).
    pub fn set_scheduled(&mut self, on: bool) {
        hook::install(true, on);
        self.scheduled = on;
    }

    /// Leave scheduled mode: let everything run freely to completion (virtual time untouched).
    pub async fn free_run(&mut self) {
        hook::release_all();
        self.scheduled = false;
        self.settle().await;
    }

    // ---------------------------------------------------------------------------------------
    // observation (never blocks: try_read)
    // ---------------------------------------------------------------------------------------

    /// Text the analysis currently holds for `uri` (None = not in the Vfs / lock busy -> Err).
    pub fn vfs_text(&self, uri: &Uri) -> Result<Option<String>, ()> {
        let an = self.ctx_snapshot.analysis().verif_try_read().ok_or(())?;
        let Some(id) = an.get_file_id(uri) else {
            return Ok(None);
        };
        let vfs = an.compilation.get_db().get_vfs();
        Ok(vfs.get_document(&id).map(|d| d.get_text().to_string()))
    }

    /// (open_file_state_version, reload_generation, open files)
    pub fn wm_state(&self) -> Result<(u64, u64, BTreeMap<String, String>), ()> {
        let wm = self
            .ctx_snapshot
            .workspace_manager()
            .verif_try_read()
            .ok_or(())?;
        let (v, g, files) = wm.verif_state();
        Ok((
            v,
            g,
            files
                .into_iter()
                .map(|(u, t)| (u.to_string(), t))
                .collect(),
        ))
    }

    /// publishDiagnostics notifications in `outbox[from..]` as (uri, diagnostics json)
    pub fn published(&self, from: usize) -> Vec<(String, Value)> {
        self.outbox[from.min(self.outbox.len())..]
            .iter()
            .filter_map(|m| match m {
                Message::Notification(n) if n.method == "textDocument/publishDiagnostics" => Some((
                    n.params["uri"].as_str().unwrap_or("").to_string(),
                    n.params["diagnostics"].clone(),
                )),
                _ => None,
            })
            .collect()
    }
}

// convenient constructors of client messages -----------------------------------------------------

pub fn did_open(uri: &Uri, text: &str, version: i32) -> (String, Value) {
    (
        "textDocument/didOpen".into(),
        json!({"textDocument": {"uri": uri.to_string(), "languageId": "lua", "version": version, "text": text}}),
    )
}

pub fn did_change(uri: &Uri, text: &str, version: i32) -> (String, Value) {
    (
        "textDocument/didChange".into(),
        json!({"textDocument": {"uri": uri.to_string(), "version": version}, "contentChanges": [{"text": text}]}),
    )
}

pub fn did_close(uri: &Uri) -> (String, Value) {
    (
        "textDocument/didClose".into(),
        json!({"textDocument": {"uri": uri.to_string()}}),
    )
}

pub fn did_save(uri: &Uri) -> (String, Value) {
    (
        "textDocument/didSave".into(),
        json!({"textDocument": {"uri": uri.to_string()}}),
    )
}

/// typ: 1 created, 2 changed, 3 deleted
pub fn did_change_watched(changes: &[(Uri, u32)]) -> (String, Value) {
    let ch: Vec<Value> = changes
        .iter()
        .map(|(u, t)| json!({"uri": u.to_string(), "type": t}))
        .collect();
    (
        "workspace/didChangeWatchedFiles".into(),
        json!({"changes": ch}),
    )
}
