fn main() { println!("placeholder"); }
