//! Records the output of `SchemaConverter::convert` (C40) for SchemaGen.tla cases.
//!
//! usage: vh_schema <cases.ndjson>      case: {"id": n, "schema": <json schema>}
//! One NDJSON record per case:
//!   {"id", "panic": 0|1, "msg", "errors": n, "first_error", "declares": 0|1, "root": root_type_name, "text"}
//! "errors" = number of errors the Lua parser reports for `annotation_text`; "declares" = a `---@class` or
//! `---@alias` tag whose name is `root_type_name` exists in the parsed text.  Nothing is judged here:
//! SchemaGen.tla (Mode = "judge") does that.
use emmylua_parser::{LuaAstNode, LuaDocTagAlias, LuaDocTagClass, LuaParser, ParserConfig};
use schema_to_emmylua::SchemaConverter;
use vh_common::{emit, guarded, json, quiet_panics, read_cases};

fn main() {
    quiet_panics();
    let args: Vec<String> = std::env::args().collect();
    let cases = read_cases(args.get(1).map(|s| s.as_str()));
    let mut panics = 0u64;
    for case in &cases {
        let id = case["id"].as_u64().unwrap();
        let schema = &case["schema"];
        let res = guarded(|| {
            let r = SchemaConverter::new(false).convert(schema);
            (r.annotation_text, r.root_type_name)
        });
        match res {
            Err(msg) => {
                panics += 1;
                emit(&json!({"id": id, "panic": 1, "msg": msg, "errors": 0, "first_error": "", "declares": 0, "root": "", "text": ""}));
            }
            Ok((text, root)) => {
                let parsed = guarded(|| {
                    let tree = LuaParser::parse(&text, ParserConfig::default());
                    let errs: Vec<String> = tree.get_errors().iter().map(|e| format!("{:?}", e)).collect();
                    let chunk = tree.get_chunk_node();
                    let mut declares = false;
                    for c in chunk.descendants::<LuaDocTagClass>() {
                        if let Some(n) = c.get_name_token() {
                            declares |= n.get_name_text() == root;
                        }
                    }
                    for a in chunk.descendants::<LuaDocTagAlias>() {
                        if let Some(n) = a.get_name_token() {
                            declares |= n.get_name_text() == root;
                        }
                    }
                    (errs, declares)
                });
                match parsed {
                    Err(msg) => {
                        panics += 1;
                        emit(&json!({"id": id, "panic": 1, "msg": format!("parsing the annotation text: {msg}"), "errors": 0,
                                     "first_error": "", "declares": 0, "root": root, "text": text}));
                    }
                    Ok((errs, declares)) => {
                        emit(&json!({"id": id, "panic": 0, "msg": "", "errors": errs.len(),
                                     "first_error": errs.first().cloned().unwrap_or_default(),
                                     "declares": if declares { 1 } else { 0 }, "root": root, "text": text}));
                    }
                }
            }
        }
    }
    emit(&json!({"summary": {"cases": cases.len(), "panics": panics}}));
}
