SPECIFICATION Spec
CONSTANTS
  MaxThreads = 8
  MaxPerThread = 3
  Files = {"a", "b", "c"}
  Progs = {"P1", "P2", "P3"}
  Kinds = {"diag", "types", "decl"}
INVARIANTS SeqEquivalent DbUnchanged Complete Emit
