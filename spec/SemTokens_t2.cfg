SPECIFICATION Spec
CONSTANTS
  W = 1
  NL = 3
  MaxPush = 4
  Big = 0
INVARIANTS Guarantee Converse Lossless NoUnderflow DedupOnlyByStart OutputInDocument SingleLineInDocument
