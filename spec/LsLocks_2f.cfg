SPECIFICATION Spec
CONSTANTS
  K = 2
  Greedy = FALSE
VIEW view
INVARIANTS EmitBlocked NoReacquireEmit
