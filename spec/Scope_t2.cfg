\* thorough: every program of <= 4 generated items over one name without closure expressions
SPECIFICATION Spec
CONSTANTS
  NameSeq <- NamesA
  Rich = FALSE
  MaxItems = 4
  MaxDepth = 3
  MinEmit = 4
  EmitMod = 2
  ForNumKind = "ForRange"
  LoaOrder = "reverse"
  CheckAgree = TRUE
INVARIANTS SameSites Agree Emit
