------------------------------- MODULE ConfigPath -------------------------------
(* Expansion of path strings of a configuration (C31: `pre_process_emmyrc` never panics).

   Transcribes PreProcessContext::pre_process_path of
   crates/emmylua_code_analysis/src/config/pre_process.rs as a state machine over a string, one action per
   statement: replace_env_var (regex \$(\w+)), strip every '$', replace_placeholders (regex \{([^}]+)\}),
   then the branch on the first characters (`~`, `./`, absolute, relative) with `PathBuf::join`.
   Strings are sequences of characters; slicing is explicit: the pinned tree takes `path[2..]` after a
   leading '~' -- a BYTE index, which is out of bounds for "~" and inside the character for "~<2-byte char>"
   -- and that is the explicit outcome pc = "crashed".  Variant selects the pinned or the fixed branch.

   Inputs are all sequences of fewer than MaxLen TOKENS and those of MaxLen tokens that start with a token of
   LongHeads; a token is one character, except "W" which stands
   for the word `workspaceFolder` (so that `${workspaceFolder}` is four tokens).  The environment is fixed
   by the harness: variable `a` = "/e", every other variable unset, HOME = /home/u, workspace = /ws.

   TLC checks NoCrash, that every expansion is an absolute path and that expanding twice changes nothing,
   and prints every input with the expected expansion (and the expansion relative to the expanded path,
   which is what a library item's `ignoreDir` gets) for replay into the real `pre_process_emmyrc`.      *)
EXTENDS Naturals, Sequences, FiniteSets, TLC, Json

CONSTANTS Variant,   \* "fixed" | "pinned"
          Tokens,    \* subset of {"~", "/", ".", "a", "$", "{", "}", "e2", "W"}   ("e2" = a 2-byte character)
          MaxLen,
          LongHeads, \* sequences of the full length MaxLen are generated only with these first tokens
          EmitCases

VARIABLES toks, pc, ws, s
vars == <<toks, pc, ws, s>>

WChars == <<"w", "o", "r", "k", "s", "p", "a", "c", "e", "F", "o", "l", "d", "e", "r">>
Home == <<"/", "h", "o", "m", "e", "/", "u">>
Ws0 == <<"/", "w", "s">>
EnvA == <<"/", "e">>

RECURSIVE Chars(_)
Chars(t) == IF t = <<>> THEN <<>> ELSE (IF Head(t) = "W" THEN WChars ELSE <<Head(t)>>) \o Chars(Tail(t))

\* \w of the regex crate is Unicode aware: letters including the 2-byte letter
IsWord(c) == c \notin {"~", "/", ".", "$", "{", "}"}
Bytes(c) == IF c = "e2" THEN 2 ELSE 1

Env(name) == IF name = <<"a">> THEN EnvA ELSE <<>>     \* unset variables expand to ""

\* number of leading word characters
RECURSIVE WordRun(_)
WordRun(x) == IF x = <<>> \/ ~IsWord(Head(x)) THEN 0 ELSE 1 + WordRun(Tail(x))
Drop(x, n) == SubSeq(x, n + 1, Len(x))

\* replace_env_var: leftmost, non-overlapping matches of \$(\w+)
RECURSIVE ReplaceEnv(_)
ReplaceEnv(x) ==
  IF x = <<>> THEN <<>>
  ELSE IF Head(x) = "$" /\ WordRun(Tail(x)) > 0
       THEN LET n == WordRun(Tail(x)) IN Env(SubSeq(x, 2, n + 1)) \o ReplaceEnv(Drop(x, n + 1))
       ELSE <<Head(x)>> \o ReplaceEnv(Tail(x))

StripDollar(x) == SelectSeq(x, LAMBDA c : c # "$")

\* replace_placeholders: leftmost matches of \{([^}]+)\}; only {workspaceFolder} can occur over this alphabet,
\* every other match is copied unchanged (and not rescanned)
FirstClose(x) == IF \E i \in 1..Len(x) : x[i] = "}" THEN CHOOSE i \in 1..Len(x) : x[i] = "}" /\ \A j \in 1..(i - 1) : x[j] # "}"
                 ELSE 0
RECURSIVE ReplacePlaceholders(_, _)
ReplacePlaceholders(x, w) ==
  IF x = <<>> THEN <<>>
  ELSE LET k == FirstClose(x) IN
       IF Head(x) = "{" /\ k >= 3
       THEN (IF SubSeq(x, 2, k - 1) = WChars THEN w ELSE SubSeq(x, 1, k)) \o ReplacePlaceholders(Drop(x, k), w)
       ELSE <<Head(x)>> \o ReplacePlaceholders(Tail(x), w)

\* PathBuf::join / push on unix
Join(base, rel) == IF rel # <<>> /\ Head(rel) = "/" THEN rel
                   ELSE IF base[Len(base)] = "/" THEN base \o rel
                   ELSE base \o <<"/">> \o rel

StartsWith(x, p) == Len(x) >= Len(p) /\ SubSeq(x, 1, Len(p)) = p
Crashed == <<"!">>

\* the final branch of pre_process_path
Branch(x, w) ==
  IF Variant = "pinned" /\ StartsWith(x, <<"~">>) THEN
       \* home_dir.join(&path[2..]): byte index 2 must be <= len and on a character boundary
       IF Len(x) < 2 \/ Bytes(x[2]) # 1 THEN Crashed ELSE Join(Home, Drop(x, 2))
  ELSE IF Variant # "pinned" /\ x = <<"~">> THEN Home
  ELSE IF Variant # "pinned" /\ StartsWith(x, <<"~", "/">>) THEN
       (IF Drop(x, 2) = <<>> THEN Home ELSE Join(Home, Drop(x, 2)))
  ELSE IF StartsWith(x, <<".", "/">>) THEN Join(w, Drop(x, 2))
  ELSE IF StartsWith(x, <<"/">>) THEN x
  ELSE Join(w, x)

ExpandIn(w, x) == Branch(ReplacePlaceholders(StripDollar(ReplaceEnv(x)), w), w)

----------------------------------------------------------------------------------------------------
Inputs == UNION {[1..n -> Tokens] : n \in 0..(MaxLen - 1)} \cup {t \in [1..MaxLen -> Tokens] : t[1] \in LongHeads}

Init == toks \in Inputs /\ pc = "env" /\ ws = Ws0 /\ s = Chars(toks)
EnvStep == pc = "env" /\ s' = ReplaceEnv(s) /\ pc' = "dollar" /\ UNCHANGED <<toks, ws>>
DollarStep == pc = "dollar" /\ s' = StripDollar(s) /\ pc' = "placeholder" /\ UNCHANGED <<toks, ws>>
PlaceholderStep == pc = "placeholder" /\ s' = ReplacePlaceholders(s, ws) /\ pc' = "branch" /\ UNCHANGED <<toks, ws>>
BranchStep == /\ pc = "branch"
              /\ LET r == Branch(s, ws) IN
                 IF r = Crashed THEN pc' = "crashed" /\ s' = s ELSE pc' = "done" /\ s' = r
              /\ UNCHANGED <<toks, ws>>
Next == EnvStep \/ DollarStep \/ PlaceholderStep \/ BranchStep \/ (pc \in {"done", "crashed"} /\ UNCHANGED vars)
Spec == Init /\ [][Next]_vars

NoCrash == pc # "crashed"
Absolute == pc = "done" => (s # <<>> /\ Head(s) = "/")
Idempotent == pc = "done" => ExpandIn(ws, s) = s
StepsAgree == pc = "done" => s = ExpandIn(ws, Chars(toks))

Emit == (EmitCases /\ pc = "done") =>
          PrintT(<<"PATH", ToJson([toks |-> toks, exp |-> s, sub |-> ExpandIn(s, Chars(toks)),
                                   tilde |-> StartsWith(ReplacePlaceholders(StripDollar(ReplaceEnv(Chars(toks))), ws), <<"~">>)])>>)
=============================================================================
