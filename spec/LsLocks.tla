------------------------------- MODULE LsLocks -------------------------------
(* C28: the language server's lock discipline under tokio's FAIR (FIFO, write-preferring) locks.

   State = the locks of emmylua_ls (two RwLocks `an` = analysis, `wm` = workspace manager, and the
   async mutexes) + one program counter per task.  A task's *lock program* is NOT written by hand:
   it is MINED from the real server by the lock-wrapper hooks (harness vh_ls_mine): the sequence of
   lock requests (`acq`) and releases (`rel`) one real handler task performed.  TLC explores every
   interleaving of every multiset of <= K program instances with the queue-exact lock semantics below
   and reports the blocked states.

   Lock semantics (tokio::sync::RwLock / Mutex are FIFO semaphores, bound by vh_ls_fairlock):
     Request : the task joins the tail of the lock's queue;
     Grant   : only the HEAD of the queue is served -- a reader when no writer holds the lock, a
               writer/mutex when nobody holds it;  so a reader queued behind a waiting writer waits
               although the lock is only read-held (that is what makes R-R cycles deadlock);
     Release : drops one hold.
*)
EXTENDS Naturals, Sequences, FiniteSets, TLC, Json, IOUtils

CONSTANTS K,           \* number of concurrent program instances per combination
          Greedy       \* TRUE: only executions the deterministic scheduler can realise (a task runs from
                       \* one lock request to the next without being pre-empted); FALSE: every interleaving

\* mined programs: sequence of records [name |-> STRING, ops |-> Seq(<<"acq"|"rel", lock, mode>>)]
\* parsed once (a plain definition would re-read the file on every evaluation)
ASSUME TLCSet(7, ndJsonDeserialize(IOEnv.PROGRAMS))
Mined == TLCGet(7)
NProg == Len(Mined)
Ops(p) == Mined[p].ops

VARIABLES inst,     \* inst[t] \in 1..NProg : which program task t runs (chosen in Init)
          pc,       \* pc[t]   : index of the next op
          waiting,  \* waiting[t] : TRUE while queued
          holds,    \* holds[l][t] : <<readHolds, exclusiveHolds>> of task t on lock l
          queue,    \* queue[l] : Seq of <<t, mode>>
          hist      \* order of lock requests so far (replay schedule; hidden from the fingerprint by VIEW)
vars == <<inst, pc, waiting, holds, queue, hist>>
view == <<inst, pc, waiting, holds, queue>>

Tasks == 1..K
Locks == UNION {{Ops(p)[i][2] : i \in 1..Len(Ops(p))} : p \in 1..NProg}

Op(t) == Ops(inst[t])[pc[t]]
Done(t) == pc[t] > Len(Ops(inst[t]))

\* combinations are multisets: instances sorted by program index (symmetry reduction by construction)
Init == /\ inst \in {f \in [Tasks -> 1..NProg] : \A i \in 1..(K - 1) : f[i] <= f[i + 1]}
        /\ pc = [t \in Tasks |-> 1]
        /\ waiting = [t \in Tasks |-> FALSE]
        /\ holds = [l \in Locks |-> [t \in Tasks |-> <<0, 0>>]]
        /\ queue = [l \in Locks |-> <<>>]
        /\ hist = <<>>

Readers(l) == {t \in Tasks : holds[l][t][1] > 0}
Excl(l) == {t \in Tasks : holds[l][t][2] > 0}

GrantEnabled(l) == /\ queue[l] # <<>>
                   /\ IF Head(queue[l])[2] = "R" THEN Excl(l) = {} ELSE Excl(l) = {} /\ Readers(l) = {}
\* somebody is in the middle of a step (has a grant to take or a release to perform)
MidStep == \/ \E l \in Locks : GrantEnabled(l)
           \/ \E u \in Tasks : ~Done(u) /\ ~waiting[u] /\ Op(u)[1] = "rel"

Request(t) == /\ ~Done(t) /\ ~waiting[t] /\ Op(t)[1] = "acq"
              /\ Greedy => ~MidStep
              /\ hist' = Append(hist, t)
              /\ queue' = [queue EXCEPT ![Op(t)[2]] = Append(@, <<t, Op(t)[3]>>)]
              /\ waiting' = [waiting EXCEPT ![t] = TRUE]
              /\ UNCHANGED <<inst, pc, holds>>

Grant(l) == /\ queue[l] # <<>>
            /\ LET t == Head(queue[l])[1]
                   m == Head(queue[l])[2] IN
               /\ IF m = "R" THEN Excl(l) = {} ELSE Excl(l) = {} /\ Readers(l) = {}
               /\ holds' = [holds EXCEPT ![l][t] = IF m = "R" THEN <<@[1] + 1, @[2]>> ELSE <<@[1], @[2] + 1>>]
               /\ queue' = [queue EXCEPT ![l] = Tail(@)]
               /\ waiting' = [waiting EXCEPT ![t] = FALSE]
               /\ pc' = [pc EXCEPT ![t] = @ + 1]
               /\ UNCHANGED <<inst, hist>>

Release(t) == /\ ~Done(t) /\ ~waiting[t] /\ Op(t)[1] = "rel"
              /\ LET l == Op(t)[2] m == Op(t)[3] IN
                 holds' = [holds EXCEPT ![l][t] = IF m = "R" THEN <<@[1] - 1, @[2]>> ELSE <<@[1], @[2] - 1>>]
              /\ pc' = [pc EXCEPT ![t] = @ + 1]
              /\ UNCHANGED <<inst, waiting, queue, hist>>

Next == (\E t \in Tasks : Request(t) \/ Release(t)) \/ (\E l \in Locks : Grant(l))
Spec == Init /\ [][Next]_vars

AllDone == \A t \in Tasks : Done(t)

\* ---- C28 as invariants ----------------------------------------------------------------------
\* (1) every waiting task eventually gets its lock: in this finite acyclic-progress model that is
\*     "no state in which some task is unfinished and nothing can move"
NoDeadlock == AllDone \/ ENABLED Next
\* (2) a task never requests a lock it already holds (self-deadlock under a fair lock as soon as a
\*     writer queues in between; immediate for W / mutex)
NoReacquire == \A t \in Tasks :
                 (~Done(t) /\ ~waiting[t] /\ Op(t)[1] = "acq") =>
                     holds[Op(t)[2]][t] = <<0, 0>>

\* a violation is reported with the combination and the blocked configuration
Blocked == [t \in Tasks |-> [prog |-> Mined[inst[t]].name, pc |-> pc[t],
                            waits |-> IF waiting[t] THEN <<Op(t)[2], Op(t)[3]>> ELSE <<>>,
                            holds |-> {<<l, holds[l][t]>> : l \in {x \in Locks : holds[x][t] # <<0, 0>>}}]]
NoReacquireEmit == \A t \in Tasks :
   (~Done(t) /\ ~waiting[t] /\ Op(t)[1] = "acq" /\ holds[Op(t)[2]][t] # <<0, 0>>) =>
       PrintT(<<"REACQUIRE", ToJson([prog |-> Mined[inst[t]].name, pc |-> pc[t], lock |-> Op(t)[2], mode |-> Op(t)[3]])>>)
\* exhaustive listing: every blocked state is printed (with one schedule reaching it), TLC keeps going
EmitBlocked == (~AllDone /\ ~ENABLED Next) =>
                  PrintT(<<"BLOCKED", ToJson([tasks |-> Blocked, hist |-> hist,
                                           queues |-> [l \in Locks |-> [i \in 1..Len(queue[l]) |-> queue[l][i][1]]]])>>)
==============================================================================
