SPECIFICATION Spec
CONSTANT N = 4
INVARIANTS Exclusive NoStarvationShape Emit
