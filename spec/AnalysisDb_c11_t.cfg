SPECIFICATION Spec
CONSTANTS
  NPaths = 3
  Contents = {"ClsDoc", "ClsDoc2", "ClsPlain", "ClsField", "GInt", "GStr", "ReqB", "Mod", "Alias", "Enum", "DiagOff", "Undef", "UseFoo", "ClsSub", "ReqA"}
  Ops = {}
  MaxSteps = 0
  EditDist = 3
  Batch = TRUE
  EmitSel = "all"
VIEW View
INVARIANTS Confluent Emit
