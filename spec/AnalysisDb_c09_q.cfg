SPECIFICATION Spec
CONSTANTS
  NPaths = 3
  Contents = {"ClsDoc", "ClsField", "ReqB", "ClsSub"}
  Ops = {"update", "unset", "remove", "reindex"}
  MaxSteps = 2
  EditDist = 3
  Batch = FALSE
  EmitSel = "reindex"
VIEW View
INVARIANTS ReindexIsIdeal NoLeak Emit
