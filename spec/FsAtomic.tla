------------------------------- MODULE FsAtomic -------------------------------
(* A small POSIX file-system model for C39 ("in-place formatting never leaves a truncated file").

   State: a volatile namespace `dir` (name -> inode), volatile inode contents `data` (inode -> sequence
   of units; a unit is one byte, or one block of B bytes for the large-file scenarios), the open file
   table `fds`, and what a POWER LOSS could expose: `hist[i]` = every content inode i has had since its
   last fsync, `dirs` = every namespace since the start of the run (metadata operations are journaled in
   order but nothing forces them out; no directory fsync is modelled).

   The program is NOT modelled: its syscalls come from `Script`, a sequence of event records that is
   either the hand-written protocols of module FsAtomicProto (in-place, temp+rename, ...) or -- the binding
   to the real code -- the strace recording of the real `luafmt --write` (environment variable TRACE).
   TLC replays the script event by event (`Step`) and composes the faults after EVERY prefix:

     Kill            the process dies before event l (SIGKILL, SIGXFSZ, OOM ...): volatile state stays
     WriteFault      at every write event, for every k < bytes written: only k units reach the file and
                     then the process dies ("killw") or the write fails with ENOSPC/EFBIG ("wfail";
                     what the program does next is unknown to the recording, so the state is terminal
                     here; the real continuation is recorded in the fault run and validated separately)
     power loss      is not a transition: `PowerOk` quantifies over every durable state compatible
                     with `dirs` and `hist` in every reachable state.

   Property (per target file t with original content meta[t].orig and formatted content meta[t].fmt):
     KillOk   in every reachable state   content(t) \in {orig, fmt}           (t must exist)
     PowerOk  in every reachable state   every durable content(t) \in {orig, fmt}
   Instead of stopping at the first violation the verdicts are printed for every state (RUN lines for the
   fault-free prefix states, CASE lines for the terminal fault states, with the predicted content of
   every target) so that the driver can replay each fault for real and compare.  *)
EXTENDS Naturals, Integers, Sequences, FiniteSets, TLC, Json, IOUtils, FsAtomicProto

\* The script (sequence of event records, see Apply): the strace recording named by the environment variable
\* TRACE, or the hand-written protocols of FsAtomicProto.  TLCEval: read the file once, not at every use.
Script == TLCEval(IF "TRACE" \in DOMAIN IOEnv THEN ndJsonDeserialize(IOEnv.TRACE) ELSE All)

VARIABLES l,             \* next event
          run,           \* id of the current recorded run (from the last "reset" event)
          meta,          \* target name -> [orig, fmt]
          dir, data, fds, nino,
          sym,           \* symlink inode -> name it points to (fixed by "reset"; a symlink is a directory entry of its own)
          roino, rodirs, \* inodes without write permission / directories without write permission (fixed by "reset")
          hist, dirs,    \* power-loss bookkeeping
          alive,         \* the process of the current run exists
          mode,          \* "run" | "crashed" | "failed"
          fault          \* the fault that ended this behaviour (terminal states only)
vars == <<l, run, meta, dir, data, fds, nino, sym, roino, rodirs, hist, dirs, alive, mode, fault>>

Empty == [x \in {} |-> 0]
Missing == <<-1>>
NoFault == [kind |-> "none", at |-> 0, k |-> 0]
Range(s) == {s[i] : i \in DOMAIN s}
Drop(f, x) == [y \in (DOMAIN f) \ {x} |-> f[y]]

\* path resolution: a name whose entry is a symlink stands for the name the link points to (one level)
Res(d, n) == IF n \in DOMAIN d /\ d[n] \in DOMAIN sym THEN sym[d[n]] ELSE n
ContentOf(d, dt, n) == IF Res(d, n) \in DOMAIN d THEN dt[d[Res(d, n)]] ELSE Missing
Good(t, c) == c = meta[t].orig \/ c = meta[t].fmt

KillOk == \A t \in DOMAIN meta : Good(t, ContentOf(dir, data, t))
PowerOk == \A d \in dirs : \A t \in DOMAIN meta :
              /\ Res(d, t) \in DOMAIN d
              /\ \A c \in hist[d[Res(d, t)]] : Good(t, c)

\* ----------------------------------------------------------------------------------------------
\* file operations (each an action over dir, data, fds, nino, hist, dirs)
\* ----------------------------------------------------------------------------------------------
Pad(c, n) == IF n > Len(c) THEN c \o [x \in 1..(n - Len(c)) |-> 0] ELSE c
Splice(c, off, w) == LET p == Pad(c, off) IN
                     SubSeq(p, 1, off) \o w \o SubSeq(p, off + Len(w) + 1, Len(p))

\* O_CREAT|O_EXCL does not follow a symlink; every other open does.  An existing file opens unless O_EXCL was
\* asked for or write access is asked for on an inode without write permission; a new name needs O_CREAT and
\* a writable directory (e.dir = the directory of e.name, supplied by the recorder).
OpenName(e) == IF e.creat /\ e.excl THEN e.name ELSE Res(dir, e.name)
OpenSucceeds(e) == IF OpenName(e) \in DOMAIN dir
                   THEN ~(e.creat /\ e.excl) /\ ~(e.wr /\ dir[OpenName(e)] \in roino)
                   ELSE e.creat /\ e.dir \notin rodirs

DoOpen(e) ==
  /\ e.ok = OpenSucceeds(e)                       \* the model must predict success / failure
  /\ IF e.ok
     THEN LET name == OpenName(e)
              exists == name \in DOMAIN dir
              i  == IF exists THEN dir[name] ELSE nino
              c0 == IF exists THEN data[i] ELSE <<>>
              c  == IF e.trunc /\ e.wr THEN <<>> ELSE c0
              h0 == IF exists THEN hist[i] ELSE {}
          IN /\ dir'  = IF exists THEN dir ELSE (name :> i) @@ dir
             /\ data' = (i :> c) @@ data
             /\ hist' = (i :> (h0 \cup {c})) @@ hist
             /\ nino' = IF exists THEN nino ELSE nino + 1
             /\ fds'  = (e.fd :> [ino |-> i, off |-> 0, wr |-> e.wr, app |-> e.append]) @@ fds
             /\ dirs' = dirs \cup {dir'}
     ELSE UNCHANGED <<dir, data, hist, nino, fds, dirs>>

\* the first k units of d reach the file behind fd
DoWriteK(fd, d, k) ==
  LET f   == fds[fd]
      off == IF f.app THEN Len(data[f.ino]) ELSE f.off
  IN /\ data' = [data EXCEPT ![f.ino] = Splice(@, off, SubSeq(d, 1, k))]
     /\ hist' = [hist EXCEPT ![f.ino] = @ \cup {Splice(data[f.ino], off, SubSeq(d, 1, j)) : j \in 0..k}]
     /\ fds'  = [fds EXCEPT ![fd].off = off + k]
     /\ UNCHANGED <<dir, nino, dirs>>

DoWrite(e) ==
  /\ e.fd \in DOMAIN fds /\ fds[e.fd].wr
  /\ IF e.ret >= 0 THEN e.ret <= Len(e.data) /\ DoWriteK(e.fd, e.data, e.ret)
                   ELSE UNCHANGED <<dir, data, hist, nino, fds, dirs>>

DoClose(e) ==
  /\ e.fd \in DOMAIN fds
  /\ fds' = Drop(fds, e.fd)
  /\ UNCHANGED <<dir, data, hist, nino, dirs>>

DoFsync(e) ==
  /\ e.fd \in DOMAIN fds
  /\ hist' = [hist EXCEPT ![fds[e.fd].ino] = {data[fds[e.fd].ino]}]
  /\ UNCHANGED <<dir, data, fds, nino, dirs>>

DoFtruncate(e) ==
  /\ e.fd \in DOMAIN fds /\ fds[e.fd].wr
  /\ LET i == fds[e.fd].ino
         c == SubSeq(Pad(data[i], e.len), 1, e.len)
     IN /\ data' = [data EXCEPT ![i] = c]
        /\ hist' = [hist EXCEPT ![i] = @ \cup {c}]
  /\ UNCHANGED <<dir, fds, nino, dirs>>

DoRename(e) ==
  /\ e.ok = (e.from \in DOMAIN dir /\ e.fromdir \notin rodirs /\ e.todir \notin rodirs)   \* acts on the entries themselves
  /\ IF e.ok THEN /\ dir' = (e.to :> dir[e.from]) @@ Drop(dir, e.from)
                  /\ dirs' = dirs \cup {dir'}
             ELSE UNCHANGED <<dir, dirs>>
  /\ UNCHANGED <<data, hist, fds, nino>>

DoUnlink(e) ==
  /\ e.ok = (e.name \in DOMAIN dir /\ e.dir \notin rodirs)
  /\ IF e.ok THEN /\ dir' = Drop(dir, e.name)
                  /\ dirs' = dirs \cup {dir'}
             ELSE UNCHANGED <<dir, dirs>>
  /\ UNCHANGED <<data, hist, fds, nino>>

\* a new recorded run: fresh file system holding the listed files (long since durable).  files[j].ino is the index
\* of the entry that owns the inode (j itself, or the first name of a set of hard links); files[j].link # "" makes
\* the entry a symlink to that name; files[j].ro: no write permission on the inode; e.rodirs: read-only directories.
DoReset(e) ==
  LET fs == Range(e.files)
      names == {f.name : f \in fs}
      idx(n) == CHOOSE j \in DOMAIN e.files : e.files[j].name = n
  IN /\ run'  = e.run
     /\ meta' = [n \in {f.name : f \in {g \in fs : g.target}} |->
                   [orig |-> e.files[idx(n)].orig, fmt |-> e.files[idx(n)].fmt]]
     /\ dir'  = [n \in names |-> e.files[idx(n)].ino]
     /\ sym'  = [j \in {k \in DOMAIN e.files : e.files[k].link # ""} |-> e.files[j].link]
     /\ roino' = {e.files[j].ino : j \in {k \in DOMAIN e.files : e.files[k].ro}}
     /\ rodirs' = Range(e.rodirs)
     /\ data' = [j \in DOMAIN e.files |-> e.files[j].orig]
     /\ hist' = [j \in DOMAIN e.files |-> {e.files[j].orig}]
     /\ dirs' = {dir'}
     /\ nino' = Len(e.files) + 1
     /\ fds'  = Empty
     /\ alive' = TRUE

\* what was read back from the real directory after the run: the model must explain it exactly
DoObserve(e) ==
  /\ {f.name : f \in Range(e.files)} = DOMAIN dir
  /\ \A f \in Range(e.files) :
        IF f.link # "" THEN dir[f.name] \in DOMAIN sym /\ sym[dir[f.name]] = f.link
                       ELSE dir[f.name] \notin DOMAIN sym /\ data[dir[f.name]] = f.content
  \* the hard-link structure: two names share an inode on disk iff they do in the model
  /\ \A f, g \in Range(e.files) : (f.ino = g.ino) <=> (dir[f.name] = dir[g.name])
  /\ UNCHANGED <<dir, data, hist, nino, fds, dirs>>

Apply(e) ==
  CASE e.op = "reset"     -> DoReset(e)
    [] e.op = "open"      -> DoOpen(e)      /\ UNCHANGED <<run, meta, alive, sym, roino, rodirs>>
    [] e.op = "write"     -> DoWrite(e)     /\ UNCHANGED <<run, meta, alive, sym, roino, rodirs>>
    [] e.op = "close"     -> DoClose(e)     /\ UNCHANGED <<run, meta, alive, sym, roino, rodirs>>
    [] e.op = "fsync"     -> DoFsync(e)     /\ UNCHANGED <<run, meta, alive, sym, roino, rodirs>>
    [] e.op = "ftruncate" -> DoFtruncate(e) /\ UNCHANGED <<run, meta, alive, sym, roino, rodirs>>
    [] e.op = "rename"    -> DoRename(e)    /\ UNCHANGED <<run, meta, alive, sym, roino, rodirs>>
    [] e.op = "unlink"    -> DoUnlink(e)    /\ UNCHANGED <<run, meta, alive, sym, roino, rodirs>>
    [] e.op = "observe"   -> DoObserve(e)   /\ UNCHANGED <<run, meta, alive, sym, roino, rodirs>>
    [] e.op = "exit"      -> /\ fds' = Empty /\ alive' = FALSE     \* exit or death: descriptors go away
                             /\ UNCHANGED <<run, meta, dir, data, hist, nino, dirs, sym, roino, rodirs>>

\* ----------------------------------------------------------------------------------------------
\* behaviours
\* ----------------------------------------------------------------------------------------------
Init == /\ l = 1 /\ run = 0 /\ meta = Empty /\ dir = Empty /\ data = Empty /\ fds = Empty
        /\ nino = 1 /\ sym = Empty /\ roino = {} /\ rodirs = {} /\ hist = Empty /\ dirs = {} /\ alive = FALSE /\ mode = "run" /\ fault = NoFault

Step == /\ mode = "run" /\ l <= Len(Script)
        /\ Apply(Script[l])
        /\ l' = l + 1
        /\ UNCHANGED <<mode, fault>>

\* the process is killed before event l (equivalently: after the prefix of l-1 events)
Kill == /\ mode = "run" /\ alive /\ l <= Len(Script)
        /\ Script[l].op \notin {"reset", "observe", "exit"}
        /\ mode' = "crashed" /\ fault' = [kind |-> "kill", at |-> l, k |-> 0]
        /\ fds' = Empty /\ alive' = FALSE
        /\ UNCHANGED <<l, run, meta, dir, data, nino, hist, dirs, sym, roino, rodirs>>

\* a write that transferred n units in the recording transfers only k < n, then death or error
WriteFault(kind) ==
  /\ mode = "run" /\ alive /\ l <= Len(Script)
  /\ Script[l].op = "write" /\ Script[l].ret >= 1
  /\ Script[l].fd \in DOMAIN fds /\ fds[Script[l].fd].wr
  /\ \E k \in (IF kind = "killw" THEN 1 ELSE 0)..(Script[l].ret - 1) :
        /\ DoWriteK(Script[l].fd, Script[l].data, k)
        /\ fault' = [kind |-> kind, at |-> l, k |-> k]
  /\ mode' = IF kind = "killw" THEN "crashed" ELSE "failed"
  /\ alive' = (kind # "killw")
  /\ UNCHANGED <<l, run, meta, sym, roino, rodirs>>

Next == Step \/ Kill \/ WriteFault("killw") \/ WriteFault("wfail")
Spec == Init /\ [][Next]_vars

\* ----------------------------------------------------------------------------------------------
\* emission (an "invariant" that prints one line per distinct state)
\* ----------------------------------------------------------------------------------------------
Snapshot == [t \in DOMAIN meta |-> ContentOf(dir, data, t)]
Emit ==
  IF mode = "run"
  THEN PrintT(<<"RUN", ToJson([run |-> run, l |-> l, killOk |-> KillOk, powerOk |-> PowerOk,
                               names |-> DOMAIN dir, files |-> Snapshot])>>)
  ELSE PrintT(<<"CASE", ToJson([run |-> run, fault |-> fault, killOk |-> KillOk, powerOk |-> PowerOk,
                                names |-> DOMAIN dir, files |-> Snapshot])>>)

EmitBrief ==
  IF mode = "run"
  THEN PrintT(<<"RUN", ToJson([run |-> run, l |-> l, killOk |-> KillOk, powerOk |-> PowerOk])>>)
  ELSE PrintT(<<"CASE", ToJson([run |-> run, fault |-> fault, killOk |-> KillOk, powerOk |-> PowerOk])>>)

\* plain invariants (for interactive use: TLC stops at the first bad state)
InvKill == KillOk
InvPower == PowerOk

\* acceptance: the whole script was consumed by Step (the driver also checks the last RUN line)
Accepted == TLCGet("stats").diameter >= Len(Script) + 1
=============================================================================
