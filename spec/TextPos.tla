------------------------------- MODULE TextPos -------------------------------
(* Reference semantics of LSP 3.17 positions (C22, C23).

   A text is a sequence over a five-letter alphabet standing for the character classes that matter:
     "a" = ASCII letter      (1 byte,  1 UTF-16 unit)
     "e" = U+00E9  e-acute    (2 bytes, 1 unit)
     "E" = U+1F600 emoji     (4 bytes, 2 units)
     "n" = LF, "r" = CR
   Lines end at LF, CR LF and a lone CR.  A position is (line, character) with character counted in
   UTF-16 code units; a character past the end of the line clamps to the end of the line (before its
   terminator); a line that does not exist converts to nothing.

   TLC enumerates every text up to MaxLen (one initial state per text), checks the reference's own
   round-trip law as an invariant, and prints each text with its line table and the expected position
   of every character boundary; the harness replays each case into LineIndex / LuaDocument.  *)
EXTENDS Naturals, Sequences, FiniteSets, TLC, Json

CONSTANTS MaxLen, Alphabet

VARIABLE text

Bytes(c) == CASE c = "e" -> 2 [] c = "E" -> 4 [] OTHER -> 1
Units(c) == CASE c = "E" -> 2 [] OTHER -> 1

\* byte offset of the boundary before character index i (1-based), i \in 1..Len(t)+1
RECURSIVE Off(_, _)
Off(t, i) == IF i = 1 THEN 0 ELSE Off(t, i - 1) + Bytes(t[i - 1])

IsTermStart(t, i) == /\ t[i] \in {"n", "r"}
                     /\ ~(t[i] = "n" /\ i > 1 /\ t[i - 1] = "r")
TermLen(t, i) == IF t[i] = "r" /\ i < Len(t) /\ t[i + 1] = "n" THEN 2 ELSE 1
TermStarts(t) == {j \in 1..Len(t) : IsTermStart(t, j)}
\* character indexes at which a line starts
LineStarts(t) == {1} \cup {j + TermLen(t, j) : j \in TermStarts(t)}
\* boundary index strictly inside a CR LF pair
InsideCrLf(t, i) == i > 1 /\ i <= Len(t) /\ t[i] = "n" /\ t[i - 1] = "r"

Max(S) == CHOOSE x \in S : \A y \in S : y <= x
Min(S) == CHOOSE x \in S : \A y \in S : x <= y

\* 0-based line of boundary i and the char index where that line starts
LineOf(t, i) == Cardinality({s \in LineStarts(t) : s <= i}) - 1
StartOf(t, i) == Max({s \in LineStarts(t) : s <= i})
\* end (boundary index before the terminator, or Len+1) of the line starting at s
EndOf(t, s) == LET later == {j \in TermStarts(t) : j >= s} IN
               IF later = {} THEN Len(t) + 1 ELSE Min(later)

RECURSIVE UnitsBetween(_, _, _)
UnitsBetween(t, a, b) == IF a >= b THEN 0 ELSE Units(t[a]) + UnitsBetween(t, a + 1, b)

\* OffsetToPos for boundary index i
Pos(t, i) == <<LineOf(t, i), UnitsBetween(t, StartOf(t, i), i)>>

\* PosToOffset: boundary index for (line, ch), 0 = nothing
NthStart(t, line) == CHOOSE s \in LineStarts(t) : Cardinality({x \in LineStarts(t) : x < s}) = line
PosToIdx(t, line, ch) ==
  IF line >= Cardinality(LineStarts(t)) THEN 0
  ELSE LET s == NthStart(t, line)
           e == EndOf(t, s)
           fits == {i \in s..e : UnitsBetween(t, s, i) <= ch}
       IN Max(fits)

Texts == UNION {[1..n -> Alphabet] : n \in 0..MaxLen}

Init == text \in Texts
Next == UNCHANGED text
Spec == Init /\ [][Next]_text

\* ---- design-level law of the reference itself: round trip on every boundary outside a CR LF pair
RoundTrip == \A i \in 1..(Len(text) + 1) :
               InsideCrLf(text, i) \/ PosToIdx(text, Pos(text, i)[1], Pos(text, i)[2]) = i
\* clamping: a character beyond the line's unit length yields the line end, which is inside the document
Clamp == \A line \in 0..(Cardinality(LineStarts(text)) - 1) :
           LET s == NthStart(text, line) e == EndOf(text, s) IN
             /\ PosToIdx(text, line, UnitsBetween(text, s, e) + 3) = e
             /\ Off(text, e) <= Off(text, Len(text) + 1)
NoLine == PosToIdx(text, Cardinality(LineStarts(text)), 0) = 0

\* ---- case emission: one JSON line per text
LineTable(t) == LET n == Cardinality(LineStarts(t)) IN
   [k \in 1..n |-> LET s == NthStart(t, k - 1) e == EndOf(t, s) IN
                     <<Off(t, s), Off(t, e), UnitsBetween(t, s, e)>>]
PosTable(t) == [i \in 1..(Len(t) + 1) |->
                  <<Off(t, i), Pos(t, i)[1], Pos(t, i)[2], IF InsideCrLf(t, i) THEN 1 ELSE 0>>]
Emit == PrintT(<<"CASE", ToJson([t |-> text, lines |-> LineTable(text), pos |-> PosTable(text)])>>)
=============================================================================
