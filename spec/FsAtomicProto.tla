---------------------------- MODULE FsAtomicProto ----------------------------
(* Hand-written update protocols (scripts of events) for the design-level check of FsAtomic, one target file
   "f" (original <<1,2,3>>, new content <<7,8>>).  FsAtomic (which EXTENDS this module and uses `All` as
   its script when no recording is given) explores each protocol with every Kill / WriteFault /
   power-loss point; the driver asserts the expected verdicts on every run (a self-check of the
   model's discriminating power):

     InPlace        open(O_TRUNC); write; close                       violates InvKill
     TempRename     open(tmp,O_EXCL); write; fsync; close; rename      satisfies InvKill and InvPower
     TempNoSync     open(tmp,O_EXCL); write; close; rename             satisfies InvKill, violates InvPower
     UnlinkFirst    write tmp; fsync; unlink f; rename                violates InvKill (f missing)
     RenameOpen     open(tmp); rename; write; close                   violates InvKill
   and on a target with a second hard link "g" / in a read-only directory:
     HardInPlace    open(f,O_TRUNC); write; close                     violates InvKill for f AND g (shared inode)
     HardTempRename TempRename on f                                   satisfies both (g keeps the original)
     RoDirTemp      open(d/tmp,O_EXCL) fails (predicted); exit        satisfies both                *)
EXTENDS Naturals, Sequences

Orig == <<1, 2, 3>>
New == <<7, 8>>
File(n, ino) == [name |-> n, orig |-> Orig, fmt |-> New, target |-> TRUE, ino |-> ino, link |-> "", ro |-> FALSE]
Reset == [op |-> "reset", run |-> 1, files |-> <<File("f", 1)>>, rodirs |-> <<>>]
ResetHard == [op |-> "reset", run |-> 1, files |-> <<File("f", 1), File("g", 1)>>, rodirs |-> <<>>]
ResetRoDir == [op |-> "reset", run |-> 1, files |-> <<File("d/f", 1)>>, rodirs |-> <<"d">>]
Open(n, fd, creat, trunc, excl) == [op |-> "open", name |-> n, fd |-> fd, creat |-> creat, trunc |-> trunc,
                                    excl |-> excl, wr |-> TRUE, append |-> FALSE, ok |-> TRUE, dir |-> ""]
Write(fd) == [op |-> "write", fd |-> fd, data |-> New, ret |-> Len(New)]
Close(fd) == [op |-> "close", fd |-> fd]
Fsync(fd) == [op |-> "fsync", fd |-> fd]
Rename(a, b) == [op |-> "rename", from |-> a, to |-> b, ok |-> TRUE, fromdir |-> "", todir |-> ""]
Unlink(a) == [op |-> "unlink", name |-> a, ok |-> TRUE, dir |-> ""]
Exit == [op |-> "exit"]

InPlace     == <<Reset, Open("f", 3, TRUE, TRUE, FALSE), Write(3), Close(3), Exit>>
TempRename  == <<Reset, Open("t", 3, TRUE, FALSE, TRUE), Write(3), Fsync(3), Close(3), Rename("t", "f"), Exit>>
TempNoSync  == <<Reset, Open("t", 3, TRUE, FALSE, TRUE), Write(3), Close(3), Rename("t", "f"), Exit>>
UnlinkFirst == <<Reset, Open("t", 3, TRUE, FALSE, TRUE), Write(3), Fsync(3), Close(3), Unlink("f"),
                 Rename("t", "f"), Exit>>
RenameOpen  == <<Reset, Open("t", 3, TRUE, FALSE, TRUE), Rename("t", "f"), Write(3), Fsync(3), Close(3), Exit>>

HardInPlace == <<ResetHard, Open("f", 3, TRUE, TRUE, FALSE), Write(3), Close(3), Exit>>
HardTempRename == <<ResetHard, Open("t", 3, TRUE, FALSE, TRUE), Write(3), Fsync(3), Close(3), Rename("t", "f"), Exit>>
RoDirTemp == <<ResetRoDir, [Open("d/t", 0, TRUE, FALSE, TRUE) EXCEPT !.ok = FALSE, !.dir = "d"], Exit>>

\* all of them in one script (run ids 1..5), verdicts read from the RUN / CASE lines by the driver
WithRun(sc, r) == [i \in DOMAIN sc |-> IF i = 1 THEN [sc[i] EXCEPT !.run = r] ELSE sc[i]]
All == WithRun(InPlace, 1) \o WithRun(TempRename, 2) \o WithRun(TempNoSync, 3) \o WithRun(UnlinkFirst, 4)
       \o WithRun(RenameOpen, 5) \o WithRun(HardInPlace, 6) \o WithRun(HardTempRename, 7) \o WithRun(RoDirTemp, 8)
=============================================================================
