------------------------------- MODULE TypeLaws -------------------------------
(* C16, first half: instances of the subtyping LAWS the property states, over annotation types of
   depth <= 2.  Every instance is <<law, expected-type S, value-type V>> and the law says
   "a value of type V is accepted where S is expected" (check_type_compact(S, V) is Ok).

     refl      S = V = T                                  for every T of the universe
     top       S \in {any, unknown}, V = T
     member    S = a union / optional U, V = a member of U (incl. nil for optionals)
     ancestor  S = ref to an ancestor of class c, V = ref to c   (ancestors = transitive closure)

   Only these laws are oracles; no general subtype relation is specified.
   TLC enumerates one initial state per instance and prints it (Emit); the harness replays each
   instance into the real checker.  Sanity invariants of the specification itself: WellFormed. *)
EXTENDS TypeAlgebra, Json

CONSTANTS AtomNames,     \* names of the depth-0 terms used as main children
          SibNames,      \* names of the depth-0 terms used as siblings in binary constructors
          KeyNames,      \* key types of table<K, V>
          RecShapes,     \* record shapes used
          Depth2Kinds,   \* kinds of depth-1 terms that are nested once more
          WrapNames      \* siblings used to wrap depth-2 terms into a union (member law)

VARIABLE c

Atom(n) == IF n \in {"nil", "boolean", "integer", "number", "string", "table"} THEN Prim(n)
           ELSE IF n \in {"true", "false", "1", "2", "'s'", "'t'"} THEN Lit(n)
           ELSE Ref(n)
A0 == {Atom(n) : n \in AtomNames}
R0 == {Atom(n) : n \in SibNames}
K0 == {Atom(n) : n \in KeyNames}

Plain(t) == Kind(t) \notin {"union", "opt"}
\* constructors over main-child pool S and sibling pool R
Cons(S, R) ==
  {Un(<<a, b>>) : a \in {x \in S : Plain(x)}, b \in {x \in R : Plain(x)}} \cup
  {Un(<<b, a>>) : a \in {x \in S : Plain(x)}, b \in {x \in R : Plain(x)}} \cup
  {Un(<<a, b, TNil>>) : a \in {x \in S : Plain(x) /\ x # TNil}, b \in {x \in R : Plain(x) /\ x # TNil}} \cup
  {Opt(a) : a \in {x \in S : Kind(x) # "opt" /\ x # TNil}} \cup
  {Arr(a) : a \in S} \cup
  {Tup(<<a>>) : a \in S} \cup {Tup(<<a, b>>) : a \in S, b \in R} \cup
  {Map(k, a) : k \in K0, a \in S} \cup
  {Rec(s, <<a>>) : s \in RecShapes \cap {"x", "x?"}, a \in S} \cup
  {Rec(s, <<a, b>>) : s \in RecShapes \cap {"x,y", "x,y?"}, a \in S, b \in R} \cup
  {Fun(a, b) : a \in S, b \in R} \cup {Fun(b, a) : a \in S, b \in R} \cup {Fun0(a) : a \in S} \cup
  {Gen("G", <<a>>) : a \in S}

NoDupUnion(t) == Kind(t) # "union" \/ \A i, j \in 1..Len(Kids(t)) : i # j => Kids(t)[i] # Kids(t)[j]
D1 == {t \in Cons(A0, R0) : NoDupUnion(t)}
D2 == {t \in Cons({x \in D1 : Kind(x) \in Depth2Kinds}, R0) : NoDupUnion(t)}
Types == A0 \cup D1 \cup D2
\* unions whose members are depth-2 terms (used by the member law only)
Wrap == {Un(<<a, b>>) : a \in {x \in D2 : Plain(x)}, b \in {Atom(n) : n \in WrapNames}}

Members(u) == IF Kind(u) = "union" THEN {Kids(u)[i] : i \in 1..Len(Kids(u))}
              ELSE IF Kind(u) = "opt"
                   THEN {TNil, Kids(u)[1]} \cup (IF Kind(Kids(u)[1]) = "union"
                                                THEN {Kids(Kids(u)[1])[i] : i \in 1..Len(Kids(Kids(u)[1]))}
                                                ELSE {})
              ELSE {}

\* A subject is one state of the enumeration; the laws that apply to it are listed in the emitted record.
\*   <<"type", T>>   refl (T, T); top (any, T), (unknown, T); member (T, m) for every m \in Members(T)
\*   <<"wrap", U>>   member (U, m) only (U is a union of a depth-2 term and a sibling)
\*   <<"class", Ref(k)>>  ancestor (a, k) for every proper ancestor a of k
Subjects == {<<"type", t>> : t \in Types} \cup {<<"wrap", u>> : u \in Wrap} \cup {<<"class", Ref(k)>> : k \in Classes}

Init == c \in Subjects
Next == UNCHANGED c
Spec == Init /\ [][Next]_c

\* ---- sanity of the specification itself
RECURSIVE WF(_)
WF(t) ==
  /\ Kind(t) \in {"prim", "lit", "ref", "union", "opt", "arr", "tup", "map", "rec", "fun", "fun0", "gen"}
  /\ \A i \in 1..Len(Kids(t)) : WF(Kids(t)[i])
  /\ Kind(t) = "union" => Len(Kids(t)) >= 2 /\ \A i \in 1..Len(Kids(t)) : Plain(Kids(t)[i])
  /\ Kind(t) = "opt" => Kids(t)[1] # TNil /\ Kind(Kids(t)[1]) # "opt"
  /\ Kind(t) = "rec" => Len(Kids(t)) = Len(RecShape(Name(t)))
WellFormed == WF(c[2])
\* the class chain really is a chain: the reference closure is transitive and irreflexive
ASSUME ChainOk == \A k \in Classes : k \notin Ancestors(k) /\ \A a \in Ancestors(k) : Ancestors(a) \subseteq Ancestors(k)

Desc(t) == [s |-> Syn(t), v |-> Variant(t), k |-> Skel(t)]
SetToSeq(S) == CHOOSE f \in [1..Cardinality(S) -> S] : \A i, j \in 1..Cardinality(S) : i # j => f[i] # f[j]
Emit == PrintT(<<"CASE", ToJson(
   [subject |-> c[1], t |-> Desc(c[2]),
    refl |-> c[1] = "type", top |-> IF c[1] = "type" THEN <<Desc(TAny), Desc(TUnknown)>> ELSE <<>>,
    members |-> IF c[1] = "class" THEN <<>> ELSE [i \in 1..Cardinality(Members(c[2])) |-> Desc(SetToSeq(Members(c[2]))[i])],
    ancestors |-> IF c[1] = "class" THEN [i \in 1..Cardinality(Ancestors(Name(c[2]))) |-> Desc(Ref(SetToSeq(Ancestors(Name(c[2])))[i]))] ELSE <<>>])>>)
ASSUME PrintT(<<"WORLD", ToJson(WorldDecl)>>)
\* Not laws: pairs the checker is expected to REJECT.  Used only as a self-check that the replay can observe
\* a rejection at all (a checker that accepts everything satisfies every law above vacuously).
ASSUME PrintT(<<"CONTROL", ToJson(<< <<Desc(Prim("string")), Desc(Prim("integer"))>>,
                                    <<Desc(Prim("nil")), Desc(Prim("integer"))>>,
                                    <<Desc(Ref("A")), Desc(Ref("E"))>>,
                                    <<Desc(Arr(Prim("string"))), Desc(Arr(Prim("boolean")))>> >>)>>)
===============================================================================
