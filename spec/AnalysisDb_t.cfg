SPECIFICATION Spec
CONSTANTS
  NPaths = 3
  Contents = {"ClsDoc", "ClsPlain", "ClsField", "UseFoo", "ClsDoc2", "GInt"}
  Ops = {"update", "reindex"}
  MaxSteps = 4
  EditDist = 1
  Batch = FALSE
  EmitSel = "same"
VIEW View
INVARIANTS ReindexIsIdeal NoLeak C08_Model Emit
