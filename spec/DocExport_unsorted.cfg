SPECIFICATION Spec
CONSTANTS
  AlphaA = {"CF", "EN"}
  AlphaB = {"GA", "CB"}
  AlphaC = {"GT"}
  AlphaL = {"LC", "GA"}
  SortsBeforeExport = FALSE
  TwoRuns = TRUE
INVARIANTS ExactlyOnce Reproducible
