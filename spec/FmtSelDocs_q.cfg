SPECIFICATION Spec
CONSTANTS
  Forms = {"esc-dq", "esc-sq-two", "esc-z", "esc-call", "esc-call-noparen", "esc-table", "esc-return", "long0", "long1", "cmt0", "cmt2", "cmt-trailing"}
  Conts = {"0", "6"}
  Wraps = {"if-4", "if-0", "nest-2"}
  Breaks = {"LF", "CRLF"}
  CrForms = {"esc-dq", "long0"}
  CfgNames = {"s4"}
INVARIANT Emit
