SPECIFICATION Spec
CONSTANTS MaxStmts = 2
INVARIANTS Emit
