SPECIFICATION Spec
VIEW view
CONSTANTS
  Uris = {"u1"}
  Texts = {"t1","t2"}
  MaxMsgs = 4
  MsgKinds = {"open","change","close"}
  MaxCfg = 0
  MaxDisk = 0
  OnDisk = {}
  InlineOpen = TRUE
  InlineChange = TRUE
  InlineClose = TRUE
INVARIANTS Emit
