SPECIFICATION Spec
CONSTANTS
  Variant = "pinned"
  Tokens = {"~", "/", "a", "e2"}
  MaxLen = 3
  LongHeads = {"~", "/", "a", "e2"}
  EmitCases = FALSE
INVARIANTS NoCrash
