\* generator, thorough: programs of <= 3 library lines, every 12th (structural hash) printed
SPECIFICATION Spec
CONSTANTS
  MaxLines = 3
  EmitMod = 12
  Mode = "gen"
  WithErr = FALSE
INVARIANTS EmitGen
