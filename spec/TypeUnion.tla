------------------------------ MODULE TypeUnion ------------------------------
(* C16, second half: "unioning a batch of types gives the same result as unioning them one at a time".

   Transcription of crates/emmylua_code_analysis/src/db_index/type/type_ops/union_type.rs
   (union_type, union_type_impl arm by arm in source order, canonicalize_callable_union, union_type_all,
   can_use_structural_union) and of the two normalisers it relies on (LuaType::from_vec in
   types/predicates.rs, LuaUnionType::from_vec / into_vec / == in types/complex.rs), over a universe of
   NAMED type values.

   Values:  <<"a", name, <<>>>>                          a non-union type, identified by its name
            <<"basic" | "nullable" | "multi", "", ns>>   LuaType::Union(Basic | Nullable | Multi), ns = member names

   Two facts about the real LuaType matter and are modelled explicitly:
     * `==` is structural.  A name is one allocation (Arc); Eqc maps a name to its structural-equality class
       (tg2 is a second, separately built, structurally equal copy of tg).  Vec::contains / `==` steps work
       on Eqc.  HashSet-based steps (from_vec's de-duplication, Multi == Multi) work on HashId: the name
       when Hash is the Arc pointer (ArcPointerHash, the tree before fix a343492, where TLC finds
       UnionAll(<<tg, tg2>>) # Fold(<<tg, tg2>>)), the equality class now that Hash is derived from contents.
     * union_type matches on get_real_type(source): an alias reference is replaced by its origin for
       matching only (Real).

   TLC checks FastPathAgrees: UnionAll(batch) == Fold(batch) for every batch (one initial state per batch),
   and prints every batch with both expected results for replay into TypeOps::union_all and a fold of
   TypeOps::Union.apply.  *)
EXTENDS Naturals, Sequences, FiniteSets, TLC, Json

CONSTANTS Full,      \* names used in batches of length <= SmallLen
          Core,      \* names used in longer batches
          SmallLen, MaxLen,
          ArcPointerHash, \* TRUE: LuaType's Hash of Arc-held variants is the pointer (the tree before fix a343492);
                          \* FALSE: Hash is derived from the contents, consistent with == (current tree)
          Waive      \* set of waiver ids: known findings for which FastPathAgrees is not demanded

VARIABLE b

\* ---- the universe: name -> [var, val, eqc, src]; src = how the harness builds it ("ty" annotation / "expr")
Info(n) ==
  CASE n = "nil" -> [var |-> "Nil", val |-> "", src |-> <<"ty", "nil">>]
    [] n = "any" -> [var |-> "Any", val |-> "", src |-> <<"ty", "any">>]
    [] n = "never" -> [var |-> "Never", val |-> "", src |-> <<"ty", "never">>]
    [] n = "unknown" -> [var |-> "Unknown", val |-> "", src |-> <<"ty", "unknown">>]
    [] n = "boolean" -> [var |-> "Boolean", val |-> "", src |-> <<"ty", "boolean">>]
    [] n = "integer" -> [var |-> "Integer", val |-> "", src |-> <<"ty", "integer">>]
    [] n = "number" -> [var |-> "Number", val |-> "", src |-> <<"ty", "number">>]
    [] n = "string" -> [var |-> "String", val |-> "", src |-> <<"ty", "string">>]
    [] n = "table" -> [var |-> "Table", val |-> "", src |-> <<"elem", "table">>]
    [] n = "function" -> [var |-> "Function", val |-> "", src |-> <<"ty", "function">>]
    [] n = "dtrue" -> [var |-> "DocBooleanConst", val |-> "true", src |-> <<"ty", "true">>]
    [] n = "dfalse" -> [var |-> "DocBooleanConst", val |-> "false", src |-> <<"ty", "false">>]
    [] n = "ctrue" -> [var |-> "BooleanConst", val |-> "true", src |-> <<"expr", "true">>]
    [] n = "cfalse" -> [var |-> "BooleanConst", val |-> "false", src |-> <<"expr", "false">>]
    [] n = "d1" -> [var |-> "DocIntegerConst", val |-> "1", src |-> <<"ty", "1">>]
    [] n = "d2" -> [var |-> "DocIntegerConst", val |-> "2", src |-> <<"ty", "2">>]
    [] n = "c1" -> [var |-> "IntegerConst", val |-> "1", src |-> <<"expr", "1">>]
    [] n = "c2" -> [var |-> "IntegerConst", val |-> "2", src |-> <<"expr", "2">>]
    [] n = "f15" -> [var |-> "FloatConst", val |-> "1.5", src |-> <<"expr", "1.5">>]
    [] n = "ds" -> [var |-> "DocStringConst", val |-> "s", src |-> <<"ty", "'s'">>]
    [] n = "dt" -> [var |-> "DocStringConst", val |-> "t", src |-> <<"ty", "'t'">>]
    [] n = "cs" -> [var |-> "StringConst", val |-> "s", src |-> <<"expr", "'s'">>]
    [] n = "ct" -> [var |-> "StringConst", val |-> "t", src |-> <<"expr", "'t'">>]
    [] n = "tc1" -> [var |-> "TableConst", val |-> "1", src |-> <<"expr", "{}">>]
    [] n = "tc2" -> [var |-> "TableConst", val |-> "2", src |-> <<"expr", "{ }">>]
    [] n = "df" -> [var |-> "DocFunction", val |-> "1", src |-> <<"ty", "fun()">>]
    [] n = "df2" -> [var |-> "DocFunction", val |-> "2", src |-> <<"ty", "fun(x: integer)">>]
    [] n = "A" -> [var |-> "Ref", val |-> "A", src |-> <<"ty", "A">>]
    [] n = "B" -> [var |-> "Ref", val |-> "B", src |-> <<"ty", "B">>]
    [] n = "Al" -> [var |-> "Ref", val |-> "Al", src |-> <<"ty", "Al">>]     \* ---@alias Al integer
    [] n = "Au" -> [var |-> "Ref", val |-> "Au", src |-> <<"ty", "Au">>]     \* ---@alias Au integer|string
    [] n = "arr" -> [var |-> "Array", val |-> "", src |-> <<"ty", "integer[]">>]
    [] n = "tg" -> [var |-> "TableGeneric", val |-> "", src |-> <<"ty", "table<string, integer>">>]
    [] n = "tg2" -> [var |-> "TableGeneric", val |-> "", src |-> <<"ty", "table<string, integer>">>]
    [] n = "ob" -> [var |-> "Object", val |-> "", src |-> <<"ty", "{ x: integer }">>]
    [] n = "ob2" -> [var |-> "Object", val |-> "", src |-> <<"ty", "{ x: integer }">>]
    \* union-valued batch elements (their value is UVal below)
    [] n = "Uis" -> [var |-> "Union", val |-> "", src |-> <<"ty", "integer|string">>]
    [] n = "Uds" -> [var |-> "Union", val |-> "", src |-> <<"ty", "'s'?">>]
    [] n = "Um" -> [var |-> "Union", val |-> "", src |-> <<"ty", "'s'|integer|A">>]
AllNames == {"nil", "any", "never", "unknown", "boolean", "integer", "number", "string", "table", "function",
             "dtrue", "dfalse", "ctrue", "cfalse", "d1", "d2", "c1", "c2", "f15", "ds", "dt", "cs", "ct", "tc1", "tc2",
             "df", "df2", "A", "B", "Al", "Au", "arr", "tg", "tg2", "ob", "ob2", "Uis", "Uds", "Um"}
ASSUME Full \cup Core \subseteq AllNames
VarTab == [n \in AllNames |-> Info(n).var]     \* evaluated once
ValTab == [n \in AllNames |-> Info(n).val]
Var(n) == VarTab[n]
Eqc(n) == CASE n = "tg2" -> "tg" [] n = "ob2" -> "ob" [] OTHER -> n
EqN(n, m) == Eqc(n) = Eqc(m)
HashId(n) == IF ArcPointerHash THEN n ELSE Eqc(n)

V(n) == <<"a", n, <<>>>>
IsU(v) == v[1] # "a"
\* the value denoted by a universe name
Val(n) == CASE n = "Uis" -> <<"basic", "", <<"string", "integer">>>>
            [] n = "Uds" -> <<"nullable", "", <<"ds">>>>
            [] n = "Um" -> <<"multi", "", <<"ds", "integer", "A">>>>
            [] OTHER -> V(n)
\* get_real_type: alias references are looked through (for matching only)
Real(v) == IF IsU(v) THEN v
           ELSE CASE v[2] = "Al" -> V("integer") [] v[2] = "Au" -> Val("Uis") [] OTHER -> v

\* ---- BasicTypeKind (bit order = declaration order, restricted to the universe)
BitOrder == <<"unknown", "any", "nil", "table", "function", "boolean", "string", "integer", "number", "never">>
IsBasic(n) == \E i \in 1..Len(BitOrder) : BitOrder[i] = n
SelectSeq2(s, S) == SelectSeq(s, LAMBDA x : x \in S)
Range(s) == {s[i] : i \in 1..Len(s)}

\* ---- LuaUnionType::from_vec / into_vec
FirstNonNil(ns) == ns[CHOOSE i \in 1..Len(ns) : ns[i] # "nil" /\ \A j \in 1..(i - 1) : ns[j] = "nil"]
UFromVec(ns) ==
  IF \A i \in 1..Len(ns) : IsBasic(ns[i]) THEN <<"basic", "", SelectSeq2(BitOrder, Range(ns))>>
  ELSE IF Len(ns) = 2 /\ "nil" \in Range(ns) /\ (\E i \in 1..2 : ns[i] # "nil")
       THEN <<"nullable", "", <<FirstNonNil(ns)>>>>
  ELSE <<"multi", "", ns>>
IntoVec(u) == IF u[1] = "nullable" THEN <<u[3][1], "nil">> ELSE u[3]
Names(v) == IF IsU(v) THEN IntoVec(v) ELSE <<v[2]>>

\* ---- LuaType::from_vec: flatten unions, de-duplicate with a HashSet (pointer identity for Arc-hashed
\*      kinds = name identity), rebuild
RECURSIVE Flatten(_), DedupId(_, _)
Flatten(vs) == IF vs = <<>> THEN <<>> ELSE Names(Head(vs)) \o Flatten(Tail(vs))
DedupId(ns, seen) == IF ns = <<>> THEN <<>>
                     ELSE IF HashId(Head(ns)) \in seen THEN DedupId(Tail(ns), seen)
                     ELSE <<Head(ns)>> \o DedupId(Tail(ns), seen \cup {HashId(Head(ns))})
FromVec(vs) ==
  IF Len(vs) = 0 THEN V("nil")
  ELSE IF Len(vs) = 1 THEN vs[1]
  ELSE LET r == DedupId(Flatten(vs), {}) IN
       IF Len(r) = 0 THEN V("nil") ELSE IF Len(r) = 1 THEN V(r[1]) ELSE UFromVec(r)

\* ---- LuaType == (structural; Multi == Multi goes through a HashSet of references)
NoDupSeq(s) == \A i, j \in 1..Len(s) : i # j => HashId(s[i]) # HashId(s[j])
HRange(s) == {HashId(s[i]) : i \in 1..Len(s)}
EqV(x, y) ==
  IF ~IsU(x) /\ ~IsU(y) THEN EqN(x[2], y[2])
  ELSE IF x[1] # y[1] THEN FALSE
  ELSE CASE x[1] = "basic" -> Range(x[3]) = Range(y[3])
         [] x[1] = "nullable" -> EqN(x[3][1], y[3][1])
         [] x[1] = "multi" -> Len(x[3]) = Len(y[3]) /\ NoDupSeq(y[3]) /\ HRange(x[3]) = HRange(y[3])
ContainsEq(ns, n) == \E i \in 1..Len(ns) : EqN(ns[i], n)

IsNumberVar(n) == Var(n) \in {"Number", "Integer", "IntegerConst", "DocIntegerConst", "FloatConst"}
IsBooleanVar(n) == Var(n) \in {"Boolean", "BooleanConst", "DocBooleanConst"}
IsBoolConst(n) == Var(n) \in {"BooleanConst", "DocBooleanConst"}

\* ---- union_type_impl(match_source, source, target): the match arms in source order
UnionImpl(ms, s, t) ==
  LET atoms == ~IsU(ms) /\ ~IsU(t)
      m == ms[2]
      r == t[2]
  IN
  IF ~IsU(ms) /\ m = "any" THEN V("any")
  ELSE IF ~IsU(t) /\ r = "any" THEN V("any")
  ELSE IF ~IsU(ms) /\ m = "never" THEN t
  ELSE IF ~IsU(t) /\ r = "never" THEN s
  ELSE IF atoms /\ Var(m) = "Integer" /\ Var(r) \in {"IntegerConst", "DocIntegerConst"} THEN V("integer")
  ELSE IF atoms /\ Var(m) \in {"IntegerConst", "DocIntegerConst"} /\ Var(r) = "Integer" THEN V("integer")
  ELSE IF atoms /\ Var(m) = "Number" /\ IsNumberVar(r) THEN V("number")
  ELSE IF atoms /\ IsNumberVar(m) /\ Var(r) = "Number" THEN V("number")
  ELSE IF atoms /\ Var(m) = "String" /\ Var(r) \in {"StringConst", "DocStringConst"} THEN V("string")
  ELSE IF atoms /\ Var(m) \in {"StringConst", "DocStringConst"} /\ Var(r) = "String" THEN V("string")
  ELSE IF atoms /\ Var(m) = "Boolean" /\ IsBooleanVar(r) THEN V("boolean")
  ELSE IF atoms /\ IsBooleanVar(m) /\ Var(r) = "Boolean" THEN V("boolean")
  ELSE IF atoms /\ IsBoolConst(m) /\ IsBoolConst(r)
       THEN (IF ValTab[m] = ValTab[r] THEN s ELSE V("boolean"))
  ELSE IF atoms /\ Var(m) = "Table" /\ Var(r) = "TableConst" THEN V("table")
  ELSE IF atoms /\ Var(m) = "TableConst" /\ Var(r) = "Table" THEN V("table")
  ELSE IF atoms /\ Var(m) = "Function" /\ Var(r) = "DocFunction" THEN V("function")
  ELSE IF atoms /\ Var(m) = "DocFunction" /\ Var(r) = "Function" THEN V("function")
  ELSE IF atoms /\ Var(m) = "Ref" /\ Var(r) = "Ref"
       THEN (IF m = r THEN s ELSE FromVec(<<s, t>>))
  ELSE IF IsU(ms) /\ ~IsU(t)
       THEN (IF ContainsEq(IntoVec(ms), r) THEN s ELSE UFromVec(Append(IntoVec(ms), r)))
  ELSE IF ~IsU(ms) /\ IsU(t)
       THEN (IF ContainsEq(IntoVec(t), m) THEN t ELSE UFromVec(Append(IntoVec(t), s[2])))
  ELSE IF IsU(ms) /\ IsU(t)
       THEN (IF EqV(ms, t) THEN s ELSE FromVec(<<ms, t>>))
  ELSE IF EqV(ms, t) THEN s
  ELSE FromVec(<<s, t>>)

\* ---- canonicalize_callable_union
RECURSIVE DedupEq(_, _)
DedupEq(ns, acc) == IF ns = <<>> THEN acc
                    ELSE IF ContainsEq(acc, Head(ns)) THEN DedupEq(Tail(ns), acc)
                    ELSE DedupEq(Tail(ns), Append(acc, Head(ns)))
VSeq(ns) == [i \in 1..Len(ns) |-> V(ns[i])]
Canon(v) ==
  IF ~IsU(v) THEN v
  ELSE LET ms == IntoVec(v) IN
       IF ~\E i \in 1..Len(ms) : Var(ms[i]) = "DocFunction" THEN FromVec(VSeq(ms))
       ELSE FromVec(VSeq(DedupEq(ms, <<>>)))

UnionType(s, t) == Canon(UnionImpl(Real(s), s, t))

RECURSIVE FoldFrom(_, _)
FoldFrom(acc, vs) == IF vs = <<>> THEN acc ELSE FoldFrom(UnionType(acc, Head(vs)), Tail(vs))
Fold(vs) == FoldFrom(V("never"), vs)

\* ---- can_use_structural_union: the flag scan, element by element, with the early exits of the code
RECURSIVE Scan(_, _)
Scan(vs, f) ==
  IF vs = <<>> THEN TRUE
  ELSE LET v == Head(vs) IN
    IF IsU(v) \/ Var(v[2]) \in {"Ref", "DocFunction"} THEN FALSE
    ELSE LET x == Var(v[2])
             g == [f EXCEPT
                    !.number = @ \/ x = "Number",
                    !.numvar = @ \/ x \in {"Integer", "IntegerConst", "FloatConst", "DocIntegerConst"},
                    !.integer = @ \/ x = "Integer",
                    !.intconst = @ \/ x \in {"IntegerConst", "DocIntegerConst"},
                    !.string = @ \/ x = "String",
                    !.strconst = @ \/ x \in {"StringConst", "DocStringConst"},
                    !.boolean = @ \/ x = "Boolean",
                    !.boolconsts = @ + (IF x \in {"BooleanConst", "DocBooleanConst"} THEN 1 ELSE 0),
                    !.table = @ \/ x = "Table",
                    !.tableconst = @ \/ x = "TableConst"]
         IN IF \/ g.number /\ g.numvar
               \/ g.integer /\ g.intconst
               \/ g.string /\ g.strconst
               \/ g.boolean /\ g.boolconsts > 0
               \/ g.boolconsts > 1
               \/ g.table /\ g.tableconst
            THEN FALSE
            ELSE Scan(Tail(vs), g)
CanStruct(vs) == Scan(vs, [number |-> FALSE, numvar |-> FALSE, integer |-> FALSE, intconst |-> FALSE,
                           string |-> FALSE, strconst |-> FALSE, boolean |-> FALSE, boolconsts |-> 0,
                           table |-> FALSE, tableconst |-> FALSE])

\* ---- union_type_all
UnionAll(vs) ==
  LET kept == SelectSeq(vs, LAMBDA v : ~(~IsU(v) /\ v[2] = "never")) IN
  IF \E i \in 1..Len(vs) : ~IsU(vs[i]) /\ vs[i][2] = "any" THEN V("any")
  ELSE IF kept = <<>> THEN V("never")
  ELSE IF CanStruct(kept) THEN FromVec(kept)
  ELSE Fold(kept)

\* ---- state space: one initial state per batch of names
U(n) == IF n <= SmallLen THEN Full ELSE Core
Batches == UNION {[1..n -> U(n)] : n \in 0..MaxLen}
Init == b \in Batches
Next == UNCHANGED b
Spec == Init /\ [][Next]_b

Vals(bs) == [i \in 1..Len(bs) |-> Val(bs[i])]

\* Waiver predicate (unused on the current tree, Waive = {}): two structurally equal but separately
\* allocated types (tg/tg2, ob/ob2) in one batch.  With ArcPointerHash the structural path de-duplicates
\* by pointer, the fold by ==.
KF1(bs) == \E i, j \in 1..Len(bs) : bs[i] # bs[j] /\ EqN(bs[i], bs[j])
Waived(bs) == "KF1" \in Waive /\ KF1(bs)

\* both results of one batch, computed once
Res(bs) == LET vs == Vals(bs)
               all == UnionAll(vs)
               fold == Fold(vs)
           IN [all |-> all, fold |-> fold, agree |-> EqV(all, fold),
               fast |-> CanStruct(SelectSeq(vs, LAMBDA v : ~(~IsU(v) /\ v[2] = "never")))]

FastPathAgrees == Waived(b) \/ Res(b).agree
\* when the fast path is taken, no batch element is a union, a reference or a callable (the early exits)
FastPathMeaningful == Res(b).fast => \A i \in 1..Len(b) : Var(b[i]) \notin {"Union", "Ref", "DocFunction"}

D(v) == [k |-> v[1], n |-> v[2], m |-> v[3]]
Emit == LET r == Res(b) IN
        PrintT(<<"CASE", ToJson([b |-> b, all |-> D(r.all), fold |-> D(r.fold), fast |-> r.fast,
                                 agree |-> r.agree, waived |-> Waived(b)])>>)
ASSUME PrintT(<<"WORLD", ToJson([classes |-> [A |-> <<>>, B |-> <<>>],
                                 alias |-> [Al |-> "integer", Au |-> "integer|string"]])>>)
ASSUME PrintT(<<"UNIVERSE", ToJson([n \in Full \cup Core |-> [src |-> Info(n).src, val |-> D(Val(n)), eqc |-> Eqc(n)]])>>)
=============================================================================
