SPECIFICATION Spec
CONSTANTS
  K = 3
  TokSel = "ends"
  RangeTokSel = "mid"
INVARIANTS ClassesOK Emit
