SPECIFICATION Spec
CONSTANTS
  K = 3
  TokSel = "ends"
  RangeTokSel = "mid"
  QuadTokSel = "mid"
  SecClasses = {"docStart", "tokStart", "lastPlus", "max"}
  ListMax = 3
INVARIANTS ClassesOK ShapeOK Emit
