SPECIFICATION Spec
CONSTANTS
  K = 2
  Greedy = TRUE
VIEW view
INVARIANTS EmitBlocked NoReacquireEmit
