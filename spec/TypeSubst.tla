------------------------------- MODULE TypeSubst -------------------------------
(* C18: a call of a generic function returns the declared return type with the argument types
   substituted for the type parameters.

   A TEMPLATE is a generic signature <<name, params, ret>> whose parameter and return types are terms
   that may contain type parameters <<"tpl", "T", <<>>>>.  Match is the reference matcher (first-order
   pattern matching of a parameter type against an argument type), Apply the substitution.

     Match(p, a):   p = T                 T := a
                    p = q[]   a = b[]     Match(q, b)
                    p = table<q1, q2>, a = table<b1, b2>     Match(q1, b1) and Match(q2, b2)
                    p = q?    any a                          Match(q, a)
                       (`q?` is the union pattern q|nil: every member of a union pattern is matched against
                        the WHOLE argument and the nil member binds nothing -- union_tpl_pattern_match; so
                        `fun(x: T?): T` called with an `X?` argument instantiates T := X?, the argument's type,
                        which is what "substituting the argument types" says; stripping the argument's nil
                        (T := X) would be a different, narrower answer)
                    p = fun(): q,  a = fun(): b              Match(q, b)
                    anything else (different shape, e.g. an optional / union argument for q[] or
                    table<q1, q2>; a parameter bound twice to different types)  is AMBIGUOUS: the reference
                    has no unique answer, not judged.

   Literal widening (crates/emmylua_code_analysis/src/semantic/generic/widening.rs): a type parameter
   bound to a bare literal type is instantiated with the literal's base type (1 -> integer, 's' -> string,
   true -> boolean); literals nested inside the bound type are kept.

   TLC enumerates template x argument tuple, checks sanity laws of the reference (Closed: the expected
   return type contains no type parameter; IdLaw: the identity template returns the widened argument), and
   prints each case with the declaration, the argument types and the normal form of the expected return
   type for replay (`local r = f(a1, ..)` in a VirtualWorkspace).  *)
EXTENDS TypeAlgebra, Json

CONSTANTS AtomNames, SibNames, KeyNames, ArgKinds, TemplateNames,
          Depth3From,    \* kinds of depth-2 argument types nested once more ...
          Depth3Cons,    \* ... by these constructors (nested arrays of optionals, table<K, V?[]>, ..)
          UnionOfContainers, \* BOOLEAN: also unions of arrays / of tables (and with nil, and mixed) as arguments
          SecondArgKinds \* kinds of constructed types also used as the second argument of two-parameter templates

VARIABLE c

T == Tpl("T")
K == Tpl("K")
V == Tpl("V")

Template(n) ==
  CASE n = "id" -> <<"id", <<T>>, T>>                                  \* fun(x: T): T
    [] n = "elem" -> <<"elem", <<Arr(T)>>, T>>                         \* T[] -> T
    [] n = "wrap" -> <<"wrap", <<T>>, Arr(T)>>                         \* T -> T[]
    [] n = "mk" -> <<"mk", <<K, V>>, Map(K, V)>>                       \* (K, V) -> table<K, V>
    [] n = "val" -> <<"val", <<Map(K, V)>>, V>>                        \* table<K, V> -> V
    [] n = "key" -> <<"key", <<Map(K, V)>>, K>>                        \* table<K, V> -> K
    [] n = "unopt" -> <<"unopt", <<Opt(T)>>, T>>                       \* T? -> T
    [] n = "call" -> <<"call", <<Fun0(T)>>, T>>                        \* (fun(): T) -> T
    [] n = "pair" -> <<"pair", <<K, V>>, Tup(<<K, V>>)>>               \* (K, V) -> [K, V]
    [] n = "same" -> <<"same", <<T, T>>, T>>                           \* (T, T) -> T
    [] n = "swap" -> <<"swap", <<Map(K, V)>>, Map(V, K)>>              \* table<K, V> -> table<V, K>
    [] n = "nest" -> <<"nest", <<Arr(Arr(T))>>, Arr(T)>>               \* T[][] -> T[]
    [] n = "optarr" -> <<"optarr", <<Arr(T)>>, Opt(T)>>                \* T[] -> T?
    [] n = "optid" -> <<"optid", <<Opt(T)>>, Opt(T)>>                  \* T? -> T?
    [] n = "optwrap" -> <<"optwrap", <<Opt(T)>>, Arr(T)>>              \* T? -> T[]
    [] n = "optelem" -> <<"optelem", <<Arr(Opt(T))>>, T>>              \* (T?)[] -> T
    [] n = "optval" -> <<"optval", <<Map(K, Opt(V))>>, V>>             \* table<K, V?> -> V
    [] n = "unoptarr" -> <<"unoptarr", <<Opt(Arr(T))>>, T>>            \* T[]? -> T
    [] n = "mkopt" -> <<"mkopt", <<K, Opt(V)>>, Map(K, V)>>            \* (K, V?) -> table<K, V>

Atom(n) == IF n \in {"nil", "boolean", "integer", "number", "string", "table", "any"} THEN Prim(n)
           ELSE IF n \in LitIds THEN LitById(n)
           ELSE Ref(n)
A0 == {Atom(n) : n \in AtomNames}
R0 == {Atom(n) : n \in SibNames}
K0 == {Atom(n) : n \in KeyNames}
Plain(t) == Kind(t) \notin {"union", "opt"}
NoDup(s) == \A i, j \in 1..Len(s) : i # j => s[i] # s[j]
Cons(S, R) ==
  (IF "union" \in ArgKinds THEN
     {u \in {Un(<<a, b>>) : a \in {x \in S : Plain(x)}, b \in {x \in R : Plain(x)}} : NoDup(Kids(u))} ELSE {}) \cup
  (IF "opt" \in ArgKinds THEN {Opt(a) : a \in {x \in S : ~HasNil(x)}} ELSE {}) \cup
  (IF "arr" \in ArgKinds THEN {Arr(a) : a \in S} ELSE {}) \cup
  (IF "map" \in ArgKinds THEN {Map(k, a) : k \in K0, a \in S} ELSE {}) \cup
  (IF "rec" \in ArgKinds THEN {Rec("x", <<a>>) : a \in S} ELSE {}) \cup
  (IF "tup" \in ArgKinds THEN {Tup(<<a, b>>) : a \in S, b \in R} ELSE {}) \cup
  (IF "fun0" \in ArgKinds THEN {Fun0(a) : a \in S} ELSE {}) \cup
  (IF "gen" \in ArgKinds THEN {Gen("G", <<a>>) : a \in S} ELSE {})
D1 == Cons(A0, R0)
D2 == Cons(D1, R0)
D3 == LET S == {x \in D2 : Kind(x) \in Depth3From} IN
      (IF "opt" \in Depth3Cons THEN {Opt(a) : a \in {x \in S : ~HasNil(x)}} ELSE {}) \cup
      (IF "arr" \in Depth3Cons THEN {Arr(a) : a \in S} ELSE {}) \cup
      (IF "map" \in Depth3Cons THEN {Map(k, a) : k \in K0, a \in S} ELSE {})
\* UNION-OF-CONTAINERS arguments (second seeded round): `A[] | B[]`, `table<K1, A> | table<K2, B>` with different
\* element types (atoms and arrays), the same with nil (`(A[] | B[])?`), and a union of an array and a table
UE == {x \in A0 : x # TNil /\ Kind(x) \in {"prim", "lit"}} \cup {Ref("A")} \cup {Arr(Prim("integer"))}
UR == {x \in R0 : x # TNil} \cup {Arr(Prim("boolean"))}
UK == K0 \cup {Prim("integer")}
UArr == {Un(<<Arr(p[1]), Arr(p[2])>>) : p \in {q \in UE \X UR : q[1] # q[2]}}
UMap == {Un(<<Map(k1, p[1]), Map(k2, p[2])>>) : k1 \in K0, k2 \in UK, p \in {q \in UE \X UR : q[1] # q[2]}}
UMixed == {Un(<<Arr(a), Map(k, b)>>) : a \in {x \in R0 : x # TNil}, k \in K0, b \in UR}
UC == IF UnionOfContainers THEN UArr \cup UMap \cup UMixed \cup {Opt(u) : u \in UArr \cup UMap} ELSE {}
ArgTypes == A0 \cup D1 \cup D2 \cup D3 \cup UC

\* ---- reference matcher: result <<ok, bindings>>, bindings a set of <<param name, term>>
RECURSIVE Match(_, _), HasTpl(_)
HasTpl(p) == Kind(p) = "tpl" \/ \E i \in 1..Len(Kids(p)) : HasTpl(Kids(p)[i])
Both(r1, r2) == <<r1[1] /\ r2[1], r1[2] \cup r2[2]>>
\* a union argument all of whose members are containers of the pattern's shape is matched ELEMENT-WISE ("containers such
\* as T[] and table<K,V> are instantiated element-wise"): q[] against A[] | B[] is q against A | B, exactly as the analyser
\* does for a tuple argument ([A, B] is collapsed to A | B); every member contributes -- an answer that keeps one member's
\* element type and silently drops the others is wrong.  A union with nil or with a member of another shape stays ambiguous.
AllKind(a, k) == Kind(a) = "union" /\ \A i \in 1..Len(Kids(a)) : Kind(Kids(a)[i]) = k
RECURSIVE DedupSeq(_, _)
DedupSeq(s, seen) == IF s = <<>> THEN <<>>
                     ELSE IF Head(s) \in seen THEN DedupSeq(Tail(s), seen)
                     ELSE <<Head(s)>> \o DedupSeq(Tail(s), seen \cup {Head(s)})
RECURSIVE FlatKids(_, _, _)
FlatKids(a, j, i) == IF i > Len(Kids(a)) THEN <<>> ELSE UMembers(Kids(Kids(a)[i])[j]) \o FlatKids(a, j, i + 1)
\* the union of the j-th children of the members of the union a (flattened, duplicates removed, nil last as `t?`)
KidUnion(a, j) == LET ms == DedupSeq(FlatKids(a, j, 1), {})
                      nn == SelectSeq(ms, LAMBDA x : x # TNil) IN
                  IF Len(ms) = 1 THEN ms[1]
                  ELSE IF Len(nn) = Len(ms) THEN Un(ms)
                  ELSE IF Len(nn) = 1 THEN Opt(nn[1]) ELSE Opt(Un(nn))
Match(p, a) ==
  IF ~HasTpl(p) THEN <<TRUE, {}>>
  ELSE CASE Kind(p) = "tpl" -> <<TRUE, {<<Name(p), a>>}>>
         [] Kind(p) = "arr" -> IF Kind(a) = "arr" THEN Match(Kids(p)[1], Kids(a)[1])
                               ELSE IF AllKind(a, "arr") THEN Match(Kids(p)[1], KidUnion(a, 1))   \* element-wise
                               ELSE <<FALSE, {}>>
         [] Kind(p) = "map" -> IF Kind(a) = "map"
                               THEN Both(Match(Kids(p)[1], Kids(a)[1]), Match(Kids(p)[2], Kids(a)[2]))
                               ELSE IF AllKind(a, "map")
                               THEN Both(Match(Kids(p)[1], KidUnion(a, 1)), Match(Kids(p)[2], KidUnion(a, 2)))
                               ELSE <<FALSE, {}>>
         [] Kind(p) = "opt" -> Match(Kids(p)[1], a)      \* union pattern q|nil: q against the whole argument
         [] Kind(p) = "fun0" -> IF Kind(a) = "fun0" THEN Match(Kids(p)[1], Kids(a)[1]) ELSE <<FALSE, {}>>
         [] OTHER -> <<FALSE, {}>>
RECURSIVE MatchAll(_, _, _)
MatchAll(ps, as, i) == IF i > Len(ps) THEN <<TRUE, {}>> ELSE Both(Match(ps[i], as[i]), MatchAll(ps, as, i + 1))
Functional(bs) == \A x, y \in bs : x[1] = y[1] => x[2] = y[2]
RECURSIVE TplNames(_)
TplNames(p) == IF Kind(p) = "tpl" THEN {Name(p)} ELSE UNION {TplNames(Kids(p)[i]) : i \in 1..Len(Kids(p))}

\* literal widening of a bound type
Widen(a) == IF Kind(a) = "lit" THEN Prim(LitBase(Name(a))) ELSE a
\* t? of an instantiated t: a type that is already nullable stays as it is (X?? = X?, nil? = nil)
MkOpt(t) == IF HasNil(t) THEN t ELSE Opt(t)
RECURSIVE Apply(_, _)
Apply(t, bs) == IF Kind(t) = "tpl" THEN Widen((CHOOSE x \in bs : x[1] = Name(t))[2])
                ELSE IF Kind(t) = "opt" THEN MkOpt(Apply(Kids(t)[1], bs))
                ELSE Mk(Kind(t), Name(t), [i \in 1..Len(Kids(t)) |-> Apply(Kids(t)[i], bs)])

\* a case: template name and argument tuple
Arity(n) == Len(Template(n)[2])
Cases == UNION {{<<n, as>> : as \in [1..Arity(n) -> ArgTypes]} : n \in {m \in TemplateNames : Arity(m) = 1}} \cup
         UNION {{<<n, <<a, b>>>> : a \in A0 \cup D1, b \in A0 \cup {x \in D1 : Kind(x) \in SecondArgKinds}} :
                n \in {m \in TemplateNames : Arity(m) = 2}}
Init == c \in Cases
Next == UNCHANGED c
Spec == Init /\ [][Next]_c

Tmpl == Template(c[1])
M == MatchAll(Tmpl[2], c[2], 1)
\* judged iff the reference has a unique answer that binds every parameter of the return type
Judged == M[1] /\ Functional(M[2]) /\ TplNames(Tmpl[3]) \subseteq {x[1] : x \in M[2]}
Expected == Apply(Tmpl[3], M[2])

\* ---- sanity laws of the reference
Closed == Judged => ~HasTpl(Expected)
IdLaw == (c[1] = "id") => Judged /\ Expected = Widen(c[2][1])
\* instantiation commutes with the container: elem(wrap-result) gives back the widened argument
ElemWrap == (c[1] = "wrap" /\ Judged) => Match(Arr(T), Expected)[2] = {<<"T", Widen(c[2][1])>>}
\* an optional parameter takes the argument as it is: T? -> T behaves like the identity, on every argument
\* (in particular an optional argument keeps its nil), and T? -> T? only adds nil
OptLaw == /\ (c[1] = "unopt") => Judged /\ Expected = Widen(c[2][1])
          /\ (c[1] = "optid") => Judged /\ Expected = MkOpt(Widen(c[2][1]))
\* element-wise instantiation of a union of containers: no member is dropped -- T[] -> T applied to A[] | B[] denotes
\* exactly the members of A and of B
NoMemberDropped ==
  (c[1] = "elem" /\ AllKind(c[2][1], "arr")) =>
     /\ Judged
     /\ {Norm(m) : m \in {UMembers(Expected)[i] : i \in 1..Len(UMembers(Expected))}} =
        UNION {{Norm(x) : x \in {UMembers(Kids(Kids(c[2][1])[i])[1])[j] : j \in 1..Len(UMembers(Kids(Kids(c[2][1])[i])[1]))}} :
               i \in 1..Len(Kids(c[2][1]))}
\* the expected type is a well-formed term: no optional of a nullable type
RECURSIVE WellFormed(_)
WellFormed(t) == /\ Kind(t) = "opt" => ~HasNil(Kids(t)[1])
                 /\ \A i \in 1..Len(Kids(t)) : WellFormed(Kids(t)[i])
ExpectedWf == Judged => WellFormed(Expected)

\* coverage flag: a pattern with an optional part receives an argument with a nullable part
RECURSIVE AnyOpt(_), AnyNil(_)
AnyOpt(p) == Kind(p) = "opt" \/ \E i \in 1..Len(Kids(p)) : AnyOpt(Kids(p)[i])
AnyNil(a) == HasNil(a) \/ \E i \in 1..Len(Kids(a)) : AnyNil(Kids(a)[i])
OptNil == \E i \in 1..Len(c[2]) : AnyOpt(Tmpl[2][i]) /\ AnyNil(c[2][i])

\* the declared return type with every parameter left UNDETERMINED (the analyser's `unknown`): what a matcher that binds
\* nothing for this argument returns -- an incompleteness, reported under a signature of its own, not a wrong substitution
RECURSIVE ApplyUnknown(_)
ApplyUnknown(t) == IF Kind(t) = "tpl" THEN TUnknown
                   ELSE Mk(Kind(t), Name(t), [i \in 1..Len(Kids(t)) |-> ApplyUnknown(Kids(t)[i])])
UnionOfContainersArg == \E i \in 1..Len(c[2]) : AllKind(c[2][i], "arr") \/ AllKind(c[2][i], "map")
SetSeq(S) == CHOOSE f \in [1..Cardinality(S) -> S] : \A i, j \in 1..Cardinality(S) : i # j => f[i] # f[j]
Decl(tm) == [generics |-> SetSeq(UNION {TplNames(tm[2][i]) : i \in 1..Len(tm[2])}),
             params |-> [i \in 1..Len(tm[2]) |-> Syn(tm[2][i])],
             ret |-> Syn(tm[3])]
Emit == PrintT(<<"CASE", ToJson([tpl |-> c[1], decl |-> Decl(Tmpl),
                                 args |-> [i \in 1..Len(c[2]) |-> Syn(c[2][i])],
                                 argnorm |-> [i \in 1..Len(c[2]) |-> Norm(c[2][i])],
                                 argskel |-> [i \in 1..Len(c[2]) |-> Skel(c[2][i])],
                                 judged |-> Judged,
                                 optnil |-> OptNil,
                                 uoc |-> UnionOfContainersArg,
                                 undetermined |-> Norm(ApplyUnknown(Tmpl[3])),
                                 expected |-> IF Judged THEN Norm(Expected) ELSE Norm(TNil),
                                 expected_syntax |-> IF Judged THEN Syn(Expected) ELSE ""])>>)
ASSUME PrintT(<<"WORLD", ToJson([classes |-> [A |-> <<"B">>, B |-> <<>>],
                                 alias |-> [Al |-> "integer|string"],
                                 aliasnorm |-> [Al |-> Norm(Un(<<Prim("integer"), Prim("string")>>))],
                                 enum |-> [E |-> <<"x", "y">>],
                                 generic |-> [G |-> "T"]])>>)
===============================================================================
