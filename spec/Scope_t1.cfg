\* thorough: every program of <= 3 generated items over ONE name (shadowing of the same name is where
\* scoping rules bite), nesting <= 3
SPECIFICATION Spec
CONSTANTS
  NameSeq <- NamesA
  Rich = TRUE
  MaxItems = 3
  MaxDepth = 3
  MinEmit = 3
  EmitMod = 1
  ForNumKind = "ForRange"
  LoaOrder = "reverse"
  CheckAgree = TRUE
INVARIANTS SameSites Agree Emit
