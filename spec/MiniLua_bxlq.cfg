SPECIFICATION BuildSpec
CONSTANTS
  Vars = {"x"}
  Lits = {"nil", "s"}
  Opaques = {"opaque"}
  TypeNames = {"nil"}
  AtomKinds = {"truthy", "eqnil"}
  Shapes = {"A"}
  OuterNot = {FALSE}
  ForBounds = {"?"}
  LoopKinds = {"while", "repeat"}
  MaxLen = 5
  MaxIter = 2
  Loops = "some"
INVARIANTS Emit
