\* thorough, second family: every 3rd (structural hash) layout of <= 5 generated rows with exactly TWO suppression comments
\* (reduced alphabets, see the module header)
SPECIFICATION Spec
CONSTANTS
  MaxRows = 5
  MaxDepth = 2
  EmitMod = 3
  Overlap = "proper"
  EmptyBlockOwner = "parent"
  CheckAgree = TRUE
  TwoComments = TRUE
INVARIANTS CodedEqStated Emit
