SPECIFICATION Spec
CONSTANTS
  K = 4
  Greedy = FALSE
VIEW view
INVARIANTS EmitBlocked NoReacquireEmit
