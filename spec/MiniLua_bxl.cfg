SPECIFICATION BuildSpec
CONSTANTS
  Vars = {"x"}
  Lits = {"nil", "false", "s"}
  Opaques = {"opaque"}
  TypeNames = {"nil"}
  AtomKinds = {"truthy", "eqnil", "type"}
  Shapes = {"T", "A"}
  OuterNot = {FALSE, TRUE}
  ForBounds = {"2", "?"}
  LoopKinds = {"while", "repeat", "fornum", "forin"}
  MaxLen = 6
  MaxIter = 2
  Loops = "some"
INVARIANTS Emit
