------------------------------ MODULE ModuleIndex ------------------------------
(* require-path resolution of emmylua_code_analysis (C33): LuaModuleIndex as a tree over module-name parts,
   maintained incrementally by add/remove, versus an independent resolver written from the property.

   Universe: nine files under the roots /w (main workspace), /w/lib (a library INSIDE the main workspace) and /o
   (a library elsewhere): plain files, init.lua / main.lua directory modules, the same module name in several
   places.  Configuration (chosen in Init): extraction patterns {default ?.lua + ?/init.lua, ?.lua only, custom
   ?/main.lua}, moduleMap {none, ^a -> b}, strict.requirePath on/off, root set.

   Two layers
     Resolve(req)   the reference, written from the property: a file matches a request when its path relative
                    to its most specific root matches ANY configured pattern with ? := request (module-map
                    normalisation applied to both sides); exact before fuzzy suffix; ties by lowest file id.
     Find(req)      the transcription of LuaModuleIndex::{extract_module_path, match_pattern,
                    add_module_by_module_path, remove, find_module, exact_find_module, fuzzy_find_module}.
   TLC compares the two for every request in every reachable state (Agree), checks the tree invariants across
   all add / re-add / remove histories (TreeOk, FuzzyOk), and prints every (state, incoming transition) pair with
   the history leading to it and the expected resolution of every request for replay into the real index.                                               *)
EXTENDS Integers, Sequences, FiniteSets, TLC, Json

CONSTANTS Files,        \* subset of the universe F1..F9 used by this configuration
          PatternSets,  \* subset of {"default", "luaonly", "main"}
          MapSets,      \* subset of BOOLEAN: moduleMap ^a -> b configured?
          StrictSets,   \* subset of BOOLEAN: strict.requirePath
          RootSets,     \* subset of {"w", "w+lib", "w+o"}
          MaxSteps

VARIABLES cfg,          \* [pat, map, strict, roots]
          ids,          \* [Files -> Nat]: 0 = absent, else the file id (a removed file gets a NEW id when re-added)
          nextId,
          nodes,        \* module tree: [name (sequence of parts) -> sequence of file ids] for every existing node
          fuzzy,        \* [last part -> sequence of file ids]
          fmod,         \* [file id -> [name, ws]]  file_module_map
          n, hist
vars == <<cfg, ids, nextId, nodes, fuzzy, fmod, n, hist>>

\* ------------------------------------------------------------------------------------------------
\* the universe
Seg(f) == CASE f = "F1" -> <<"w", "a.lua">>
            [] f = "F2" -> <<"w", "a", "init.lua">>
            [] f = "F3" -> <<"w", "a", "x.lua">>
            [] f = "F4" -> <<"w", "b", "x.lua">>
            [] f = "F5" -> <<"w", "x.lua">>
            [] f = "F6" -> <<"w", "lib", "a.lua">>
            [] f = "F7" -> <<"w", "lib", "x", "init.lua">>
            [] f = "F8" -> <<"w", "a", "main.lua">>
            [] f = "F9" -> <<"o", "x.lua">>
Universe == {"F1", "F2", "F3", "F4", "F5", "F6", "F7", "F8", "F9"}
Stem(s) == CASE s = "a.lua" -> "a" [] s = "x.lua" -> "x" [] s = "init.lua" -> "init" [] s = "main.lua" -> "main"
StrLen(p) == CASE p \in {"a", "b", "x", "o", "w"} -> 1 [] p = "lib" -> 3 [] p \in {"init", "main"} -> 4
Rank(p) == CASE p = "a" -> 1 [] p = "b" -> 2 [] p = "init" -> 3 [] p = "lib" -> 4 [] p = "main" -> 5
             [] p = "o" -> 6 [] p = "w" -> 7 [] p = "x" -> 8
\* require strings (as part sequences; the harness also sends some of them with "/" separators)
Requests == {<<"a">>, <<"x">>, <<"b">>, <<"a", "x">>, <<"b", "x">>, <<"a", "init">>, <<"a", "main">>,
             <<"lib", "a">>, <<"lib", "x">>, <<"x", "init">>, <<"b", "a">>, <<"init">>}

\* roots in registration order: [path, ws id]; 1 = main, 3.. = libraries
RootsOf(r) == CASE r = "w" -> <<[path |-> <<"w">>, ws |-> 1]>>
                [] r = "w+lib" -> <<[path |-> <<"w">>, ws |-> 1], [path |-> <<"w", "lib">>, ws |-> 3]>>
                [] r = "w+o" -> <<[path |-> <<"w">>, ws |-> 1], [path |-> <<"o">>, ws |-> 3]>>
\* extraction patterns as the code keeps them: sorted by length, longest first (set_module_extract_patterns)
\*   "file" = ?.lua    "dir:init" = ?/init.lua    "dir:main" = ?/main.lua
PatternsOf(p) == CASE p = "default" -> <<"dir:init", "file">>
                   [] p = "luaonly" -> <<"file">>
                   [] p = "main" -> <<"dir:main", "file">>

IsPrefix(a, b) == Len(a) <= Len(b) /\ SubSeq(b, 1, Len(a)) = a
Front(s) == SubSeq(s, 1, Len(s) - 1)
LastOf(s) == s[Len(s)]

\* match one pattern against a relative path (segments); result: set with the captured module parts, or {}
Match(pat, rel) ==
  CASE pat = "file" -> {Front(rel) \o <<Stem(LastOf(rel))>>}
    [] pat = "dir:init" -> IF LastOf(rel) = "init.lua" /\ Len(rel) >= 2 THEN {Front(rel)} ELSE {}
    [] pat = "dir:main" -> IF LastOf(rel) = "main.lua" /\ Len(rel) >= 2 THEN {Front(rel)} ELSE {}

\* moduleMap  ^a -> b  on the dotted name: only a name whose first character is `a` changes
Norm(parts) == IF cfg.map /\ parts # <<>> /\ parts[1] = "a" THEN <<"b">> \o Tail(parts) ELSE parts

Present == {f \in Files : ids[f] # 0}
FileOfId(i) == CHOOSE f \in Files : ids[f] = i

\* ------------------------------------------------------------------------------------------------
\* REFERENCE (from the property)
Containing(f) == {k \in 1..Len(RootsOf(cfg.roots)) : IsPrefix(RootsOf(cfg.roots)[k].path, Seg(f))}
BestRoot(f) == CHOOSE k \in Containing(f) : \A j \in Containing(f) :
                  Len(RootsOf(cfg.roots)[j].path) <= Len(RootsOf(cfg.roots)[k].path)
RelOf(f) == LET r == RootsOf(cfg.roots)[BestRoot(f)].path IN SubSeq(Seg(f), Len(r) + 1, Len(Seg(f)))
PatSet == {PatternsOf(cfg.pat)[k] : k \in 1..Len(PatternsOf(cfg.pat))}
AllNames(f) == IF Containing(f) = {} THEN {} ELSE {Norm(m) : m \in UNION {Match(p, RelOf(f)) : p \in PatSet}}
\* the name given by the most specific (longest) pattern only - what the implementation registers
PrimaryName(f) == IF Containing(f) = {} THEN {} ELSE
                  LET ps == PatternsOf(cfg.pat)
                      hits == {k \in 1..Len(ps) : Match(ps[k], RelOf(f)) # {}}
                      k == CHOOSE x \in hits : \A y \in hits : x <= y
                  IN {Norm(m) : m \in Match(ps[k], RelOf(f))}

LowestId(S) == CHOOSE f \in S : \A g \in S : ids[f] <= ids[g]
IsSuffix(req, name) == Len(req) < Len(name) /\ SubSeq(name, Len(name) - Len(req) + 1, Len(name)) = req
RECURSIVE LexLess(_, _)
LexLess(a, b) == IF a = <<>> THEN b # <<>> ELSE IF b = <<>> THEN FALSE
                 ELSE IF Rank(a[1]) # Rank(b[1]) THEN Rank(a[1]) < Rank(b[1]) ELSE LexLess(Tail(a), Tail(b))
\* fuzzy candidates: (file, name) pairs whose name has req as a proper suffix; fewest leading parts, then name order
\* (NT is a table [file -> set of names], computed once per state by the callers)
FuzzyPick(req, NT) ==
  LET cand == UNION {{<<f, m>> : m \in {x \in NT[f] : IsSuffix(req, x)}} : f \in Present}
      better(x, y) == \/ Len(x[2]) < Len(y[2])
                      \/ Len(x[2]) = Len(y[2]) /\ LexLess(x[2], y[2])
                      \/ x[2] = y[2] /\ ids[x[1]] <= ids[y[1]]
  IN IF cand = {} THEN "none" ELSE (CHOOSE x \in cand : \A y \in cand : x = y \/ better(x, y))[1]

ResolveWith(req, NT) ==
  LET exact(r) == {f \in Present : r \in NT[f]} IN
  IF exact(req) # {} THEN LowestId(exact(req))
  ELSE IF Norm(req) # req /\ exact(Norm(req)) # {} THEN LowestId(exact(Norm(req)))
  ELSE IF cfg.strict THEN "none"
  ELSE IF Norm(req) # req /\ FuzzyPick(Norm(req), NT) # "none" THEN FuzzyPick(Norm(req), NT)
  ELSE FuzzyPick(req, NT)

AllNamesT == [f \in Files |-> AllNames(f)]
PrimaryNameT == [f \in Files |-> PrimaryName(f)]
Resolve(req) == ResolveWith(req, AllNamesT)
ResolvePrimary(req) == ResolveWith(req, PrimaryNameT)

\* ------------------------------------------------------------------------------------------------
\* TRANSCRIPTION of LuaModuleIndex
\* extract_module_path: workspaces in registration order; keep the first match, replace it by a later one only if
\* its captured string is strictly shorter; a main workspace never takes the id over
PathStrLen(parts) == LET RECURSIVE L(_) L(s) == IF s = <<>> THEN 0 ELSE StrLen(s[1]) + L(Tail(s))
                     IN L(parts) + Len(parts) - 1
FirstMatch(rel) == LET ps == PatternsOf(cfg.pat)
                       hits == {k \in 1..Len(ps) : Match(ps[k], rel) # {}}
                   IN IF hits = {} THEN {} ELSE Match(ps[CHOOSE x \in hits : \A y \in hits : x <= y], rel)
RECURSIVE ExtractFrom(_, _, _)
ExtractFrom(f, k, acc) ==       \* acc: {} or {[parts, ws]}
  LET rs == RootsOf(cfg.roots) IN
  IF k > Len(rs) THEN acc
  ELSE IF ~IsPrefix(rs[k].path, Seg(f)) THEN ExtractFrom(f, k + 1, acc)
  ELSE LET rel == SubSeq(Seg(f), Len(rs[k].path) + 1, Len(Seg(f)))
           m == FirstMatch(rel) IN
       IF m = {} THEN ExtractFrom(f, k + 1, acc)
       ELSE LET parts == CHOOSE x \in m : TRUE IN
            IF acc = {} THEN ExtractFrom(f, k + 1, {[parts |-> parts, ws |-> rs[k].ws]})
            ELSE LET old == CHOOSE x \in acc : TRUE IN
                 IF PathStrLen(parts) < PathStrLen(old.parts)
                 THEN ExtractFrom(f, k + 1, {[parts |-> parts, ws |-> IF rs[k].ws = 1 THEN old.ws ELSE rs[k].ws]})
                 ELSE ExtractFrom(f, k + 1, acc)
Extract(f) == ExtractFrom(f, 1, {})

Prefixes(name) == {SubSeq(name, 1, k) : k \in 1..Len(name)}
SortedIns(s, i) == LET lower == SelectSeq(s, LAMBDA x : x <= i) upper == SelectSeq(s, LAMBDA x : x > i)
                   IN lower \o <<i>> \o upper

\* remove(file id): drop the fuzzy entry, drop the file from its node, prune emptied nodes bottom-up
RECURSIVE Prune(_, _)
Prune(nd, name) ==
  IF name = <<>> \/ name \notin DOMAIN nd THEN nd
  ELSE IF nd[name] # <<>> \/ \E other \in DOMAIN nd : other # name /\ IsPrefix(name, other) THEN nd
  ELSE Prune([x \in DOMAIN nd \ {name} |-> nd[x]], Front(name))
RemoveId(st, i) ==     \* st = [nodes, fuzzy, fmod]
  IF i \notin DOMAIN st.fmod THEN st
  ELSE LET name == st.fmod[i].name
           last == LastOf(name)
           fz == IF last \in DOMAIN st.fuzzy
                 THEN LET s == SelectSeq(st.fuzzy[last], LAMBDA x : x # i) IN
                      IF s = <<>> THEN [x \in DOMAIN st.fuzzy \ {last} |-> st.fuzzy[x]]
                      ELSE [st.fuzzy EXCEPT ![last] = s]
                 ELSE st.fuzzy
           nd1 == [st.nodes EXCEPT ![name] = SelectSeq(@, LAMBDA x : x # i)]
       IN [nodes |-> Prune(nd1, name), fuzzy |-> fz, fmod |-> [x \in DOMAIN st.fmod \ {i} |-> st.fmod[x]]]
AddId(st, f, i) ==
  LET st0 == RemoveId(st, i)
      e == Extract(f) IN
  IF e = {} THEN st0
  ELSE LET x == CHOOSE y \in e : TRUE
           name == Norm(x.parts)
           nd == [p \in DOMAIN st0.nodes \cup Prefixes(name) |->
                    IF p = name THEN SortedIns(IF p \in DOMAIN st0.nodes THEN st0.nodes[p] ELSE <<>>, i)
                    ELSE IF p \in DOMAIN st0.nodes THEN st0.nodes[p] ELSE <<>>]
           last == LastOf(name)
           fz == IF cfg.strict THEN st0.fuzzy
                 ELSE [k \in DOMAIN st0.fuzzy \cup {last} |->
                         IF k = last THEN SortedIns(IF k \in DOMAIN st0.fuzzy THEN st0.fuzzy[k] ELSE <<>>, i)
                         ELSE st0.fuzzy[k]]
       IN [nodes |-> nd, fuzzy |-> fz, fmod |-> (i :> [name |-> name, ws |-> x.ws]) @@ st0.fmod]

\* find_module
ExactFind(name) == IF name \in DOMAIN nodes /\ nodes[name] # <<>> THEN FileOfId(nodes[name][1]) ELSE "none"
FuzzyFind(req) ==
  LET last == LastOf(req)
      cids == IF last \in DOMAIN fuzzy THEN {fuzzy[last][k] : k \in 1..Len(fuzzy[last])} \cap DOMAIN fmod ELSE {}
      cand == {i \in cids : fmod[i].name = req \/ IsSuffix(req, fmod[i].name)}
      better(x, y) == \/ Len(fmod[x].name) < Len(fmod[y].name)
                      \/ Len(fmod[x].name) = Len(fmod[y].name) /\ LexLess(fmod[x].name, fmod[y].name)
                      \/ fmod[x].name = fmod[y].name /\ x <= y
  IN IF cand = {} THEN "none" ELSE FileOfId(CHOOSE x \in cand : \A y \in cand : x = y \/ better(x, y))
Find(req) ==
  IF ExactFind(req) # "none" THEN ExactFind(req)
  ELSE LET mapped == Norm(req) IN
       IF mapped # req /\ ExactFind(mapped) # "none" THEN ExactFind(mapped)
       ELSE IF cfg.strict THEN "none"
       ELSE IF mapped # req /\ FuzzyFind(mapped) # "none" THEN FuzzyFind(mapped)
       ELSE FuzzyFind(req)

\* ------------------------------------------------------------------------------------------------
H(op, f) == [op |-> op, f |-> f]
Init == /\ cfg \in [pat : PatternSets, map : MapSets, strict : StrictSets, roots : RootSets]
        /\ ids = [f \in Files |-> 0] /\ nextId = 1
        /\ nodes = <<>> /\ fuzzy = <<>> /\ fmod = <<>>      \* empty functions (the root node is implicit)
        /\ n = 0 /\ hist = <<>>

St == [nodes |-> nodes, fuzzy |-> fuzzy, fmod |-> fmod]
Apply(st) == /\ nodes' = st.nodes /\ fuzzy' = st.fuzzy /\ fmod' = st.fmod

\* add a new file, or re-submit a present one (update_file_by_uri = remove + add with the same id)
Add(f) == /\ n < MaxSteps
          /\ LET i == IF ids[f] = 0 THEN nextId ELSE ids[f] IN
               /\ ids' = [ids EXCEPT ![f] = i]
               /\ nextId' = IF ids[f] = 0 THEN nextId + 1 ELSE nextId
               /\ Apply(AddId(St, f, i))
          /\ n' = n + 1 /\ hist' = Append(hist, H(IF ids[f] = 0 THEN "add" ELSE "readd", f)) /\ UNCHANGED cfg
Remove(f) == /\ n < MaxSteps /\ ids[f] # 0
             /\ Apply(RemoveId(St, ids[f])) /\ ids' = [ids EXCEPT ![f] = 0]
             /\ n' = n + 1 /\ hist' = Append(hist, H("remove", f)) /\ UNCHANGED <<cfg, nextId>>
Next == \E f \in Files : Add(f) \/ Remove(f)
Spec == Init /\ [][Next]_vars
\* The history is hidden; the label of the incoming transition is kept, so that every (state, incoming add / re-add /
\* remove) pair is a distinct fingerprint and is printed once by the invariant Emit.  (Emission from an action
\* constraint would evaluate everything primed, where TLC does not cache LET / argument values - 50x slower.)
View == <<cfg, ids, nodes, fuzzy, fmod, IF hist = <<>> THEN <<>> ELSE hist[Len(hist)]>>

\* ------------------------------------------------------------------------------------------------
\* invariants
InRoots(f) == Containing(f) # {}
TreeOk == /\ DOMAIN fmod = {ids[f] : f \in {g \in Present : InRoots(g)}}
          /\ \A name \in DOMAIN nodes :            \* no empty leaf, prefix closed, files where fmod says
               /\ nodes[name] # <<>> \/ \E other \in DOMAIN nodes : other # name /\ IsPrefix(name, other)
               /\ Prefixes(name) \subseteq DOMAIN nodes
               /\ \A k \in 1..Len(nodes[name]) : nodes[name][k] \in DOMAIN fmod /\ fmod[nodes[name][k]].name = name
          /\ \A i \in DOMAIN fmod : fmod[i].name \in DOMAIN nodes
                                    /\ Cardinality({k \in 1..Len(nodes[fmod[i].name]) : nodes[fmod[i].name][k] = i}) = 1
FuzzyOk == IF cfg.strict THEN fuzzy = <<>>
           ELSE /\ \A k \in DOMAIN fuzzy : fuzzy[k] # <<>> /\ \A j \in 1..Len(fuzzy[k]) :
                                              fuzzy[k][j] \in DOMAIN fmod /\ LastOf(fmod[fuzzy[k][j]].name) = k
                /\ \A i \in DOMAIN fmod : LastOf(fmod[i].name) \in DOMAIN fuzzy
                      /\ Cardinality({j \in 1..Len(fuzzy[LastOf(fmod[i].name)]) : fuzzy[LastOf(fmod[i].name)][j] = i}) = 1
\* the registered name is the reference's primary name
NameOk == \A i \in DOMAIN fmod : {fmod[i].name} = PrimaryName(FileOfId(i))

\* KNOWN DEVIATION (KF_SecondaryName): the implementation registers ONE module name per file (the most specific
\* pattern), so a request that reaches a file only through a less specific pattern - require("a.init") for
\* a/init.lua - is not resolved (or resolved to something else) although the path matches the pattern ?.lua
KF_SecondaryName(req) == Resolve(req) # ResolvePrimary(req)
Agree == LET pt == PrimaryNameT IN \A req \in Requests : Find(req) = ResolveWith(req, pt)
AgreeStrict == LET at == AllNamesT IN \A req \in Requests : Find(req) = ResolveWith(req, at)   \* violated exactly where KF_SecondaryName holds
RemovedUnresolvable == \A req \in Requests : Find(req) = "none" \/ ids[Find(req)] # 0

\* ------------------------------------------------------------------------------------------------
Path(f) == Seg(f)
FullStep == LET at == AllNamesT pt == PrimaryNameT IN
            [cfg |-> cfg,
             present |-> [f \in Present |-> ids[f]],
             res |-> {LET ra == ResolveWith(r, at) rp == ResolveWith(r, pt) IN
                      [req |-> r, find |-> Find(r), ref |-> ra, kf |-> ra # rp] : r \in Requests},
             names |-> DOMAIN nodes,
             files_in_nodes |-> {[name |-> fmod[i].name, f |-> FileOfId(i)] : i \in DOMAIN fmod},
             sizes |-> [module_nodes |-> 1 + Cardinality(DOMAIN nodes),
                        file_module_map |-> Cardinality(DOMAIN fmod),
                        fuzzy |-> Cardinality(DOMAIN fuzzy),
                        fuzzy_items |-> LET RECURSIVE S(_) S(K) == IF K = {} THEN 0 ELSE
                                               LET k == CHOOSE x \in K : TRUE IN Len(fuzzy[k]) + S(K \ {k})
                                        IN S(DOMAIN fuzzy)]]
Emit == hist # <<>> => PrintT(<<"S", ToJson([h |-> hist, step |-> FullStep])>>)
Universe9 == PrintT(<<"FILES", ToJson([f \in Universe |-> Seg(f)])>>)
ASSUME Universe9
=============================================================================
