\* generator, quick and thorough exhaustive part: every program of <= 2 library lines x {LF, CRLF} x every
\* single-token drop / duplication / truncation point
SPECIFICATION Spec
CONSTANTS
  MaxLines = 2
  EmitMod = 1
  Mode = "gen"
  WithErr = TRUE
INVARIANTS EmitGen
