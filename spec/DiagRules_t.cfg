\* thorough: every layout of <= 5 generated rows
SPECIFICATION Spec
CONSTANTS
  MaxRows = 5
  MaxDepth = 2
  EmitMod = 1
  Overlap = "proper"
  EmptyBlockOwner = "parent"
  CheckAgree = TRUE
  TwoComments = FALSE
INVARIANTS CodedEqStated Emit
