SPECIFICATION Spec
VIEW view
CONSTANTS
  Uris = {"u1"}
  Texts = {"t1"}
  MaxMsgs = 3
  MsgKinds = {"open","close","cfg"}
  MaxCfg = 2
  MaxDisk = 0
  OnDisk = {"u1"}
  InlineOpen = TRUE
  InlineChange = TRUE
  InlineClose = TRUE
  EnableReindex = FALSE
INVARIANTS Emit
