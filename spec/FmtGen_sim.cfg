SPECIFICATION Spec
CONSTANTS
  Mode = "sim"
  MaxStmts = 4
INVARIANT Emit
