SPECIFICATION Spec
CONSTANTS
  NPaths = 3
  Contents = {"ObjDef", "ObjBar1", "ObjBar2", "UseObj"}
  Ops = {"update", "reindex"}
  MaxSteps = 4
  EditDist = 0
  Batch = FALSE
  EmitSel = "same"
VIEW View
INVARIANTS ReindexIsIdeal NoLeak C08_Model Emit
