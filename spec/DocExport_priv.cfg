SPECIFICATION Spec
CONSTANTS
  AlphaA = {"CF", "PH", "PE"}
  AlphaB = {"PH", "PA"}
  AlphaC = {"PH", "PE", "PA"}
  AlphaL = {"PH", "PA"}
  SortsBeforeExport = TRUE
  TwoRuns = FALSE
INVARIANTS AnyLocIsReference Emit
