SPECIFICATION Spec
CONSTANTS
  Files = {"f1", "f2"}
  Snippets = {"s1", "s4", "s5", "s9"}
  Levels = {"Lua51", "Lua55"}
  MaxSteps = 3
  KeyByTextOnly = TRUE
VIEW view
INVARIANTS CacheTransparent
