SPECIFICATION Spec
CONSTANTS
  K = 4
  Greedy = TRUE
VIEW view
INVARIANTS EmitBlocked NoReacquireEmit
