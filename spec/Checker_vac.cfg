SPECIFICATION Spec
CONSTANTS
  Files = {f1, f2}
  Lists <- ListsQ
  Caps = {1}
  Filters = {0, 1}
  AllowPanic = TRUE
INVARIANTS NeverClosedPath
