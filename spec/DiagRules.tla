------------------------------ MODULE DiagRules ------------------------------
(* Which diagnostics are reported (C19 suppression comments, C20 configuration precedence).

   ---- Part 1: suppression scopes (C19) ------------------------------------------------------
   A *layout* is a sequence of rows (one physical line each, except an own-line comment, which may
   carry a doc line before and/or after it):
       X / Y   a statement producing one diagnostic of code X (undefined-global: `foo()`) or
               Y (deprecated: `depr()`), at column 0 or indented by 2, optionally followed on the same
               line by the suppression comment (inline)
       do / end / blank
       C       the suppression comment on its own line(s)
   There is exactly one suppression comment (two in the TwoComments family, see below): kind next (`disable-next-line`), line (`disable-line`) or
   block (`disable`), with code list all (none written) / X / Y / U / XU, where U is a name that is not a
   diagnostic code of this analyzer (a code of another tool, a typo): a comment WITH a code list never
   suppresses a code that is not listed, so `: U` suppresses nothing and `: X, U` exactly X.

   Stated(r): the property text, read on rows -- next: the row directly after the comment; line: the
   comment's own row; block: every row of the innermost do..end enclosing the comment, the whole file
   at top level; a code list restricts the effect to that code.

   Coded(r): transcription of the implementation (analyzer/doc/diagnostic_tags.rs builds a range per
   comment, db_index/diagnostic/diagnostic_action.rs matches a diagnostic's range against it):
       next : [comment start, start of the line after next)      dropped if there is no next line
       line : [start of the comment's last line, start of the following line)
       block: the owner block's range; at top level with a code list: a per-file set
   and the match is "ranges intersect", where Overlap = "touching" counts ranges that merely touch
   (end = start) as intersecting and "proper" does not.  Positions are <<row, column>> pairs.

   TLC enumerates layouts, checks CodedEqStated (when CheckAgree) and prints each layout with the
   expected reported/suppressed bit of every diagnostic row; the harness replays the layout through
   the real diagnose_file with the comment and with the comment neutralised.

   Two comments (TwoComments = TRUE, second seeded round): layouts with exactly TWO suppression comments of any
   two kinds / code lists all, X, Y / inline or own-line, over a reduced row alphabet (X diagnostics at column 0 only, no doc lines,
   an own-line comment never directly below another comment: consecutive comment lines are ONE comment in the
   syntax tree).  The property text gives every comment its own scope, so a diagnostic is suppressed iff SOME
   comment suppresses it: Stated / Coded are the disjunction over the comments of the per-comment readings
   StatedBy / CodedBy -- in particular a comment never shortens or widens the scope of another one, whatever the
   order in which they are written.

   ---- Part 2: configuration precedence (C20) ------------------------------------------------
   see the second half of the module.  *)
EXTENDS Naturals, Sequences, FiniteSets, TLC, Json

CONSTANTS MaxRows,     \* bound on generated rows (closing `end`s are added)
          MaxDepth,    \* bound on do-nesting
          EmitMod,     \* print only layouts whose structural hash is 0 mod EmitMod
          Overlap,     \* "touching" (pinned tree) | "proper"
          EmptyBlockOwner, \* owner block of a `disable` comment that is alone in its block: "parent" (the
                       \* parser attaches trivia of a statement-less block to the enclosing statement) | "self"
          CheckAgree,  \* TRUE: CodedEqStated is enforced as an invariant
          TwoComments  \* TRUE: the family of layouts with exactly two suppression comments (reduced alphabets)

VARIABLES rows, depth, hasC,   \* part 1: the layout under construction
          crow                 \* part 2: one configuration row (NoRow while part 1 runs)
vars == <<rows, depth, hasC, crow>>
NoRow == [kind |-> "-"]

NoC == [kind |-> "-", codes |-> "-", pre |-> 0, post |-> 0]
Kinds == {"next", "line", "block"}
CodeLists == {"all", "X", "Y", "U", "XU"}
\* the diagnostic codes a written code list names (U names none)
Listed(codes) == CASE codes = "X" -> {"X"} [] codes = "Y" -> {"Y"} [] codes = "U" -> {} [] codes = "XU" -> {"X"}
                   [] OTHER -> {}
InlineComments == {[kind |-> k, codes |-> c, pre |-> 0, post |-> 0] : k \in Kinds, c \in CodeLists}
OwnComments == {[kind |-> "next", codes |-> c, pre |-> a, post |-> b] : c \in CodeLists, a \in 0..1, b \in 0..1}
          \cup {[kind |-> k, codes |-> c, pre |-> 0, post |-> 0] : k \in {"line", "block"}, c \in CodeLists}

Row(k, ind, cm) == [k |-> k, ind |-> ind, cm |-> cm]
DiagRows(cms) == {Row(k, i, cm) : k \in {"X"}, i \in {0, 2}, cm \in cms} \cup {Row("Y", 0, cm) : cm \in cms}
IsDiag(r) == r.k \in {"X", "Y"}

Init == rows = <<>> /\ depth = 0 /\ hasC = FALSE /\ crow = NoRow

\* ---- number of comments; the reduced alphabets of the two-comment family
NumC(rs) == Cardinality({i \in 1..Len(rs) : rs[i].cm # NoC})
MaxC == IF TwoComments THEN 2 ELSE 1
LastHasC(rs) == Len(rs) > 0 /\ rs[Len(rs)].cm # NoC
Comments2 == {[kind |-> k, codes |-> c, pre |-> 0, post |-> 0] : k \in Kinds, c \in {"all", "X", "Y"}}
Col0(S) == {r \in S : r.ind = 0 /\ r.k = "X"}     \* diagnostics of code X at column 0; Y only as "another code" in lists
PlainRows == IF TwoComments THEN Col0(DiagRows({NoC})) ELSE DiagRows({NoC})
InlineRows == IF TwoComments THEN Col0(DiagRows(Comments2)) ELSE DiagRows(InlineComments)
OwnRows == IF TwoComments THEN Comments2 ELSE OwnComments

AddPlain == \E r \in PlainRows \cup {Row("blank", 0, NoC)} :
              rows' = Append(rows, r) /\ UNCHANGED <<depth, hasC>>
AddDo == depth < MaxDepth /\ rows' = Append(rows, Row("do", 0, NoC)) /\ depth' = depth + 1 /\ UNCHANGED hasC
AddEnd == depth > 0 /\ rows' = Append(rows, Row("end", 0, NoC)) /\ depth' = depth - 1 /\ UNCHANGED hasC
AddInline == NumC(rows) < MaxC /\ \E r \in InlineRows :
               rows' = Append(rows, r) /\ hasC' = TRUE /\ UNCHANGED depth
AddOwn == NumC(rows) < MaxC /\ ~LastHasC(rows) /\ \E cm \in OwnRows :
            rows' = Append(rows, Row("C", 0, cm)) /\ hasC' = TRUE /\ UNCHANGED depth

Next == Len(rows) < MaxRows /\ (AddPlain \/ AddDo \/ AddEnd \/ AddInline \/ AddOwn) /\ UNCHANGED crow
Spec == Init /\ [][Next]_vars

Layout == rows \o [i \in 1..depth |-> Row("end", 0, NoC)]

\* ---------------------------------------------------------------------------------------------
\* geometry shared by both readings
\* ---------------------------------------------------------------------------------------------
CRows(L) == {i \in 1..Len(L) : L[i].cm # NoC}
HasComment(L) == CRows(L) # {}
CodeOf(r) == r.k   \* "X" or "Y"
CodeMatch(cm, code) == cm.codes = "all" \/ code \in Listed(cm.codes)

\* do-row of the innermost block that strictly encloses row i (0 = top level), and its end-row
DoStack(L, i) ==
  LET F[j \in 0..(i - 1)] ==
        IF j = 0 THEN <<>>
        ELSE IF L[j].k = "do" THEN <<j>> \o F[j - 1]
        ELSE IF L[j].k = "end" THEN Tail(F[j - 1])
        ELSE F[j - 1]
  IN F[i - 1]
EnclosingDo(L, i) == IF DoStack(L, i) = <<>> THEN 0 ELSE Head(DoStack(L, i))
\* matching end of the do at row d
EndOf(L, d) == CHOOSE e \in (d + 1)..Len(L) :
                 /\ L[e].k = "end" /\ EnclosingDo(L, e) = d
InBlock(L, d, r) == IF d = 0 THEN TRUE ELSE d < r /\ r < EndOf(L, d)

\* ---------------------------------------------------------------------------------------------
\* Stated: the property text
\* ---------------------------------------------------------------------------------------------
StatedBy(L, c, r) ==
  LET cm == L[c].cm IN
  /\ CodeMatch(cm, CodeOf(L[r]))
  /\ CASE cm.kind = "next" -> r = c + 1
       [] cm.kind = "line" -> r = c
       [] cm.kind = "block" -> InBlock(L, EnclosingDo(L, c), r)
Stated(L, r) == \E c \in CRows(L) : StatedBy(L, c, r)

\* ---------------------------------------------------------------------------------------------
\* Coded: ranges over <<row, column>> positions
\* ---------------------------------------------------------------------------------------------
Lt(p, q) == p[1] < q[1] \/ (p[1] = q[1] /\ p[2] < q[2])
Le(p, q) == p = q \/ Lt(p, q)
MaxP(p, q) == IF Lt(p, q) THEN q ELSE p
MinP(p, q) == IF Lt(p, q) THEN p ELSE q
Intersects(a, b) ==   \* a, b = <<start, end>>
  LET s == MaxP(a[1], b[1]) e == MinP(a[2], b[2]) IN
  IF Overlap = "touching" THEN Le(s, e) ELSE Lt(s, e)

\* Known finding, keyed by mechanism: the comment's block contains no statement (only the comment and blank
\* rows); the syntax tree then has an empty Block node and the comment hangs off the enclosing statement, so
\* `comment.ancestors::<LuaBlock>()` finds the PARENT block and `disable` leaks into it.
KF_CommentOnlyBlockAt(L, c) ==
  LET d == EnclosingDo(L, c) IN
  /\ L[c].cm.kind = "block" /\ d # 0
  /\ \A i \in (d + 1)..(EndOf(L, d) - 1) : L[i].k \in {"C", "blank"}
KF_CommentOnlyBlock(L) == \E c \in CRows(L) : KF_CommentOnlyBlockAt(L, c)
OwnerDo(L, c) == LET d == EnclosingDo(L, c) IN
                 IF EmptyBlockOwner = "parent" /\ KF_CommentOnlyBlockAt(L, c) THEN EnclosingDo(L, d) ELSE d

DiagLen(r) == IF r.k = "X" THEN 3 ELSE 4       \* `foo`, `depr`
DiagRange(L, r) == <<<<r, L[r].ind>>, <<r, L[r].ind + DiagLen(L[r])>>>>
\* column at which the comment starts on its row (inline: after `foo() ` / `depr() `)
CmCol(L, c) == IF L[c].k = "C" THEN 0 ELSE L[c].ind + DiagLen(L[c]) + 3
BIGROW == 1000
ActionRange(L, c) ==      \* <<start, end>> or <<>> when the implementation creates no ranged action
  LET cm == L[c].cm IN
  CASE cm.kind = "next" -> <<<<c, CmCol(L, c)>>, <<c + 2, 0>>>>
    [] cm.kind = "line" -> <<<<c, 0>>, <<c + 1, 0>>>>
    [] cm.kind = "block" ->
         LET d == OwnerDo(L, c) IN
         IF d = 0 THEN <<<<0, 0>>, <<BIGROW, 0>>>> ELSE <<<<d + 1, 0>>, <<EndOf(L, d), 0>>>>
CodedBy(L, c, r) ==
  LET cm == L[c].cm IN
  /\ CodeMatch(cm, CodeOf(L[r]))
  /\ Intersects(ActionRange(L, c), DiagRange(L, r))
\* the implementation scans ALL recorded actions of the file (is_file_diagnostic_code_disabled): any match suppresses
Coded(L, r) == \E c \in CRows(L) : CodedBy(L, c, r)

DiagRowsOf(L) == {r \in 1..Len(L) : IsDiag(L[r])}
CodedEqStated == (CheckAgree /\ HasComment(Layout)) =>
                   \/ (EmptyBlockOwner = "parent" /\ KF_CommentOnlyBlock(Layout))
                   \/ \A r \in DiagRowsOf(Layout) : Coded(Layout, r) = Stated(Layout, r)

\* ---------------------------------------------------------------------------------------------
\* emission
\* ---------------------------------------------------------------------------------------------
KindCode(k) == CASE k = "X" -> 1 [] k = "Y" -> 2 [] k = "do" -> 3 [] k = "end" -> 4 [] k = "blank" -> 5 [] k = "C" -> 6
CmCode(cm) == IF cm = NoC THEN 0 ELSE
              (CASE cm.kind = "next" -> 1 [] cm.kind = "line" -> 2 [] cm.kind = "block" -> 3) * 5
              + (CASE cm.codes = "all" -> 0 [] cm.codes = "X" -> 1 [] cm.codes = "Y" -> 2
                   [] cm.codes = "U" -> 3 [] cm.codes = "XU" -> 4) * 3 + cm.pre * 7 + cm.post * 11
RowHash(r) == KindCode(r.k) * 13 + r.ind * 3 + CmCode(r.cm)
RECURSIVE LayoutHash(_, _)
LayoutHash(L, i) == IF i > Len(L) THEN 0 ELSE (i + 1) * RowHash(L[i]) + LayoutHash(L, i + 1)

CompactRow(r) == <<r.k, r.ind, r.cm.kind, r.cm.codes, r.cm.pre, r.cm.post>>
Emit == IF hasC /\ NumC(rows) = MaxC /\ DiagRowsOf(Layout) # {} /\ LayoutHash(rows, 1) % EmitMod = 0
        THEN PrintT(<<"CASE", ToJson([rows |-> [i \in 1..Len(Layout) |-> CompactRow(Layout[i])],
                                      exp |-> {<<r, IF Stated(Layout, r) THEN 1 ELSE 0,
                                                    IF Coded(Layout, r) THEN 1 ELSE 0>> : r \in DiagRowsOf(Layout)},
                                      kf |-> KF_CommentOnlyBlock(Layout)])>>)
        ELSE TRUE

\* =============================================================================================
\* Part 2: configuration precedence (C20)
\* =============================================================================================
(* A *chain row* describes one (file, code) situation by eight booleans/enums:
      E   diagnostics.enable                       W   workspace of the file: main | lib | std
      M   the file is a meta file (---@meta)       FE  the file has `---@diagnostic enable: X`
      WD  X is in diagnostics.disable              FD  the file has a top-level `---@diagnostic disable: X`
      WE  X is in diagnostics.enables              D   X is on by default
   StatedEnabled gives the verdict the property text demands: "report", "silent", or "unspecified" where the
   text does not decide (the file both enables and disables X; `enable` on a default-off code that the
   workspace does not enable).  CodedEnabled is the chain as coded (diagnose_file's early returns, then
   is_checker_enable_by_code): an ordered list of (test, verdict) pairs, first match wins, default D.

   Severity rows: `severity[X] = s` => every reported X has severity s.
   Globals rows: a name listed in `globals`, or matched by a `globalsRegex` entry, is never reported as
   undefined-global; other undefined names still are.  *)
Verdict == {"report", "silent", "unspecified"}
ChainRows == [kind : {"chain"}, E : BOOLEAN, W : {"main", "lib", "std"}, M : BOOLEAN, FE : BOOLEAN,
              WD : BOOLEAN, FD : BOOLEAN, WE : BOOLEAN, D : BOOLEAN]

StatedEnabled(r) ==
  IF ~r.E THEN "silent"                        \* diagnostics.enable = false reports nothing at all
  ELSE IF r.W # "main" THEN "silent"           \* library and standard-library files report nothing
  ELSE IF r.M THEN "silent"                    \* meta files report nothing
  ELSE IF r.WD THEN (IF ~r.FE THEN "silent"    \* disabled codes are never reported ...
                     ELSE IF r.FD THEN "unspecified" ELSE "report")   \* ... unless the file enables them
  ELSE IF r.FD THEN (IF r.FE THEN "unspecified" ELSE "silent")        \* file-level disable (C19)
  ELSE IF r.WE THEN "report"                   \* `enables` are reported even when off by default
  ELSE IF r.D THEN "report"
  ELSE IF r.FE THEN "unspecified" ELSE "silent"

\* the chain as coded: DiagnosticContext::is_checker_enable_by_code
Chain == << <<"FE", TRUE>>, <<"WD", FALSE>>, <<"M", FALSE>>, <<"FD", FALSE>>, <<"WE", TRUE>> >>
Test(r, t) == CASE t = "FE" -> r.FE [] t = "WD" -> r.WD [] t = "M" -> r.M [] t = "FD" -> r.FD [] t = "WE" -> r.WE
RECURSIVE WalkChain(_, _)
WalkChain(r, i) == IF i > Len(Chain) THEN r.D
                   ELSE IF Test(r, Chain[i][1]) THEN Chain[i][2] ELSE WalkChain(r, i + 1)
CodedEnabled(r) == r.E /\ r.W = "main" /\ WalkChain(r, 1)   \* LuaDiagnostic::diagnose_file returns None first

\* Known finding, keyed by mechanism: the file-level `enable` test comes before the meta-file test, so a
\* meta file that contains `---@diagnostic enable: X` reports X although "meta files report nothing".
KF_MetaFileEnable(r) == r.E /\ r.W = "main" /\ r.M /\ r.FE

ChainAgrees(r) == \/ StatedEnabled(r) = "unspecified"
                  \/ KF_MetaFileEnable(r)
                  \/ CodedEnabled(r) = (StatedEnabled(r) = "report")

Levels == {"error", "warning", "information", "hint"}
SevRows == [kind : {"severity"}, S : Levels]
\* names used by the programs: foo, baz are undefined globals; abstract regexes with their match relation
GlobalLists == {{}, {"foo"}, {"bar"}, {"foo", "baz"}}
Regexes == {"none", "^fo+$", "^ba", "^x"}
RegexMatch == {<<"^fo+$", "foo">>, <<"^ba", "baz">>, <<"^ba", "bar">>}
GlobRows == [kind : {"globals"}, G : GlobalLists, R : Regexes]
UndefReported(r, name) == name \notin r.G /\ <<r.R, name>> \notin RegexMatch

CfgRows == ChainRows \cup SevRows \cup GlobRows
InitCfg == rows = <<>> /\ depth = 0 /\ hasC = FALSE /\ crow \in CfgRows
SpecCfg == InitCfg /\ [][UNCHANGED vars]_vars

ChainDesign == crow.kind = "chain" => ChainAgrees(crow)
EmitCfg ==
  CASE crow.kind = "chain" ->
         PrintT(<<"ROW", ToJson([kind |-> "chain", E |-> crow.E, W |-> crow.W, M |-> crow.M, FE |-> crow.FE,
                                 WD |-> crow.WD, FD |-> crow.FD, WE |-> crow.WE, D |-> crow.D,
                                 stated |-> StatedEnabled(crow), coded |-> CodedEnabled(crow),
                                 kf |-> KF_MetaFileEnable(crow)])>>)
    [] crow.kind = "severity" -> PrintT(<<"ROW", ToJson([kind |-> "severity", S |-> crow.S, expect |-> crow.S])>>)
    [] crow.kind = "globals" ->
         PrintT(<<"ROW", ToJson([kind |-> "globals", G |-> crow.G, R |-> crow.R,
                                 foo |-> UndefReported(crow, "foo"), baz |-> UndefReported(crow, "baz")])>>)
    [] OTHER -> TRUE
=============================================================================
