-------------------------------- MODULE DiagWF --------------------------------
(* C21: reported diagnostics are well formed and complete for syntax errors.

   Two specifications in one module.

   SpecGen (generator): a program is a sequence of <= MaxLines lines taken from a small library of token
   sequences (statements that trigger various checkers, doc comments, non-ASCII string literals, varargs,
   tables with duplicate keys, ...), joined by a line terminator (LF or CR LF), and then optionally
   corrupted: one token dropped, one token duplicated, or the token stream truncated after token k
   ("truncated files").  TLC enumerates all of them (or a hash-sampled subset) and prints them.
   A second family ("err", WithErr = TRUE) takes one line from ErrLib -- one line per message template of
   the syntax-error checker, of the numeral / string-literal analysers and of the lexer / parser / doc-parser
   error paths: invalid escapes, unfinished strings and long brackets, malformed numerals, operators without
   operands, stray brackets (several DIFFERENT errors at one range), broken statements and doc tags -- alone
   (with every token drop / truncation) or next to a valid line.

   SpecJudge (validation of recorded results): the harness runs the real analysis + diagnose_file on every
   generated program under the default and the "all codes enabled" configuration and records, per run,
   the document's line table (UTF-16 length of every line, LSP line terminators), the diagnostics and the
   parser's error list (byte ranges converted to LSP positions by the glue with the same independent
   rules) together with the id of its message in the record's message table.  TLC reads the records
   (IOEnv.RECS) and evaluates the well-formedness predicates of the property on each; the verdict (set of
   failed predicates with witnesses) is printed per record.  Parse errors are related to diagnostics as
   (range, message) pairs: two different errors at one range need two diagnostics.  *)
EXTENDS Naturals, Sequences, FiniteSets, TLC, Json, IOUtils

CONSTANTS MaxLines,    \* generator: number of library lines per program
          EmitMod,     \* generator: print programs whose hash is 0 mod EmitMod
          Mode,        \* "gen" | "judge"
          WithErr      \* generator: also the "err" family (ErrLib lines)

VARIABLES prog,        \* generator: [lines : Seq(library index), nl : terminator, mut : <<kind, k>>]
          rec          \* judge: index of the record under judgement
vars == <<prog, rec>>

\* ---------------------------------------------------------------------------------------------
\* generator
\* ---------------------------------------------------------------------------------------------
\* <...> tokens are concretised by the glue: <STR8> = a string literal with a 2-byte and an astral character,
\* <DOCP> = `---@param x integer` + line end, <DOCT> = `---@type string` + line end, <DOCBAD> = `---@param` + line end
Lib == <<
  <<"foo", "(", ")">>,
  <<"local", "u", "=", "1">>,
  <<"local", "t", "=", "{", "a", "=", "1", ",", "a", "=", "2", "}">>,
  <<"local", "s", "=", "<STR8>", "..", "foo">>,
  <<"if", "x", "then", "y", "(", ")", "end">>,
  <<"for", "i", "=", "1", ",", "2", "do", "i", "=", "3", "end">>,
  <<"<DOCP>", "local", "function", "f", "(", "x", ")", "return", "x", "end", "f", "(", "<STR8>", ")">>,
  <<"<DOCT>", "local", "v", "=", "1">>,
  <<"<DOCBAD>", "function", "g", "(", "...", ")", "return", "...", "end">>,
  <<"return", "...">>,
  <<"local", "c", "<const>", "=", "1", "c", "=", "2">>,
  <<"x", "=", "=", "2">>
>>
NLib == Len(Lib)

(* One line per error message template.  <q> <sq> <bs> stand for a double quote, a single quote and a backslash
   (substituted by the glue), <e2> for a 2-byte character.  *)
ErrLib == <<
  \* string literals: the syntax-error checker's escape checks, the lexer's unfinished strings / long brackets
  <<"local", "s", "=", "<q><bs>u{D800}<q>">>,
  <<"local", "s", "=", "<sq><bs>u{110000}<sq>">>,
  <<"local", "s", "=", "<q><e2><bs>u{DFFF}<e2><q>">>,
  <<"local", "s", "=", "<q><bs>u{FFFFFFFFFF}<q>">>,
  <<"local", "s", "=", "<q><bs>xZZ<q>">>,
  <<"local", "s", "=", "<q><bs>x4<q>">>,
  <<"local", "s", "=", "<q><bs>400<q>">>,
  <<"local", "s", "=", "<q><bs>u{<q>">>,
  <<"local", "s", "=", "<q><bs>q<q>">>,
  <<"local", "s", "=", "<q>abc">>,
  <<"local", "s", "=", "<sq>a<e2>c">>,
  <<"local", "s", "=", "[[abc">>,
  <<"local", "s", "=", "[==[abc]]">>,
  <<"--[[", "abc">>,
  \* numerals: lexer ("unexpected character after number literal") and int / float analysers
  <<"local", "n", "=", "0x">>,
  <<"local", "n", "=", "3x">>,
  <<"local", "n", "=", "0xg">>,
  <<"local", "n", "=", "0b12">>,
  <<"local", "n", "=", "1..2">>,
  <<"local", "n", "=", "1.2.3">>,
  <<"local", "n", "=", "1e">>,
  <<"local", "n", "=", "0x1p">>,
  <<"local", "n", "=", "1_000">>,
  <<"local", "n", "=", "99999999999999999999">>,
  <<"local", "n", "=", "0xffffffffffffffffff">>,
  \* expressions and statements: operators without operand, stray tokens (several errors at one range), recovery
  <<"local", "a", "=", "-">>,
  <<"local", "a", "=", "not">>,
  <<"local", "a", "=", "1", "+">>,
  <<"local", "a", "=", "1", "+", "*", "2">>,
  <<"local", "t", "=", "{", "1", ",", ",", "}">>,
  <<"local", "t", "=", "{", "1", ";", ";", "}">>,
  <<"[">>,
  <<"]">>,
  <<"?">>,
  <<"$">>,
  <<"@">>,
  <<"~">>,
  <<"a", "?", "b">>,
  <<"repeat">>,
  <<"for", "x", "local", "y", "=", "1">>,
  <<"x", "=", "}">>,
  <<"a", ".", "=", "1">>,
  <<"goto">>,
  <<"::">>,
  <<"::", "l">>,
  <<"local", "function">>,
  <<"function", "f", "(", "a", ",", ")", "end">>,
  <<"f", "(", "1", ",", ")">>,
  <<"return", "return">>,
  <<"break">>,
  <<"a", "=", "1", "~=">>,
  <<"x", "=", "1", "..">>,
  <<"end">>,
  <<"else">>,
  <<"until">>,
  <<"then">>,
  <<"do">>,
  <<"while">>,
  <<"if", "x", "then", "elseif">>,
  <<"for", "i", "=", "1", ",", "2", ",", "do", "end">>,
  <<"for", "k", ",", "in", "x", "do", "end">>,
  <<"for", "k", "in", "do", "end">>,
  <<"for", "k", ",", "v", "x", "do", "end">>,
  <<"function", "a", ".", "(", ")", "end">>,
  <<"function", "(", ")", "end">>,
  <<"global", "function">>,
  <<"local", "x", ",", "=", "1">>,
  <<"a", ":", "b">>,
  <<"a", "(", "{">>,
  <<"x", "=", "(", ")">>,
  <<"x", "=", "a", "[", "]">>,
  <<"local", "t", "=", "{", "[", "1", "]", "}">>,
  <<"local", "t", "=", "{", "[", "1", "}">>,
  <<"local", "t", "=", "{", "a", "=", "}">>,
  <<"local", "s", "=", "[=abc">>,
  <<"goto", "l">>,
  \* version-dependent lexer / parser errors (the glue also analyses these under runtime.version = Lua5.1)
  <<"local", "a", "=", "1", "//", "2">>,
  <<"local", "a", "=", "1", "&", "2">>,
  <<"local", "x", "<close>", "=", "1">>,
  <<"local", "x", "<", "=", "1">>,
  <<"local", "x", "<const", "=", "1">>,
  <<"local", "<const>", "x", "=", "1">>,
  \* doc comments: doc-parser error paths
  <<"---@field", "1">>,
  <<"---@field", "public">>,
  <<"---@param", ",">>,
  <<"---@param", "end">>,
  <<"---@type", "fun(">>,
  <<"---@type", "{">>,
  <<"---@type", "string", "|">>,
  <<"---@type", "A", "|", "|", "B">>,
  <<"---@type", "keyof">>,
  <<"---@type", "string[">>,
  <<"---@type", "table<">>,
  <<"---@class">>,
  <<"---@class", "A", ":">>,
  <<"---@class", "A<">>,
  <<"---@cast", "x">>,
  <<"---@generic", "const">>,
  <<"---@type", "fun">>,
  <<"---@see">>,
  <<"---@version", ">">>,
  <<"---@module">>,
  <<"---@source">>,
  <<"---@operator", "add(">>,
  <<"---@diagnostic", "disable-next-line:">>
>>
NErr == Len(ErrLib)
AllLib == Lib \o ErrLib

RECURSIVE Flat(_)
Flat(ls) == IF ls = <<>> THEN <<>> ELSE AllLib[Head(ls)] \o <<"<NL>">> \o Flat(Tail(ls))
NTok(ls) == Len(Flat(ls))

BaseSeqs == UNION {[1..n -> 1..NLib] : n \in 1..MaxLines}
\* the "err" family: an ErrLib line alone, after the valid line `foo ( )`, before the valid line `local u = 1`
ErrAlone == {<<NLib + e>> : e \in 1..NErr}
ErrSeqs == IF WithErr THEN ErrAlone \cup {<<1, NLib + e>> : e \in 1..NErr} \cup {<<NLib + e, 2>> : e \in 1..NErr} ELSE {}
\* the "sw" family (second seeded round): `syntax-error` and `doc-syntax-error` are two codes with two switches.  A
\* program with BOTH kinds of parse error (a broken doc tag and a broken statement, either order) is analysed with
\* exactly one of the two codes disabled -- by the configuration (`diagnostics.disable`) or by a top-level
\* `---@diagnostic disable: <code>` comment in front of the program (file-wide) -- and with neither disabled (control).
\* The property demands the errors of the OTHER kind as diagnostics ("unless that code is disabled").
SwDocSet == {<<"---@type", "fun(">>, <<"---@field", "1">>, <<"---@param", ",">>, <<"---@class", "A", ":">>,
             <<"---@type", "string", "|">>, <<"---@cast", "x">>, <<"---@version", ">">>, <<"---@operator", "add(">>}
SwSynSet == {<<"local", "a", "=", "-">>, <<"]">>, <<"x", "=", "}">>, <<"local", "s", "=", "<q>abc">>,
             <<"local", "n", "=", "0x">>, <<"for", "k", "in", "do", "end">>, <<"local", "x", ",", "=", "1">>,
             <<"return", "return">>}
IdxOf(S) == {NLib + e : e \in {e \in 1..NErr : ErrLib[e] \in S}}
SwSeqs == IF WithErr THEN {<<d, y>> : d \in IdxOf(SwDocSet), y \in IdxOf(SwSynSet)}
                          \cup {<<y, d>> : d \in IdxOf(SwDocSet), y \in IdxOf(SwSynSet)}
          ELSE {}
NoSwitch == <<"none", "none">>
Switches == {NoSwitch} \cup {<<c, h>> : c \in {"syntax-error", "doc-syntax-error"}, h \in {"config", "comment"}}
\* the kind of parse error whose diagnostics the switch turns off ("syntax" / "doc" as the parser names them)
SwitchedOff(sw) == CASE sw[1] = "syntax-error" -> <<"syntax">> [] sw[1] = "doc-syntax-error" -> <<"doc">> [] OTHER -> <<>>
LineSeqs == BaseSeqs \cup ErrSeqs
Muts(ls) == CASE ls \in BaseSeqs -> {<<"none", 0>>} \cup {<<m, k>> : m \in {"drop", "dup", "trunc"}, k \in 1..NTok(ls)}
              [] ls \in ErrAlone -> {<<"none", 0>>} \cup {<<m, k>> : m \in {"drop", "trunc"}, k \in 1..NTok(ls)}
              [] OTHER -> {<<"none", 0>>}

InitGen == /\ rec = 0
           /\ \/ \E ls \in LineSeqs : \E nl \in {"LF", "CRLF"} : \E m \in Muts(ls) :
                prog = [lines |-> ls, nl |-> nl, mut |-> m, sw |-> NoSwitch]
              \/ \E ls \in SwSeqs : \E nl \in {"LF", "CRLF"} : \E sw \in Switches :
                prog = [lines |-> ls, nl |-> nl, mut |-> <<"none", 0>>, sw |-> sw]
InitJudge == prog = <<>> /\ rec \in 1..Len(ndJsonDeserialize(IOEnv.RECS))
Init == IF Mode = "gen" THEN InitGen ELSE InitJudge
Next == UNCHANGED vars
Spec == Init /\ [][Next]_vars

Apply(ts, m) ==
  CASE m[1] = "none" -> ts
    [] m[1] = "drop" -> SubSeq(ts, 1, m[2] - 1) \o SubSeq(ts, m[2] + 1, Len(ts))
    [] m[1] = "dup" -> SubSeq(ts, 1, m[2]) \o SubSeq(ts, m[2], Len(ts))
    [] m[1] = "trunc" -> SubSeq(ts, 1, m[2])
\* a switch by comment: the directive is a comment of its own (blank line after it) at the top level of the file
SwPrefix == IF prog.sw[2] = "comment" THEN <<"---@diagnostic", "disable:", prog.sw[1], "<NL>", "<NL>">> ELSE <<>>
Tokens == SwPrefix \o Apply(Flat(prog.lines), prog.mut)

RECURSIVE SeqHash(_, _)
SeqHash(s, i) == IF i > Len(s) THEN 0 ELSE (i + 2) * s[i] + SeqHash(s, i + 1)
GenHash == SeqHash(prog.lines, 1) * 7 + prog.mut[2] * 3
           + (CASE prog.mut[1] = "none" -> 0 [] prog.mut[1] = "drop" -> 1 [] prog.mut[1] = "dup" -> 2 [] OTHER -> 3)
           + (IF prog.nl = "LF" THEN 0 ELSE 5)
IsErr == prog.lines \in ErrSeqs
IsSw == prog.lines \in SwSeqs
EmitGen == IF Mode = "gen" /\ (IsErr \/ IsSw \/ GenHash % EmitMod = 0)
           THEN PrintT(<<"PROG", ToJson([toks |-> Tokens, nl |-> prog.nl, lines |-> prog.lines, mut |-> prog.mut,
                                         fam |-> IF IsSw THEN "sw" ELSE IF IsErr THEN "err" ELSE "base",
                                         sw |-> prog.sw, off |-> SwitchedOff(prog.sw)])>>)
           ELSE TRUE

\* ---------------------------------------------------------------------------------------------
\* judge: well-formedness predicates over a recorded result
\* ---------------------------------------------------------------------------------------------
(* record = [id, lens : Seq(Nat)            UTF-16 length of every line of the document (>= 1 line)
             none : BOOLEAN                 diagnose_file returned None
             syn : BOOLEAN                  syntax-error / doc-syntax-error are enabled in this configuration
             off : Seq({"syntax", "doc"})   kinds of parse error whose code is disabled in this run (both when ~syn)
             diags : Seq(<<sl, sc, el, ec, code, hasSeverity, placeholder, msgid>>)
             errs : Seq(<<sl, sc, el, ec, msgid, kind>>) the parser's error list at LSP positions; msgid refers to the
                                            same message table as the diagnostics' msgid]  *)
KnownCodes == {
  "syntax-error", "doc-syntax-error", "type-not-found", "missing-return", "param-type-mismatch", "missing-parameter",
  "redundant-parameter", "unreachable-code", "unused", "undefined-global", "deprecated", "access-invisible",
  "discard-returns", "undefined-field", "local-const-reassign", "iter-variable-reassign", "duplicate-type",
  "redefined-local", "redefined-label", "code-style-check", "need-check-nil", "await-in-sync", "annotation-usage-error",
  "return-type-mismatch", "missing-return-value", "redundant-return-value", "undefined-doc-param", "duplicate-doc-field",
  "unknown-doc-tag", "missing-fields", "inject-field", "circle-doc-class", "incomplete-signature-doc", "missing-global-doc",
  "assign-type-mismatch", "duplicate-require", "non-literal-expressions-in-assert", "unbalanced-assignments",
  "unnecessary-assert", "unnecessary-if", "duplicate-set-field", "duplicate-index", "generic-constraint-mismatch",
  "cast-type-mismatch", "unresolved-require", "require-module-not-visible", "enum-value-mismatch", "preferred-local-alias",
  "read-only", "global-in-non-module", "attribute-param-type-mismatch", "attribute-missing-parameter",
  "attribute-redundant-parameter", "invert-if", "call-non-callable", "inconsistent-type-access-modifier",
  "missing-type-argument" }

Recs == ndJsonDeserialize(IOEnv.RECS)
R == Recs[rec]

InDoc(r, l, c) == l < Len(r.lens) /\ c <= r.lens[l + 1]
Ordered(d) == d[1] < d[3] \/ (d[1] = d[3] /\ d[2] <= d[4])
RangeOK(r, d) == InDoc(r, d[1], d[2]) /\ InDoc(r, d[3], d[4]) /\ Ordered(d)
IsSyntax(d) == d[5] \in {"syntax-error", "doc-syntax-error"}

BadRange(r) == {i \in 1..Len(r.diags) : ~RangeOK(r, r.diags[i])}
UnknownCode(r) == {i \in 1..Len(r.diags) : r.diags[i][5] \notin KnownCodes}
NoSeverity(r) == {i \in 1..Len(r.diags) : r.diags[i][6] = 0}
Placeholder(r) == {i \in 1..Len(r.diags) : r.diags[i][7] = 1}
Duplicates(r) == {j \in 1..Len(r.diags) : \E i \in 1..(j - 1) : r.diags[i] = r.diags[j]}
\* parse errors without a syntax-error diagnostic of their own (same range AND same message: different errors at one
\* range need different diagnostics; identical errors are one error) -- only demanded when the codes are on
Covers(d, e) == IsSyntax(d) /\ SubSeq(d, 1, 4) = SubSeq(e, 1, 4) /\ d[8] = e[5]
\* "unless that code is disabled": an error is exempt only if the code of ITS kind is off
IsOff(r, kind) == \E j \in 1..Len(r.off) : r.off[j] = kind
Uncovered(r) == IF r.none THEN {}
                ELSE {k \in 1..Len(r.errs) : /\ ~IsOff(r, r.errs[k][6])
                                              /\ ~\E i \in 1..Len(r.diags) : Covers(r.diags[i], r.errs[k])}

Verdict(r) == [id |-> r.id, range |-> BadRange(r), code |-> UnknownCode(r), severity |-> NoSeverity(r),
               placeholder |-> Placeholder(r), duplicate |-> Duplicates(r), uncovered |-> Uncovered(r)]
EmitJudge == IF Mode = "judge" THEN PrintT(<<"VERDICT", ToJson(Verdict(R))>>) ELSE TRUE
=============================================================================
