SPECIFICATION FSpec
CONSTANTS
  Mode = "focus"
  MaxStmts = 1
  Families = {"quote", "comment", "doc", "lambda", "semi", "blank"}
  Full = FALSE
  PerPoint = 0
INVARIANT Emit
