------------------------------ MODULE VfsCache ------------------------------
(* C04: parse results do not depend on earlier parses.

   Model of  crates/emmylua_code_analysis/src/vfs/mod.rs  (Vfs::set_file_content / update_config /
   remove_file, one `node_cache: rowan::NodeCache` shared by every parse) together with the part of
   rowan's interning that matters for the property: a green token is looked up in the cache by a key and
   the cached value is handed back to the tree.

   A snippet is a sequence of lexemes; the lexer assigns a token *kind* that may depend on the language
   level in force at parse time (`goto` is a name at Lua 5.1 and a keyword from 5.2; `global` is re-tagged
   by the grammar at 5.5).  The cache maps a key to the token value stored when that key was first
   interned.  With KeyByTextOnly = FALSE the key is <<kind, text>> (rowan: kind + text for tokens,
   kind + children for nodes); the negative configuration VfsCache_neg.cfg sets it to TRUE (the mutation
   "key interned tokens by text only / collapse level-dependent kinds") and TLC must refute
   CacheTransparent, which shows the model can see a history-dependent tree at all.

   TLC enumerates every history of <= MaxSteps actions over Files x Snippets (+ level changes, removals),
   identifies histories that lead to the same abstract state (VIEW: files, cache, level -- not the
   history), checks CacheTransparent on every state and prints one representative history per abstract
   state with the expected (snippet, level) of every file after every step.  The harness replays each
   history through ONE real Vfs and compares, after every step and for every file, tree dump + error
   list with a fresh standalone parse of the expected (snippet, level); it also checks the level-dependent
   token kinds the model assumes (`kinds`) against the real lexer/grammar. *)
EXTENDS Naturals, Sequences, FiniteSets, TLC, Json

CONSTANTS Files, Snippets, Levels, MaxSteps, KeyByTextOnly

\* snippet id -> sequence of lexemes, joined by the harness with one space ("---@class A" is followed by a
\* line end); the table is emitted to the harness (TABLE), so it lives here only
Text ==
  [ s1 |-> <<"local", "a", "=", "1">>,
    s2 |-> <<"local", "a", "=", "1", "local", "b", "=", "2">>,
    s3 |-> <<"local", "a", "=", "2">>,
    s4 |-> <<"local", "goto", "=", "1">>,
    s5 |-> <<"goto", "a">>,
    s6 |-> <<"---@class A", "local", "a", "=", "1">>,
    s7 |-> <<"local", "a", "=", "{", "1", ",", "1", ",", "1", "}">>,
    s8 |-> <<"local", "a", "=">>,
    s9 |-> <<"global", "a">>,
    s10 |-> <<"a", "=", "1", "//", "2">> ]

ASSUME Snippets \subseteq DOMAIN Text

\* kind of a lexeme at a level ("name" / "kw" / "tok"); only `goto` and `global` are level dependent
Kind(x, lv) ==
  CASE x = "goto"   -> IF lv = "Lua51" THEN "name" ELSE "kw"
    [] x = "global" -> IF lv = "Lua55" THEN "kw" ELSE "name"
    [] x \in {"a", "b"} -> "name"
    [] x \in {"local"} -> "kw"
    [] OTHER -> "tok"

Tok(x, lv) == [kind |-> Kind(x, lv), text |-> x]
Fresh(s, lv) == [i \in 1..Len(Text[s]) |-> Tok(Text[s][i], lv)]
Key(t) == IF KeyByTextOnly THEN <<t.text>> ELSE <<t.kind, t.text>>

VARIABLES
  level,     \* language level of the current configuration
  content,   \* file -> [s: snippet, lv: level at parse time] or "none"
  tree,      \* file -> sequence of token values handed out by the cache, or <<>>
  cache,     \* function: key -> token value stored at first interning
  hist       \* history of actions with the expected state after each (not part of the VIEW)

vars == <<level, content, tree, cache, hist>>
view == <<level, content, tree, cache>>

None == [s |-> "none", lv |-> "none"]

Init ==
  /\ level \in Levels
  /\ content = [f \in Files |-> None]
  /\ tree = [f \in Files |-> <<>>]
  /\ cache = [k \in {} |-> k]          \* empty function
  /\ hist = <<[a |-> "Level", f |-> "", s |-> "", lv |-> level, exp |-> [f \in Files |-> None]]>>

\* intern the tokens of a fresh parse one after the other; returns <<tree, cache>>
RECURSIVE Intern(_, _, _)
Intern(toks, i, acc) ==
  IF i > Len(toks) THEN acc
  ELSE LET k == Key(toks[i])
           c == acc[2]
           hit == k \in DOMAIN c
           v == IF hit THEN c[k] ELSE toks[i]
           c2 == IF hit THEN c ELSE (k :> toks[i]) @@ c
       IN Intern(toks, i + 1, <<Append(acc[1], v), c2>>)

Expected(cont) == [f \in Files |-> cont[f]]

SetContent(f, s) ==
  LET r == Intern(Fresh(s, level), 1, <<<<>>, cache>>)
      c2 == [content EXCEPT ![f] = [s |-> s, lv |-> level]]
  IN /\ content' = c2
     /\ tree' = [tree EXCEPT ![f] = r[1]]
     /\ cache' = r[2]
     /\ hist' = Append(hist, [a |-> "Set", f |-> f, s |-> s, lv |-> level, exp |-> Expected(c2)])
     /\ UNCHANGED level

Remove(f) ==
  /\ content[f] # None
  /\ content' = [content EXCEPT ![f] = None]
  /\ tree' = [tree EXCEPT ![f] = <<>>]
  /\ hist' = Append(hist, [a |-> "Remove", f |-> f, s |-> "", lv |-> level, exp |-> Expected(content')])
  /\ UNCHANGED <<level, cache>>

\* Vfs::update_config: later parses use the new level; existing trees are kept as they are
SetLevel(lv) ==
  /\ lv # level
  /\ level' = lv
  /\ hist' = Append(hist, [a |-> "Level", f |-> "", s |-> "", lv |-> lv, exp |-> Expected(content)])
  /\ UNCHANGED <<content, tree, cache>>

Next ==
  /\ Len(hist) <= MaxSteps
  /\ \/ \E f \in Files, s \in Snippets : SetContent(f, s)
     \/ \E f \in Files : Remove(f)
     \/ \E lv \in Levels : SetLevel(lv)

Spec == Init /\ [][Next]_vars

\* ---- the property in the model: what a file's tree is does not depend on the cache's history
CacheTransparent ==
  \A f \in Files : content[f] # None => tree[f] = Fresh(content[f].s, content[f].lv)
\* the cache only grows and every entry answers its own key
CacheSound == \A k \in DOMAIN cache : Key(cache[k]) = k

\* ---- case emission: one history per abstract state (only complete or stuck-at-bound histories are needed,
\* but every prefix is a history too; the driver keeps the maximal ones)
LevelDependent(s) == {i \in 1..Len(Text[s]) : \E a, b \in Levels : Kind(Text[s][i], a) # Kind(Text[s][i], b)}
\* snippet table for the harness: lexemes of every snippet + the model's kind of every level-dependent lexeme
DepSet == {x \in Snippets \X Levels \X (1..10) : x[3] \in LevelDependent(x[1])}
Table == [text |-> [s \in Snippets |-> Text[s]],
          dep |-> {[s |-> x[1], lv |-> x[2], i |-> x[3], kind |-> Kind(Text[x[1]][x[3]], x[2])] : x \in DepSet}]
Emit == /\ (Len(hist) = 1 => PrintT(<<"TABLE", ToJson(Table)>>))
        /\ PrintT(<<"HIST", ToJson([h |-> hist, n |-> Len(hist) - 1])>>)
=============================================================================
