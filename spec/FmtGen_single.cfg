SPECIFICATION Spec
CONSTANTS
  Mode = "single"
  MaxStmts = 1
INVARIANT Emit
