SPECIFICATION Spec
CONSTANTS
  Variant = "fixed"
  Tokens = {"~", "/", ".", "a", "$", "{", "}", "e2", "W"}
  MaxLen = 5
  LongHeads = {"~"}
  EmitCases = TRUE
INVARIANTS NoCrash Absolute Idempotent StepsAgree Emit
