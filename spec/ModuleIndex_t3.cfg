SPECIFICATION Spec
CONSTANTS
  Files = {"F1", "F2", "F3", "F4", "F5", "F6", "F7", "F8", "F9"}
  PatternSets = {"default"}
  MapSets = {FALSE, TRUE}
  StrictSets = {FALSE}
  RootSets = {"w+lib"}
  MaxSteps = 4
VIEW View
INVARIANTS TreeOk FuzzyOk NameOk Agree RemovedUnresolvable Emit
