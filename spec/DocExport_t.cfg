SPECIFICATION Spec
CONSTANTS
  AlphaA = {"CF", "EN", "GA"}
  AlphaB = {"CF", "CB", "AL", "GA"}
  AlphaC = {"GT", "AL"}
  AlphaL = {"LC", "LG", "CF", "GA", "EN", "AL", "CB"}
  SortsBeforeExport = TRUE
  TwoRuns = FALSE
INVARIANTS AnyLocIsReference Emit
