SPECIFICATION Spec
CONSTANTS
  AlphaA = {"CF", "EN", "GA"}
  AlphaB = {"CF", "CB", "AL", "GA"}
  AlphaC = {"GT", "AL"}
  AlphaL = {"LC", "LG", "CF", "GA", "EN", "AL"}
  SortsBeforeExport = TRUE
  TwoRuns = FALSE
INVARIANTS AnyLocIsReference Emit
