------------------------------- MODULE MiniLua -------------------------------
(* Reference semantics of a Lua fragment, used to judge flow-sensitive type narrowing (C15, C41).

   One module, two phases (selected by the .cfg through SPECIFICATION):

   BuildSpec  TLC derives programs instruction by instruction (kind, then the holes of that kind: variable,
              expression, condition shape, literals), keeping the nesting well-formed and leaving enough room
              to close every open block.  Every complete program is printed (`PROG`).  Exhaustive in BFS mode
              for small constants, random derivations with -simulate for the large alphabet.

   RunSpec    loads the same programs back together with what the real analyzer CLAIMS at every probe
              (IOEnv.CASES, written by the harness), picks a program in Init and executes it with a small-step
              semantics.  `opaque()` returns ANY value of its domain, `count()`/`items()` any iteration count
              0..MaxIter, so TLC visits every runtime path of every program.  The property is the invariant
              `Sound`: whenever control is at `probe(v)` the Lua type of the value of v is in the claimed set
              (an empty claimed set = the analyzer considers the point unreachable).  Because a run of the check
              must report every unsound program and not only the first, the .cfg lists `Report` instead, which
              is `Sound` with the counterexample (program id, probe, value, the values opaque() returned so far,
              the probe log and the mechanism class) printed as a `VIOL` line; each is then re-executed in a real
              Lua VM by the harness.

   Instruction  [op, v, e, c]     op \in local assign if elseif else end while repeat until fornum forin break probe
   expression   e \in nil false true 0 s t (literal codes) | opaque opaque_any ; for fornum the bound: 0 2 ?
   condition    [n, sh, l]        n: outer `not`; sh \in T (literal true) A (one literal) AND OR ; l: the literals
   literal      [neg, k, v, t]    k \in type typene typer eqnil nenil nileq truthy

   Values are the literal codes.  Locals are declared at nesting depth 0 only (scoping is C13's subject).  *)
EXTENDS Naturals, Sequences, FiniteSets, TLC, Json, IOUtils

CONSTANTS Vars, Lits, Opaques, TypeNames, AtomKinds, Shapes, OuterNot, ForBounds, LoopKinds,
          MaxLen, MaxIter, Loops

VARIABLES phase,
          \* build phase
          prog, stack, pend, need, nprobe, loopClosed, goalMet,
          \* run phase
          cid, pc, env, iters, rem, choices, log, src, carried, exited, taint, status

bvars == <<prog, stack, pend, need, nprobe, loopClosed, goalMet>>
rvars == <<cid, pc, env, iters, rem, choices, log, src, carried, exited, taint, status>>
vars == <<phase, bvars, rvars>>

LoopOps == {"while", "repeat", "fornum", "forin"}
Openers == LoopOps \cup {"if"}
Closers == {"end", "until"}
CondOps == {"if", "elseif", "while", "until"}
AllValues == {"nil", "false", "true", "0", "s", "t"}

NoCond == [n |-> FALSE, sh |-> "", l |-> <<>>]
Blank(op) == [op |-> op, v |-> "", e |-> "", c |-> NoCond]
None == Blank("")

-----------------------------------------------------------------------------
(* Values and conditions *)
TypeOf(val) == CASE val = "nil" -> "nil"
                 [] val \in {"false", "true"} -> "boolean"
                 [] val = "0" -> "number"
                 [] val = "s" -> "string"
                 [] val = "t" -> "table"
\* the finer classes the analyzer can also express (boolean constants); informational only
FineOf(val) == CASE val = "0" -> "number" [] val = "s" -> "string" [] val = "t" -> "table" [] OTHER -> val
Truthy(val) == val \notin {"nil", "false"}

EvalLit(l, e) ==
  LET val == e[l.v]
      base == CASE l.k \in {"type", "typer"} -> TypeOf(val) = l.t
                [] l.k = "typene" -> TypeOf(val) # l.t
                [] l.k \in {"eqnil", "nileq"} -> val = "nil"
                [] l.k = "nenil" -> val # "nil"
                [] l.k = "truthy" -> Truthy(val)
  IN base # l.neg

EvalCond(c, e) ==
  LET body == CASE c.sh = "T" -> TRUE
                [] c.sh = "A" -> EvalLit(c.l[1], e)
                [] c.sh = "AND" -> EvalLit(c.l[1], e) /\ EvalLit(c.l[2], e)
                [] c.sh = "OR" -> EvalLit(c.l[1], e) \/ EvalLit(c.l[2], e)
  IN body # c.n

\* what an expression can evaluate to
ValuesOf(e) == IF e \in {"opaque", "opaque_any"} THEN AllValues ELSE {e}
IsOpaque(e) == e \in {"opaque", "opaque_any"}

-----------------------------------------------------------------------------
(* Program structure (over a flat instruction sequence p) *)
RECURSIVE Scan(_, _, _)
Scan(p, j, d) == IF j > Len(p) THEN 0
                 ELSE IF p[j].op \in Openers THEN Scan(p, j + 1, d + 1)
                 ELSE IF p[j].op \in Closers THEN (IF d = 1 THEN j ELSE Scan(p, j + 1, d - 1))
                 ELSE Scan(p, j + 1, d)
\* closer (end / until) of the opener at i
MatchOf(p, i) == Scan(p, i + 1, 1)

RECURSIVE ScanClause(_, _, _)
ScanClause(p, j, d) == IF p[j].op \in Openers THEN ScanClause(p, j + 1, d + 1)
                       ELSE IF p[j].op \in Closers THEN (IF d = 0 THEN j ELSE ScanClause(p, j + 1, d - 1))
                       ELSE IF p[j].op \in {"elseif", "else"} /\ d = 0 THEN j
                       ELSE ScanClause(p, j + 1, d)
\* next elseif / else / end of the if-chain whose clause header is at i
NextClause(p, i) == ScanClause(p, i + 1, 0)
RECURSIVE IfEnd(_, _)
IfEnd(p, i) == LET n == NextClause(p, i) IN IF p[n].op = "end" THEN n ELSE IfEnd(p, n)

OpenerOf(p, j) == CHOOSE i \in 1..(j - 1) : p[i].op \in Openers /\ MatchOf(p, i) = j
MaxOf(S) == CHOOSE x \in S : \A y \in S : y <= x
\* innermost loop whose body contains instruction j (0 = none)
InnerLoop(p, j) == LET S == {i \in 1..(j - 1) : p[i].op \in LoopOps /\ MatchOf(p, i) > j}
                   IN IF S = {} THEN 0 ELSE MaxOf(S)
\* some loop is completely before instruction j
AfterLoop(p, j) == \E i \in 1..(j - 1) : p[i].op \in LoopOps /\ MatchOf(p, i) < j

\* where control goes when the condition of the if / elseif header at i is tested in environment e
RECURSIVE Branch(_, _, _)
Branch(p, i, e) == IF EvalCond(p[i].c, e) THEN i + 1
                   ELSE LET n == NextClause(p, i) IN
                        IF p[n].op = "elseif" THEN Branch(p, n, e) ELSE n + 1

\* loop classes as the analyzer's binder distinguishes them (used only to key mechanisms of violations)
LoopClass(ins) == CASE ins.op = "while" -> (IF ins.c.sh = "T" /\ ~ins.c.n THEN "whileT" ELSE "while")
                    [] ins.op = "repeat" -> "repeat"
                    [] ins.op = "fornum" -> (IF ins.e = "?" THEN "fornumD" ELSE "fornumS")
                    [] ins.op = "forin" -> "forin"

-----------------------------------------------------------------------------
(* Build phase *)
Top == IF stack = <<>> THEN "" ELSE stack[Len(stack)]
Declared == {prog[i].v : i \in {j \in 1..Len(prog) : prog[j].op = "local"}}
LoopOpen(st) == \E i \in 1..Len(st) : st[i] \in LoopOps

StackAfter(k) == IF k \in Openers THEN Append(stack, k)
                 ELSE IF k \in Closers THEN SubSeq(stack, 1, Len(stack) - 1)
                 ELSE IF k = "else" THEN [stack EXCEPT ![Len(stack)] = "else"]
                 ELSE stack
ClosedAfter(k) == loopClosed \/ (k \in Closers /\ Top \in LoopOps)
GoalAfter(k) == goalMet \/ (k = "probe" /\ loopClosed)

\* instructions still needed after appending k so that the program can be completed
NeedAfter(k) ==
  Len(StackAfter(k)) +
  (IF Loops = "some"
   THEN (IF GoalAfter(k) THEN 0
         ELSE IF ClosedAfter(k) \/ LoopOpen(StackAfter(k)) THEN 1 ELSE 3)
   ELSE (IF nprobe > 0 \/ k = "probe" THEN 0 ELSE 1))

\* pruning of derivations that add nothing: an assignment straight after an assignment to the same variable (the
\* first value is never observed) and a probe straight after a probe of the same variable
Redundant(k, v) == /\ prog # <<>>
                   /\ LET q == prog[Len(prog)] IN
                        \/ k = "assign" /\ q.op \in {"local", "assign"} /\ q.v = v
                        \/ k = "probe" /\ q.op = "probe" /\ q.v = v

KindOk(k) ==
  /\ (prog = <<>>) => (k = "local")
  /\ CASE k = "local" -> stack = <<>> /\ Declared # Vars
       [] k \in {"assign", "probe"} -> \E v \in Declared : ~Redundant(k, v)
       [] k = "if" -> Declared # {} \/ "T" \in Shapes
       [] k \in {"elseif", "else"} -> Top = "if"
       [] k = "end" -> Top \in {"if", "else", "while", "fornum", "forin"}
       [] k = "until" -> Top = "repeat"
       [] k \in LoopOps -> Loops # "none" /\ k \in LoopKinds
       [] k = "break" -> LoopOpen(stack)
       [] OTHER -> FALSE
  /\ Len(prog) + 1 + NeedAfter(k) <= MaxLen

Holes(k) == CASE k \in {"local", "assign"} -> <<"v", "e">>
              [] k = "probe" -> <<"v">>
              [] k \in CondOps -> <<"sh">>
              [] k = "fornum" -> <<"nb">>
              [] OTHER -> <<>>

Kinds == {"local", "assign", "probe", "if", "elseif", "else", "end", "while", "repeat", "until",
          "fornum", "forin", "break"}

\* the instruction p2 still has the holes n2; when none is left it is appended to the program
Settle(p2, n2) ==
  IF n2 = <<>>
  THEN /\ prog' = Append(prog, p2)
       /\ stack' = StackAfter(p2.op)
       /\ nprobe' = nprobe + (IF p2.op = "probe" THEN 1 ELSE 0)
       /\ loopClosed' = ClosedAfter(p2.op)
       /\ goalMet' = GoalAfter(p2.op)
       /\ pend' = None /\ need' = <<>>
  ELSE /\ pend' = p2 /\ need' = n2
       /\ UNCHANGED <<prog, stack, nprobe, loopClosed, goalMet>>

PickKind == /\ pend = None
            /\ \E k \in Kinds : KindOk(k) /\ Settle(Blank(k), Holes(k))

LitDomain == {l \in [neg : BOOLEAN, k : AtomKinds, v : Declared, t : TypeNames \cup {""}] :
                (l.t # "") <=> (l.k \in {"type", "typene", "typer"})}

\* a local declares a variable that is not declared yet (one declaration per variable, at depth 0)
Fill ==
  /\ pend # None
  /\ LET h == Head(need) rest == Tail(need) IN
     CASE h = "v" -> (\E v \in (IF pend.op = "local" THEN Vars \ Declared
                                  ELSE {w \in Declared : ~Redundant(pend.op, w)}) :
                        Settle([pend EXCEPT !.v = v], rest))
       [] h = "e" -> (\E e \in Lits \cup Opaques : Settle([pend EXCEPT !.e = e], rest))
       [] h = "nb" -> (\E e \in ForBounds : Settle([pend EXCEPT !.e = e], rest))
       [] h = "sh" -> (\E sh \in (IF Declared = {} THEN Shapes \cap {"T"} ELSE Shapes), n \in OuterNot :
                        Settle([pend EXCEPT !.c = [n |-> n, sh |-> sh, l |-> <<>>]],
                               CASE sh = "T" -> rest
                                 [] sh = "A" -> <<"lit">> \o rest
                                 [] OTHER -> <<"lit", "lit">> \o rest))
       [] h = "lit" -> (\E l \in LitDomain : Settle([pend EXCEPT !.c.l = Append(@, l)], rest))

\* complete programs end with a probe or a block closer (anything after the last probe is never observed)
Complete == /\ phase = "build" /\ pend = None /\ stack = <<>> /\ prog # <<>>
            /\ prog[Len(prog)].op \in {"probe", "end", "until"}
            /\ IF Loops = "some" THEN goalMet ELSE nprobe > 0

BuildInit == /\ phase = "build"
             /\ prog = <<>> /\ stack = <<>> /\ pend = None /\ need = <<>>
             /\ nprobe = 0 /\ loopClosed = FALSE /\ goalMet = FALSE
             /\ cid = 0 /\ pc = 0 /\ env = <<>> /\ iters = <<>> /\ rem = <<>> /\ choices = <<>> /\ log = <<>>
             /\ src = <<>> /\ carried = <<>> /\ exited = <<>> /\ taint = <<>> /\ status = ""
BuildNext == /\ (PickKind \/ Fill)
             /\ UNCHANGED <<phase, rvars>>
BuildSpec == BuildInit /\ [][BuildNext]_vars

\* "invariant" that prints every complete program once per distinct state
Emit == Complete => PrintT(<<"PROG", ToJson(prog)>>)

-----------------------------------------------------------------------------
(* Run phase *)
\* one JSON object per line: [id, prog, claims], claims[i] = [has, ty, hasfine, fine, nildiag] for instruction i
Cases == ndJsonDeserialize(IOEnv.CASES)
P == Cases[cid].prog
Claim(i) == Cases[cid].claims[i]
Range(f) == {f[i] : i \in DOMAIN f}

RunInit == /\ phase = "run"
           /\ prog = <<>> /\ stack = <<>> /\ pend = None /\ need = <<>>
           /\ nprobe = 0 /\ loopClosed = FALSE /\ goalMet = FALSE
           /\ cid \in 1..Len(Cases)
           /\ pc = 1
           /\ env = [v \in Vars |-> "nil"]
           /\ iters = [i \in 1..Len(Cases[cid].prog) |-> 0]
           /\ rem = [i \in 1..Len(Cases[cid].prog) |-> 0]
           /\ choices = <<>> /\ log = <<>>
           /\ src = [v \in Vars |-> 0]
           /\ carried = [v \in Vars |-> {}]
           /\ exited = [v \in Vars |-> {}]
           /\ taint = [exit |-> {}, back |-> {}]
           /\ status = "run"

\* variables whose current value was assigned inside the body of the loop (o, m)
AssignedIn(o, m) == {v \in Vars : src[v] > o /\ src[v] < m}
\* history of the current value of v, kept only to name the mechanism of a violation:
\*   carried[v]  classes of the loops whose back edge the value has travelled over since it was assigned
\*   exited[v]   classes of the loops the value was assigned in and that have been left since
MarkCarried(o, m) == carried' = [v \in Vars |-> IF v \in AssignedIn(o, m)
                                                 THEN carried[v] \cup {LoopClass(P[o])} ELSE carried[v]]
MarkExited(o, m) == exited' = [v \in Vars |-> IF v \in AssignedIn(o, m)
                                               THEN exited[v] \cup {LoopClass(P[o])} ELSE exited[v]]
Goto(n) == pc' = n

Step ==
  /\ status = "run" /\ pc <= Len(P)
  /\ LET ins == P[pc] op == ins.op IN
     CASE op \in {"local", "assign"} ->
            /\ \E val \in ValuesOf(ins.e) :
                 /\ env' = [env EXCEPT ![ins.v] = val]
                 /\ choices' = IF IsOpaque(ins.e) THEN Append(choices, val) ELSE choices
            /\ src' = [src EXCEPT ![ins.v] = pc]
            /\ carried' = [carried EXCEPT ![ins.v] = {}]
            /\ exited' = [exited EXCEPT ![ins.v] = {}]
            /\ Goto(pc + 1)
            /\ UNCHANGED <<iters, rem, log, status>>
       [] op = "if" ->
            /\ Goto(Branch(P, pc, env))
            /\ UNCHANGED <<env, iters, rem, choices, log, src, carried, exited, status>>
       [] op \in {"elseif", "else"} ->      \* reached by falling out of the preceding block
            /\ Goto(IfEnd(P, pc) + 1)
            /\ UNCHANGED <<env, iters, rem, choices, log, src, carried, exited, status>>
       [] op = "while" ->
            IF EvalCond(ins.c, env)
            THEN IF iters[pc] >= MaxIter
                 THEN /\ status' = "cut"
                      /\ UNCHANGED <<pc, env, iters, rem, choices, log, src, carried, exited>>
                 ELSE /\ iters' = [iters EXCEPT ![pc] = @ + 1]
                      /\ Goto(pc + 1)
                      /\ UNCHANGED <<env, rem, choices, log, src, carried, exited, status>>
            ELSE /\ iters' = [iters EXCEPT ![pc] = 0]
                 /\ Goto(MatchOf(P, pc) + 1)
                 /\ MarkExited(pc, MatchOf(P, pc))
                 /\ UNCHANGED <<env, rem, choices, log, src, carried, status>>
       [] op = "repeat" ->
            IF iters[pc] >= MaxIter
            THEN /\ status' = "cut"
                 /\ UNCHANGED <<pc, env, iters, rem, choices, log, src, carried, exited>>
            ELSE /\ iters' = [iters EXCEPT ![pc] = @ + 1]
                 /\ Goto(pc + 1)
                 /\ UNCHANGED <<env, rem, choices, log, src, carried, exited, status>>
       [] op = "until" ->
            LET o == OpenerOf(P, pc) IN
            IF EvalCond(ins.c, env)
            THEN /\ iters' = [iters EXCEPT ![o] = 0]
                 /\ Goto(pc + 1)
                 /\ MarkExited(o, pc)
                 /\ UNCHANGED <<env, rem, choices, log, src, carried, status>>
            ELSE /\ Goto(o)
                 /\ MarkCarried(o, pc)
                 /\ UNCHANGED <<env, iters, rem, choices, log, src, exited, status>>
       [] op \in {"fornum", "forin"} ->     \* loop entry: the trip count is fixed here
            /\ \E n \in (IF op = "fornum" /\ ins.e # "?" THEN {IF ins.e = "0" THEN 0 ELSE 2} ELSE 0..MaxIter) :
                 /\ choices' = IF op = "forin" \/ ins.e = "?" THEN Append(choices, ToString(n)) ELSE choices
                 /\ IF n = 0
                    THEN /\ Goto(MatchOf(P, pc) + 1)
                         /\ rem' = rem
                    ELSE /\ Goto(pc + 1)
                         /\ rem' = [rem EXCEPT ![pc] = n - 1]
            /\ UNCHANGED <<env, iters, log, src, carried, exited, status>>
       [] op = "end" ->
            LET oe == OpenerOf(P, pc) ke == P[oe].op IN
            (CASE ke = "if" ->
                   /\ Goto(pc + 1)
                   /\ UNCHANGED <<env, iters, rem, choices, log, src, carried, exited, status>>
              [] ke = "while" ->
                   /\ Goto(oe)
                   /\ MarkCarried(oe, pc)
                   /\ UNCHANGED <<env, iters, rem, choices, log, src, exited, status>>
              [] ke \in {"fornum", "forin"} ->
                   IF rem[oe] > 0
                   THEN /\ rem' = [rem EXCEPT ![oe] = @ - 1]
                        /\ Goto(oe + 1)
                        /\ MarkCarried(oe, pc)
                        /\ UNCHANGED <<env, iters, choices, log, src, exited, status>>
                   ELSE /\ Goto(pc + 1)
                        /\ MarkExited(oe, pc)
                        /\ UNCHANGED <<env, iters, rem, choices, log, src, carried, status>>)
       [] op = "break" ->
            LET ob == InnerLoop(P, pc) mb == MatchOf(P, ob) IN
            /\ Goto(mb + 1)
            /\ iters' = [iters EXCEPT ![ob] = 0]
            /\ rem' = [rem EXCEPT ![ob] = 0]
            /\ MarkExited(ob, mb)
            /\ UNCHANGED <<env, choices, log, src, carried, status>>
       [] op = "probe" ->
            /\ log' = Append(log, <<pc, TypeOf(env[ins.v])>>)
            /\ Goto(pc + 1)
            /\ UNCHANGED <<env, iters, rem, choices, src, carried, exited, status>>

Finish == /\ status = "run" /\ pc > Len(P)
          /\ status' = "done"
          /\ UNCHANGED <<cid, pc, env, iters, rem, choices, log, src, carried, exited>>

\* control dependence: once a branch has been decided by a variable whose value has a loop history, everything
\* later on this path inherits that history (the analyzer's view of that variable decided which branch it
\* considers possible)
CondVars(c) == {c.l[k].v : k \in 1..Len(c.l)}
RECURSIVE ChainVars(_, _)
ChainVars(p, i) == LET n == NextClause(p, i) IN
                   CondVars(p[i].c) \cup (IF p[n].op = "elseif" THEN ChainVars(p, n) ELSE {})
TaintAfter ==
  LET ins == P[pc]
      ws == CASE ins.op = "if" -> ChainVars(P, pc)
              [] ins.op \in {"while", "until"} -> CondVars(ins.c)
              [] OTHER -> {}
  IN [exit |-> taint.exit \cup UNION {exited[w] : w \in ws},
      back |-> taint.back \cup UNION {carried[w] : w \in ws}]

RunNext == /\ \/ Step /\ taint' = TaintAfter
              \/ Finish /\ UNCHANGED taint
           /\ UNCHANGED <<phase, bvars, cid>>
RunSpec == RunInit /\ [][RunNext]_vars

\* executions that differ only in their history are the same state of the program
RunView == <<cid, pc, env, iters, rem, src, carried, exited, taint, status>>

-----------------------------------------------------------------------------
(* The property *)
AtProbe == phase = "run" /\ status = "run" /\ pc <= Len(P) /\ P[pc].op = "probe"
PVal == env[P[pc].v]

\* C15 / C41: the claimed set contains the runtime type at every reached probe (claimed-unreachable = {})
Sound == AtProbe /\ Claim(pc).has => TypeOf(PVal) \in Range(Claim(pc).ty)
FineSound == AtProbe /\ Claim(pc).hasfine => FineOf(PVal) \in Range(Claim(pc).fine)

\* literals of a condition that mention v
Mentions(c, v) == \E i \in 1..Len(c.l) : c.l[i].v = v
\* classes of the loops that end before instruction j and whose body assigns v or whose condition tests v
LoopsBefore(p, j, v) ==
  LET rel(i) == LET m == MatchOf(p, i) IN
                  /\ p[i].op \in LoopOps /\ m < j
                  /\ \/ \E a \in (i + 1)..(m - 1) : p[a].op = "assign" /\ p[a].v = v
                     \/ Mentions(p[i].c, v) \/ Mentions(p[m].c, v)
  IN {LoopClass(p[i]) : i \in {a \in 1..(j - 1) : rel(a)}}

\* mechanism class of a violation = which waiver predicate (if any) covers it.  A value that reaches a probe
\* after leaving the loop it was assigned in (exit) or after travelling over a back edge (back) is subject to the
\* analyzer's loop handling; with both sets empty the violation is a plain narrowing defect.
Mechanism == LET v == P[pc].v IN [exit |-> exited[v] \cup taint.exit, back |-> carried[v] \cup taint.back]

\* C41 "correct code such as `while not v do v = f() end; use(v)` never gets a nil diagnostic": instruction j
\* directly follows a while / repeat loop without break whose exit condition is one literal on v that is false
\* whenever v is nil, so leaving the loop implies v ~= nil.  Result: the loop's class, or "" when not of that form.
ExitGuard(p, j, v) ==
  IF j > 1 /\ p[j - 1].op \in Closers /\ p[OpenerOf(p, j - 1)].op \in {"while", "repeat"}
  THEN LET o == OpenerOf(p, j - 1)
           c == IF p[o].op = "while" THEN p[o].c ELSE p[j - 1].c
           exits(e) == IF p[o].op = "while" THEN ~EvalCond(c, e) ELSE EvalCond(c, e)
       IN IF /\ ~\E b \in (o + 1)..(j - 2) : p[b].op = "break" /\ InnerLoop(p, b) = o
             /\ c.sh = "A" /\ c.l[1].v = v
             /\ \A e \in [Vars -> AllValues] : e[v] = "nil" => ~exits(e)
          THEN LoopClass(p[o]) ELSE ""
  ELSE ""

Observation == [id |-> Cases[cid].id, p |-> pc, v |-> P[pc].v, val |-> PVal, type |-> TypeOf(PVal),
                choices |-> choices, log |-> Append(log, <<pc, TypeOf(PVal)>>), mech |-> Mechanism,
                after |-> AfterLoop(P, pc)]

Report ==
  /\ (~Sound) => PrintT(<<"VIOL", ToJson(Observation)>>)
  /\ (Sound /\ ~FineSound) => PrintT(<<"FINE", ToJson(Observation)>>)
  \* C41, diagnostics: the analyzer reports a nil diagnostic for a use at this probe; `NILW` is a witness that nil
  \* does arrive here, `REACH` that the point is reached with a non-nil value
  /\ (AtProbe /\ Claim(pc).nildiag) =>
        PrintT(<<(IF PVal = "nil" THEN "NILW" ELSE "REACH"),
                 ToJson([id |-> Cases[cid].id, p |-> pc, choices |-> choices, after |-> AfterLoop(P, pc),
                         pre |-> LoopsBefore(P, pc, P[pc].v), guard |-> ExitGuard(P, pc, P[pc].v)])>>)
  \* every finished (or cut) representative execution with its probe log, to be compared with a real VM
  /\ (phase = "run" /\ status \in {"done", "cut"}) =>
        PrintT(<<"RUN", ToJson([id |-> Cases[cid].id, choices |-> choices, log |-> log, status |-> status])>>)

\* sanity of the semantics itself
TypeOK == phase = "run" =>
            /\ pc \in 1..(Len(P) + 1)
            /\ \A v \in Vars : env[v] \in AllValues
            /\ \A i \in DOMAIN iters : iters[i] <= MaxIter /\ rem[i] <= MaxIter
=============================================================================
