SPECIFICATION Spec
CONSTANTS
  Mode = "gen"
  Depth = 2
INVARIANTS Emit
