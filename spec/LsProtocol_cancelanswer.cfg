\* the design in which `cancel` answers RequestCanceled itself and the task stays silent when it finds its
\* token cancelled: TLC must find the id that is answered twice (cancel handled between TaskRespond and
\* TaskRemove) -- the model distinguishes the two steps of the wrapper task
SPECIFICATION Spec
CONSTANTS
  MaxMsgs = 2
  MaxReqs = 2
  StartPhases = {"ready"}
  Kinds = {"req", "cancel"}
  BadParams = {"error"}
  Panic = {"error"}
  BadInit = {"error"}
  PostShutdown = {"error"}
  CancelDesign = "answer"
  SyncWire = FALSE
VIEW view
INVARIANTS TypeOK AtMostOne
