------------------------------ MODULE LsProtocol ------------------------------
(* Request lifecycle of emmylua_ls (C24; re-used by C25/C26 through LsProtocolTrace).

   Transcribed from
     crates/emmylua_ls/src/server/mod.rs              run_ls: initialize handshake (lsp_server::Connection::
                                                      initialize_start / initialize_finish)
     crates/emmylua_ls/src/server/main_loop.rs        init task (initialized_handler) + oneshot
     crates/emmylua_ls/src/server/lsp_server.rs       wait_for_initialization / pending queue / main loop
     crates/emmylua_ls/src/server/message_processor.rs  can_process_during_init, handle_message
     crates/emmylua_ls/src/server/connection.rs       handle_shutdown (answers, then waits for exit)
     crates/emmylua_ls/src/handlers/request_handler.rs  dispatch_request!
     crates/emmylua_ls/src/handlers/notification_handler.rs  $/cancelRequest
     crates/emmylua_ls/src/context/mod.rs             ServerContext::task / cancel

   The server is one main loop that handles one client message at a time (the actions named SrvRecv, SrvDrain)
   plus one task per dispatched request (TaskRespond / TaskPanic, then TaskRemove) plus the initialization task
   (InitDone).  The client (ClientSend) follows the LSP life cycle only as far as the server depends on
   it: request ids are fresh, initialized follows the initialize answer, nothing follows exit.

   Four places where the code has a choice are parameters (sets of allowed behaviours), so that the
   same module is (a) the design that satisfies C24 (...= {"error"}), (b) the design of the pinned tree
   ({"drop"}, {"silent"}, {"die"}: TLC shows the ExactlyOne violation) and (c) the permissive
   implementation model used by LsProtocolTrace to explain any recorded stream while the C24 predicate
   is evaluated separately on it.

   Dead code not modelled: ServerContext::task's "res.is_none() -> InternalError" branch is only
   reachable through the panic path (dispatch_request! always returns Some(response)).

   Granularity of ServerContext::task / cancel (the steps are the real critical sections):
     main loop   DispatchOk      lock(cancellations); insert token; unlock; spawn the wrapper task
     task        (handler)       the handler future, any number of server-state lock sections
     task        TaskRespond /   cancel_token.is_cancelled() ? RequestCanceled : result -> sender.send
                 TaskPanic       (no lock, no await between the check and the send)
     task        TaskRemove      lock(cancellations); remove the entry; unlock
     main loop   Cancel          lock(cancellations); get; token.cancel(); unlock
   The main loop can therefore handle any number of client messages -- in particular $/cancelRequest
   for that very id -- between TaskRespond and TaskRemove: the entry is still registered although the
   id has been answered (st = "responded").  CancelDesign tells what `cancel` does with an entry it
   finds: "flag" only cancels the token (the task answers RequestCanceled when it ends: pinned tree);
   "answer" answers RequestCanceled itself, removes the entry, and the task returns silently when it
   finds its token cancelled (a design proposed in review: LsProtocol_cancelanswer.cfg shows the id
   that is answered twice).                                                                      *)
EXTENDS Naturals, Sequences, FiniteSets, TLC, Json

CONSTANTS
  MaxMsgs,       \* client messages per behaviour
  MaxReqs,       \* requests per behaviour; ids are 1..MaxReqs in sending order
  StartPhases,   \* subset of {"pre", "init", "ready"}
  Kinds,         \* message kinds the client uses (subset of AllKinds)
  BadParams,     \* subset of {"drop", "error"}   params do not deserialize in dispatch_request!
  Panic,         \* subset of {"silent", "error"} handler future panics inside ServerContext::task
  BadInit,       \* subset of {"die", "error"}    initialize params do not deserialize in run_ls
  PostShutdown,  \* subset of {"die", "error"}    a message other than exit after shutdown
  CancelDesign,  \* "flag" | "answer"             what ServerContext::cancel does with a registered entry
  SyncWire       \* TRUE: a message is read by the server before anything else happens (the in-process
                 \* session delivers synchronously); FALSE: messages may queue on the wire (stdio)

AllKinds == {"req", "cancel", "notif", "resp", "initialize", "initialized", "shutdown", "exit"}
ReqClasses == {"ok", "panic", "bad", "missing", "unknown"}
\* "any" (trace validation only): a well-formed request whose handler outcome is not known when it is sent
ClientReqClasses == IF "any" \in Kinds THEN ReqClasses \cup {"any"} ELSE ReqClasses
Ids == 1..MaxReqs

VARIABLES
  phase,      \* server: "pre" | "handshake" | "init" | "ready" | "shutdown" | "exited" | "dead"
  cstate,     \* client: "start" | "mustInitialized" | "run" | "done"
  wire,       \* client -> server messages not yet read by the server (FIFO)
  nmsg, nreq, \* messages / requests sent so far
  pending,    \* messages queued while the init task runs
  st,         \* id -> "unseen" | "sent" | "queued" | "running" | "responded" | "done"
              \*       ("responded": answer sent, wrapper task about to lock the cancellation map)
  outcome,    \* id -> what the handler of a running request will do: "ok" | "panic"
  tokens,     \* ids registered in ServerContext::cancellations
  cancelled,  \* ids whose CancellationToken has been cancelled
  resp,       \* id -> sequence of responses sent for that id
  how,        \* id -> which branch of the code decided the fate of the request (explanation label)
  hist        \* action labels (emission only; not part of the VIEW)

vars == <<phase, cstate, wire, nmsg, nreq, pending, st, outcome, tokens, cancelled, resp, how, hist>>
view == <<phase, cstate, wire, nmsg, nreq, pending, st, outcome, tokens, cancelled, resp, how>>

Respond(id, r) == resp' = [resp EXCEPT ![id] = Append(@, r)]
How(id, h) == how' = [how EXCEPT ![id] = h]
Log(e) == hist' = Append(hist, e)

\* response kinds
OK == "ok"                       \* result (possibly null)
ErrCancelled == "err-32800"
ErrInternal == "err-32603"
ErrNoMethod == "err-32601"
ErrParams == "err-32602"
ErrNotInit == "err-32002"
ErrInvalidReq == "err-32600"

-----------------------------------------------------------------------------
(* client *)
IsRequest(m) == m.k \in {"req", "initialize", "shutdown"}

ClientMsgs ==
  LET id == nreq + 1 IN
  IF cstate = "done" THEN {}
  ELSE IF cstate = "mustInitialized" THEN {[k |-> "initialized", id |-> 0, cls |-> "-"]}
  ELSE
       (IF nreq < MaxReqs
          THEN {[k |-> "req", id |-> id, cls |-> c] : c \in (IF "req" \in Kinds THEN ClientReqClasses ELSE {})}
               \cup {[k |-> "shutdown", id |-> id, cls |-> "-"] : x \in (IF "shutdown" \in Kinds THEN {1} ELSE {})}
               \cup {[k |-> "initialize", id |-> id, cls |-> c] :
                       c \in (IF "initialize" \in Kinds /\ cstate = "start" THEN {"ok", "bad"} ELSE {})}
          ELSE {})
       \* cancel of a finished, running, not yet sent (future) or never used (0) id
       \cup {[k |-> "cancel", id |-> t, cls |-> "-"] : t \in (IF "cancel" \in Kinds THEN 0..MaxReqs ELSE {})}
       \cup {[k |-> "notif", id |-> 0, cls |-> c] : c \in (IF "notif" \in Kinds THEN {"known", "unknown"} ELSE {})}
       \cup {[k |-> "resp", id |-> 0, cls |-> "-"] : x \in (IF "resp" \in Kinds /\ cstate = "run" THEN {1} ELSE {})}
       \cup {[k |-> "exit", id |-> 0, cls |-> "-"] : x \in (IF "exit" \in Kinds THEN {1} ELSE {})}

ClientSend(m) ==
  /\ nmsg < MaxMsgs
  /\ m \in ClientMsgs
  /\ SyncWire => wire = <<>>
  /\ wire' = Append(wire, m)
  /\ nmsg' = nmsg + 1
  /\ nreq' = IF IsRequest(m) THEN nreq + 1 ELSE nreq
  /\ st' = IF IsRequest(m) THEN [st EXCEPT ![m.id] = "sent"] ELSE st
  /\ cstate' = CASE m.k = "initialize" /\ m.cls = "ok" -> "mustInitialized"
                 [] m.k = "initialized" -> "run"
                 [] m.k = "exit" -> "done"
                 [] OTHER -> cstate
  /\ Log([a |-> "ClientSend", m |-> m])
  /\ UNCHANGED <<phase, pending, outcome, tokens, cancelled, resp, how>>

-----------------------------------------------------------------------------
(* dispatch of one message by the main loop in phase "ready" (handle_message) *)

\* dispatch_request!: params extracted, ServerContext::task registers a token and spawns
DispatchOk(m) ==
  /\ m.k = "req" /\ m.cls \in {"ok", "panic", "any"}
  /\ st' = [st EXCEPT ![m.id] = "running"]
  /\ outcome' = [outcome EXCEPT ![m.id] = m.cls]
  /\ tokens' = tokens \cup {m.id}
  /\ How(m.id, "dispatched")
  /\ UNCHANGED <<phase, cancelled, resp>>

\* dispatch_request!: registered method, extract fails ("missing" = absent params = Value::Null)
DispatchBadParams(m, mode) ==
  /\ m.k = "req" /\ m.cls \in {"bad", "missing"}
  /\ mode \in BadParams
  /\ st' = [st EXCEPT ![m.id] = "done"]
  /\ IF mode = "error" THEN Respond(m.id, ErrParams) ELSE UNCHANGED resp
  /\ How(m.id, "bad-params-" \o mode)
  /\ UNCHANGED <<phase, outcome, tokens, cancelled>>

\* dispatch_request!: no arm matches
DispatchUnknown(m) ==
  /\ m.k = "req" /\ m.cls = "unknown"
  /\ st' = [st EXCEPT ![m.id] = "done"]
  /\ Respond(m.id, ErrNoMethod)
  /\ How(m.id, "unknown-method")
  /\ UNCHANGED <<phase, outcome, tokens, cancelled>>

\* $/cancelRequest (ServerContext::cancel, one critical section of the cancellation map): cancel the
\* token if (and only if) one is registered -- which is the case from DispatchOk until TaskRemove
Cancel(m) ==
  /\ m.k = "cancel"
  /\ UNCHANGED <<phase, st, outcome>>
  /\ IF m.id \in tokens
       THEN /\ cancelled' = cancelled \cup {m.id}
            /\ IF CancelDesign = "answer"
                 THEN /\ tokens' = tokens \ {m.id}
                      /\ Respond(m.id, ErrCancelled)
                      /\ How(m.id, IF st[m.id] = "responded" THEN "cancel-answer-after-result" ELSE "cancel-answer")
                 ELSE UNCHANGED <<tokens, resp, how>>
       ELSE UNCHANGED <<tokens, cancelled, resp, how>>

\* other notifications (handled inline or in a spawned task, never answered), client responses
Ignore(m) ==
  /\ m.k \in {"notif", "resp", "initialized", "exit"}
  /\ UNCHANGED <<phase, st, outcome, tokens, cancelled, resp, how>>

\* AsyncConnection::handle_shutdown: answer, then block the main loop until the next message
Shutdown(m) ==
  /\ m.k = "shutdown"
  /\ st' = [st EXCEPT ![m.id] = "done"]
  /\ Respond(m.id, OK)
  /\ How(m.id, "shutdown")
  /\ phase' = "shutdown"
  /\ UNCHANGED <<outcome, tokens, cancelled>>

\* a second initialize after the handshake is just an unregistered method for dispatch_request!
LateInitialize(m) ==
  /\ m.k = "initialize"
  /\ st' = [st EXCEPT ![m.id] = "done"]
  /\ Respond(m.id, ErrNoMethod)
  /\ How(m.id, "unknown-method")
  /\ UNCHANGED <<phase, outcome, tokens, cancelled>>

Handle(m) ==
  \/ DispatchOk(m)
  \/ \E mode \in BadParams : DispatchBadParams(m, mode)
  \/ DispatchUnknown(m)
  \/ Cancel(m)
  \/ Ignore(m)
  \/ Shutdown(m)
  \/ LateInitialize(m)

-----------------------------------------------------------------------------
(* the main loop takes the next message from the wire *)

\* lsp_server::Connection::initialize_start (loop until a usable initialize)
RecvPre(m) ==
  /\ phase = "pre"
  /\ UNCHANGED <<pending, outcome, tokens, cancelled>>
  /\ \/ /\ m.k = "initialize" /\ m.cls = "ok"
        /\ Respond(m.id, OK) /\ phase' = "handshake"
        /\ st' = [st EXCEPT ![m.id] = "done"] /\ How(m.id, "initialize")
     \/ /\ m.k = "initialize" /\ m.cls = "bad"
        /\ \E mode \in BadInit :
             /\ How(m.id, "bad-init-" \o mode)
             /\ IF mode = "error"
                  THEN /\ Respond(m.id, ErrParams) /\ UNCHANGED phase
                       /\ st' = [st EXCEPT ![m.id] = "done"]
                  ELSE /\ phase' = "dead" /\ UNCHANGED <<resp, st>>          \* unwrap() panics
     \/ /\ m.k \in {"req", "shutdown"}
        /\ Respond(m.id, ErrNotInit) /\ UNCHANGED phase
        /\ st' = [st EXCEPT ![m.id] = "done"] /\ How(m.id, "not-initialized")
     \/ /\ m.k = "exit"                     \* ProtocolError: run_ls returns, the process ends
        /\ phase' = "exited" /\ UNCHANGED <<resp, st, how>>
     \/ /\ m.k \in {"cancel", "notif", "initialized", "resp"}   \* skipped
        /\ UNCHANGED <<phase, resp, st, how>>

\* lsp_server::Connection::initialize_finish waits for initialized
RecvHandshake(m) ==
  /\ phase = "handshake"
  /\ phase' = IF m.k = "initialized" THEN "init" ELSE "dead"
  /\ UNCHANGED <<pending, st, outcome, tokens, cancelled, resp, how>>

\* LspServer::wait_for_initialization
RecvInit(m) ==
  /\ phase = "init"
  /\ IF m.k \in {"resp", "cancel", "initialized"}
       THEN Handle(m) /\ UNCHANGED pending
       ELSE /\ pending' = Append(pending, m)
            /\ st' = IF IsRequest(m) THEN [st EXCEPT ![m.id] = "queued"] ELSE st
            /\ UNCHANGED <<phase, outcome, tokens, cancelled, resp, how>>

RecvReady(m) == phase = "ready" /\ pending = <<>> /\ Handle(m) /\ UNCHANGED pending

\* inside handle_shutdown: the message after shutdown
RecvShutdown(m) ==
  /\ phase = "shutdown"
  /\ UNCHANGED <<pending, outcome, tokens, cancelled>>
  /\ IF m.k = "exit" THEN phase' = "exited" /\ UNCHANGED <<resp, st, how>>
     ELSE \E mode \in PostShutdown :
            IF mode = "die"
              THEN /\ phase' = "dead" /\ UNCHANGED <<resp, st>>              \* ExitError: process ends
                   /\ IF IsRequest(m) THEN How(m.id, "post-shutdown-die") ELSE UNCHANGED how
              ELSE /\ UNCHANGED phase
                   /\ IF IsRequest(m)
                        THEN /\ Respond(m.id, ErrInvalidReq) /\ st' = [st EXCEPT ![m.id] = "done"]
                             /\ How(m.id, "post-shutdown-error")
                        ELSE UNCHANGED <<resp, st, how>>

SrvRecv ==
  /\ wire # <<>>
  /\ LET m == Head(wire) IN
       /\ (RecvPre(m) \/ RecvHandshake(m) \/ RecvInit(m) \/ RecvReady(m) \/ RecvShutdown(m))
       /\ Log([a |-> "SrvRecv", m |-> m])
  /\ wire' = Tail(wire)
  /\ UNCHANGED <<cstate, nmsg, nreq>>

Settled == SyncWire => wire = <<>>

\* initialized_handler finished: oneshot fires
InitDone ==
  /\ phase = "init" /\ Settled
  /\ phase' = "ready"
  /\ Log([a |-> "InitDone"])
  /\ UNCHANGED <<cstate, wire, nmsg, nreq, pending, st, outcome, tokens, cancelled, resp, how>>

\* process_pending_messages: strictly before any later message
SrvDrain ==
  /\ phase = "ready" /\ pending # <<>> /\ Settled
  /\ Handle(Head(pending))
  /\ pending' = Tail(pending)
  /\ Log([a |-> "SrvDrain", m |-> Head(pending)])
  /\ UNCHANGED <<cstate, wire, nmsg, nreq>>

-----------------------------------------------------------------------------
(* request tasks (ServerContext::task); they survive exited (run_ls joins the writer thread, which
   ends when the last sender clone is dropped) but not "dead" *)
Alive == phase # "dead"

\* the handler future has completed: is_cancelled() check and send (no lock, no await in between)
TaskRespond(id) ==
  /\ Alive /\ Settled /\ st[id] = "running" /\ outcome[id] \in {"ok", "any"}
  /\ IF CancelDesign = "answer" /\ id \in cancelled
       THEN /\ st' = [st EXCEPT ![id] = "done"]             \* `cancel` has answered and removed the entry
            /\ UNCHANGED <<resp, how>>
       ELSE /\ Respond(id, IF id \in cancelled THEN ErrCancelled ELSE OK)
            /\ How(id, IF id \in cancelled THEN "finish-cancelled" ELSE "finish")
            /\ st' = [st EXCEPT ![id] = "responded"]
  /\ Log([a |-> "TaskRespond", id |-> id])
  /\ UNCHANGED <<phase, cstate, wire, nmsg, nreq, pending, outcome, tokens, cancelled>>

\* the handler future panicked (JoinError observed by the wrapper task)
TaskPanic(id, mode) ==
  /\ Alive /\ Settled /\ st[id] = "running" /\ outcome[id] \in {"panic", "any"}
  /\ mode \in Panic
  /\ IF mode = "error"
       THEN IF CancelDesign = "answer" /\ id \in cancelled
              THEN /\ st' = [st EXCEPT ![id] = "done"]
                   /\ UNCHANGED <<resp, how>>
              ELSE /\ Respond(id, IF id \in cancelled THEN ErrCancelled ELSE ErrInternal)
                   /\ How(id, "panic-error")
                   /\ st' = [st EXCEPT ![id] = "responded"]
       ELSE /\ st' = [st EXCEPT ![id] = "done"]             \* the task is gone; its entry leaks
            /\ How(id, "panic-silent")
            /\ UNCHANGED resp
  /\ Log([a |-> "TaskPanic", id |-> id])
  /\ UNCHANGED <<phase, cstate, wire, nmsg, nreq, pending, outcome, tokens, cancelled>>

\* last step of the wrapper task: lock the cancellation map, remove the entry
TaskRemove(id) ==
  /\ Alive /\ Settled /\ st[id] = "responded"
  /\ st' = [st EXCEPT ![id] = "done"]
  /\ tokens' = tokens \ {id}
  /\ Log([a |-> "TaskRemove", id |-> id])
  /\ UNCHANGED <<phase, cstate, wire, nmsg, nreq, pending, outcome, cancelled, resp, how>>

-----------------------------------------------------------------------------
InitWith(p) ==
  /\ phase = p
  /\ cstate = IF p = "pre" THEN "start" ELSE "run"
  /\ wire = <<>> /\ pending = <<>> /\ nmsg = 0 /\ nreq = 0
  /\ st = [i \in Ids |-> "unseen"]
  /\ outcome = [i \in Ids |-> "-"]
  /\ tokens = {} /\ cancelled = {}
  /\ resp = [i \in Ids |-> <<>>]
  /\ how = [i \in Ids |-> "-"]

Init == (\E p \in StartPhases : InitWith(p)) /\ hist = <<[a |-> "Start", phase |-> phase]>>

Next ==
  \/ \E m \in ClientMsgs : ClientSend(m)
  \/ SrvRecv
  \/ InitDone
  \/ SrvDrain
  \/ \E id \in Ids : TaskRespond(id) \/ (\E mode \in Panic : TaskPanic(id, mode)) \/ TaskRemove(id)

Spec == Init /\ [][Next]_vars

-----------------------------------------------------------------------------
(* properties *)
Sent(id) == st[id] # "unseen"
Running == {id \in Ids : st[id] = "running"}
Responded == {id \in Ids : st[id] = "responded"}

\* nothing can happen any more on the server side
ServerIdle == /\ wire = <<>> \/ phase \in {"exited", "dead"}
              /\ phase # "init"
              /\ pending = <<>>
              /\ (Running \cup Responded = {} \/ phase = "dead")

TypeOK == /\ phase \in {"pre", "handshake", "init", "ready", "shutdown", "exited", "dead"}
          /\ CancelDesign \in {"flag", "answer"}
          /\ tokens \subseteq Ids /\ cancelled \subseteq Ids

\* C24: whenever the server has nothing left to do, every request sent has exactly one response
ExactlyOne == ServerIdle => \A id \in Ids : Sent(id) => Len(resp[id]) = 1
\* ... never more than one, never one for an id that was not sent
AtMostOne == \A id \in Ids : Len(resp[id]) <= 1
NoOrphan == \A id \in Ids : Len(resp[id]) > 0 => Sent(id)
\* the cancellation map holds exactly the requests whose wrapper task is still there (no leak after a
\* panic); in the "answer" design `cancel` removes the entry early
NoLeak == tokens = {id \in Running \cup Responded : CancelDesign = "answer" => id \notin cancelled}
\* RequestCanceled is only sent for requests the client cancelled
CancelAnswer == \A id \in Ids : (Len(resp[id]) = 1 /\ resp[id][1] = ErrCancelled) => id \in cancelled
\* the server keeps serving: it only stops through exit
NeverDead == phase # "dead"

-----------------------------------------------------------------------------
(* emission of complete behaviours for replay: one line per state in which the server is idle, i.e. every
   script of 1..MaxMsgs messages with every interleaving of task completions *)
Terminal == ServerIdle /\ nmsg >= 1
Emit == Terminal => PrintT(<<"BEH", ToJson([hist |-> hist, resp |-> resp, how |-> how, phase |-> phase])>>)
=============================================================================
