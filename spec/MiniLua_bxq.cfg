SPECIFICATION BuildSpec
CONSTANTS
  Vars = {"x"}
  Lits = {"nil", "false", "s"}
  Opaques = {"opaque"}
  TypeNames = {"nil", "boolean"}
  AtomKinds = {"truthy", "eqnil", "nenil", "type"}
  Shapes = {"A"}
  OuterNot = {FALSE}
  ForBounds = {"?"}
  LoopKinds = {}
  MaxLen = 5
  MaxIter = 2
  Loops = "none"
INVARIANTS Emit
