----------------------------- MODULE ParserTrace -----------------------------
(* Trace validation of recorded parses of the real LuaParser (C01; progress part of C02).

   The harness (vh_parse trace) parses TLC-generated inputs with the `verif` recorder on and writes,
   per parse, the lines
     Reset   len (input bytes), toks (lexer tokens as <<start, len>>), loop (token index at the top of
             every parse_chunk iteration), ntok
     Start k p | Eat c s n | End | Trivia      the MarkEvent stream handed to LuaTreeBuilder::build
     Finish                                    build()'s trailing finish_node
     Tree tree lossless errors                 pre-order of the tree rowan built + the harness's direct
                                               evaluation of "tree text = input"
     (Panic msg instead of Finish/Tree if the parse panicked)
   This module replays every stream through the transcribed builder (GreenBuilder.tla: same actions),
   resolving `precede` parent chains exactly like LuaTreeBuilder::build, and keeps, step by step,

     I_tile   lexer tokens tile 0..len without gap or overlap
     I_eat    the byte ranges of successive EatToken events tile 0..len (comment tokens are re-lexed by the
              doc lexer into sub-tokens, so the statement is on ranges, not token indexes)
     I_bal    the stream is well-formed for the builder (GreenBuilder!WellFormed): every NodeEnd has a node
              of the stream to close, the implicit Chunk is closed by the trailing finish_node only
     pre      the builder's preconditions EarlyOK, ~crossed (GreenBuilder!Safe), no unreachable!()
     I_root   exactly one top-level element when finish() runs (the Chunk, or after one early return the Block)
     predicted tree = real tree   (binding of the transcription to rowan's result)
     predicted Lossless            (all eaten tokens, in order, under the root)
     I_prog   C02: the token index strictly increases between parse_chunk iterations
     I_lin    C02: |events| <= EvK * (input bytes + 1) + EvC  (linear work, machine independent; bytes, not
              lexer tokens, because a whole comment is one lexer token that the doc lexer re-lexes)

   and prints one VERDICT per parse.  The flags are monotone history variables evaluated at every step;
   they are reported instead of being TLC invariants so that one bad parse does not hide the others.
   The run is accepted only if every line was consumed (POSTCONDITION AllConsumed). *)
EXTENDS GreenBuilder, Json, IOUtils

CONSTANTS EvK, EvC

Rec == ndJsonDeserialize(IOEnv.TRACE)
NRec == Len(Rec)

VARIABLES
  l,         \* next line of Rec (1-based)
  base,      \* line of the current Reset; MarkEvent position q of this parse is line base + 1 + q
  consumed,  \* lines already taken as a `precede` parent by an earlier NodeStart (replaced by none)
  ranges,    \* <<start, len>> of every eaten token, indexed by token id
  eatPos,    \* end offset of the last eaten range
  eatOK, tileOK, progOK, unreach, nev, verdicts

tvars == <<l, base, consumed, ranges, eatPos, eatOK, tileOK, progOK, unreach, nev, verdicts>>
vars == <<bvars, tvars>>

E == Rec[l]
IsEvent(name) == l <= NRec /\ E.e = name

RECURSIVE Tiles(_, _, _)
Tiles(toks, i, pos) == IF i > Len(toks) THEN pos
                       ELSE IF toks[i][1] = pos THEN Tiles(toks, i + 1, pos + toks[i][2]) ELSE 0 - 1
StrictlyIncreasing(s) == \A i \in 1..(Len(s) - 1) : s[i] < s[i + 1]

TInit ==
  /\ l = 1 /\ base = 0 /\ consumed = {} /\ ranges = <<>> /\ eatPos = 0
  /\ eatOK = TRUE /\ tileOK = TRUE /\ progOK = TRUE /\ unreach = FALSE /\ nev = 0 /\ verdicts = 0
Init == BInit /\ TInit

Reset ==
  /\ IsEvent("Reset")
  /\ parents' = <<[k |-> "Chunk", fs |-> 0]>> /\ children' = <<>> /\ elements' = <<>> /\ ntok' = 0
  /\ opened' = 1 /\ closed' = 0 /\ underflow' = FALSE /\ earlyReturn' = 0 /\ firstBlock' = FALSE /\ crossed' = FALSE
  /\ crashed' = FALSE /\ done' = FALSE
  /\ base' = l /\ consumed' = {} /\ ranges' = <<>> /\ eatPos' = 0 /\ eatOK' = TRUE /\ unreach' = FALSE /\ nev' = 0
  /\ tileOK' = (Tiles(E.toks, 1, 0) = E.len)
  /\ progOK' = StrictlyIncreasing(E.loop)
  /\ l' = l + 1 /\ UNCHANGED verdicts

\* LuaTreeBuilder::build, NodeStart arm: follow `parent` links forward, start outermost first
RECURSIVE Chain(_, _)
Chain(k, p) == IF p = 0 THEN <<k>>
               ELSE LET q == base + 1 + p IN
                    IF q > NRec \/ Rec[q].e # "Start" THEN <<k, "UNREACHABLE">>
                    ELSE <<k>> \o Chain(Rec[q].k, Rec[q].p)
RECURSIVE ChainLines(_)
ChainLines(p) == IF p = 0 THEN {} ELSE
                 LET q == base + 1 + p IN
                 IF q > NRec \/ Rec[q].e # "Start" THEN {} ELSE {q} \cup ChainLines(Rec[q].p)
Reverse(s) == [i \in 1..Len(s) |-> s[Len(s) + 1 - i]]

StartMany(ks) ==
  /\ parents' = parents \o [i \in 1..Len(ks) |-> [k |-> ks[i], fs |-> Len(children)]]
  /\ opened' = opened + Len(ks)
  /\ firstBlock' = (firstBlock \/ (opened = 1 /\ closed = 0 /\ ntok = 0 /\ ks[1] = "Block"))
  /\ UNCHANGED <<children, elements, ntok, closed, underflow, earlyReturn, crossed, crashed, done>>

Skip == UNCHANGED bvars

Start ==
  /\ IsEvent("Start")
  /\ nev' = nev + 1 /\ l' = l + 1
  /\ UNCHANGED <<base, ranges, eatPos, eatOK, tileOK, progOK, verdicts>>
  /\ IF E.k = "None" \/ l \in consumed
     THEN Skip /\ UNCHANGED <<consumed, unreach>>
     ELSE LET ch == Chain(E.k, E.p) IN
          /\ consumed' = consumed \cup ChainLines(E.p)
          /\ unreach' = (unreach \/ ch[Len(ch)] = "UNREACHABLE")
          \* a `None` kind inside a parent chain is started like any node (it falls in the `_` rule)
          /\ StartMany(Reverse([i \in 1..Len(ch) |->
                         IF ch[i] \in {"None", "UNREACHABLE"} THEN "Other" ELSE ch[i]]))

Eat ==
  /\ IsEvent("Eat")
  /\ Token(E.c)
  /\ ranges' = Append(ranges, <<E.s, E.n>>)
  /\ eatOK' = (eatOK /\ E.s = eatPos)
  /\ eatPos' = E.s + E.n
  /\ nev' = nev + 1 /\ l' = l + 1
  /\ UNCHANGED <<base, consumed, tileOK, progOK, unreach, verdicts>>

End ==
  /\ IsEvent("End")
  /\ IF crashed THEN Skip ELSE FinishNode
  /\ nev' = nev + 1 /\ l' = l + 1
  /\ UNCHANGED <<base, consumed, ranges, eatPos, eatOK, tileOK, progOK, unreach, verdicts>>

Trivia ==
  /\ IsEvent("Trivia")
  /\ Skip
  /\ nev' = nev + 1 /\ l' = l + 1
  /\ UNCHANGED <<base, consumed, ranges, eatPos, eatOK, tileOK, progOK, unreach, verdicts>>

FinishStep ==
  /\ IsEvent("Finish")
  /\ IF crashed THEN Skip ELSE FinalFinish
  /\ l' = l + 1
  /\ UNCHANGED <<base, consumed, ranges, eatPos, eatOK, tileOK, progOK, unreach, nev, verdicts>>

\* ---- finish(): pre-order of the tree the builder state denotes
RECURSIVE PreEl(_)
PreSeq(s) == LET RECURSIVE F(_)
                 F(i) == IF i > Len(s) THEN <<>> ELSE PreEl(s[i]) \o F(i + 1)
             IN F(1)
PreEl(e) == IF elements[e].t = "tok"
            THEN <<[t |-> "T", k |-> "", s |-> ranges[elements[e].id][1], n |-> ranges[elements[e].id][2]]>>
            ELSE <<[t |-> "N", k |-> elements[e].k, s |-> 0, n |-> 0]>> \o PreSeq(elements[e].ch)
                   \o <<[t |-> "E", k |-> "", s |-> 0, n |-> 0]>>
NodeOpen(k) == [t |-> "N", k |-> k, s |-> 0, n |-> 0]
NodeClose == [t |-> "E", k |-> "", s |-> 0, n |-> 0]
PredictedTree ==
  IF children = <<>> THEN <<NodeOpen("Chunk"), NodeClose>>
  ELSE IF RootIsChunk THEN PreEl(children[1])
  ELSE <<NodeOpen("Chunk")>> \o PreEl(children[1]) \o <<NodeClose>>

Verdict(real) ==
  [case |-> Rec[base].case,
   bal |-> WellFormed, early |-> earlyReturn, early_ok |-> EarlyOK, crossed |-> crossed, crashed |-> crashed, unreach |-> unreach,
   eat |-> (eatOK /\ eatPos = Rec[base].len), tile |-> tileOK,
   root |-> (ntok = 0 \/ Len(children) = 1), root_chunk |-> RootIsChunk,
   pred_lossless |-> (~crashed /\ Lossless),
   tree_eq |-> (~crashed /\ PredictedTree = real.tree),
   real_lossless |-> real.lossless,
   prog |-> progOK, lin |-> (nev <= EvK * (Rec[base].len + 1) + EvC),
   nev |-> nev, ntok |-> Rec[base].ntok, eaten |-> ntok]

Tree ==
  /\ IsEvent("Tree")
  /\ PrintT(<<"VERDICT", ToJson(Verdict(E))>>)
  /\ verdicts' = verdicts + 1 /\ l' = l + 1
  /\ Skip /\ UNCHANGED <<base, consumed, ranges, eatPos, eatOK, tileOK, progOK, unreach, nev>>

Panic ==
  /\ IsEvent("Panic")
  /\ PrintT(<<"PANIC", ToJson([case |-> Rec[base].case, msg |-> E.msg, model_crashed |-> crashed, nev |-> nev])>>)
  /\ verdicts' = verdicts + 1 /\ l' = l + 1
  /\ Skip /\ UNCHANGED <<base, consumed, ranges, eatPos, eatOK, tileOK, progOK, unreach, nev>>

TNext == Reset \/ Start \/ Eat \/ End \/ Trivia \/ FinishStep \/ Tree \/ Panic
TSpec == Init /\ [][TNext]_vars

AllConsumed == TLCGet("stats").diameter = NRec + 1
=============================================================================
