SPECIFICATION Spec
CONSTANTS
  Files = {"F2", "F3", "F5", "F7", "F8", "F9"}
  PatternSets = {"default", "main"}
  MapSets = {FALSE, TRUE}
  StrictSets = {FALSE, TRUE}
  RootSets = {"w+lib", "w+o"}
  MaxSteps = 4
VIEW View
INVARIANTS TreeOk FuzzyOk NameOk Agree RemovedUnresolvable Emit
