SPECIFICATION Spec
CONSTANTS
  Variant = "pinned"
  Tier = "s"
  MaxFiles = 2
  MaxPerFile = 2
  MaxTotal = 2
  EmitCases = FALSE
INVARIANTS NoCrash
