------------------------------ MODULE FmtTokens ------------------------------
(* Trace specification for the formatter (C05, C06, C07).

   A run is a pair of token sequences recorded from the real code: `in` = the tokens of the source,
   `out` = the tokens of what the formatter produced (whitespace and line ends dropped; every comment
   is preceded by a pseudo token that carries the kind-wise shape of its doc sub-tree).  The automaton
   has two cursors i, j and its ONLY transitions are the differences the property allows:

     Same              identical token on both sides (the only move for comment / doc tokens)
     SepSwap           `;` <-> `,` between table fields
     SepDropped        a table separator whose next code token is the closing brace disappears;
                       SepAdded  the converse (only under trailing = Multiline / Always)
     SemiDropped       a statement `;` disappears -- only if the configuration does not preserve them (or
                       it is an empty statement) and NOT where it separates `x = y ; (f)()` (dropping
                       it there turns two statements into one call)
     QuoteSwapped      short string re-quoted with the configured quote, same decoded value
     ParenRemoved*     `f("s")` -> `f "s"`, `f({..})` -> `f {..}`  (single string / table argument of a
                       call, under Omit);   ParenAdded*  the converse (under Always)

   A run is accepted iff some path consumes both sequences completely, the source had no syntax
   error and the output has none; a source WITH syntax errors is accepted iff the output text is
   byte-identical.  Runs of kind "idem" (C06) are accepted iff the second pass returned its input;
   runs of kind "cover" (C07) iff the replaced region lies in the document and covers the selection
   (and a document with syntax errors was left alone).
   The context stack `ctx` (over the source tokens) distinguishes table separators from statement
   semicolons; `pend` / `pendOut` remember at which nesting depth a removed / added call parenthesis has
   to be closed again.  Many runs are concatenated in one script; every run ends in an ACC or REJ line. *)
EXTENDS Naturals, Sequences, FiniteSets, TLC, Json, IOUtils

\* the recorded runs (file named by env RUNS); TLCEval makes TLC read the file once
Script == TLCEval(ndJsonDeserialize(IOEnv.RUNS))

VARIABLES r, i, j, ctx, pend, pendOut, due, used
vars == <<r, i, j, ctx, pend, pendOut, due, used>>

Run == Script[r]
In  == Run.in
Out == Run.out
HasA == i <= Len(In)
HasB == j <= Len(Out)
A == In[i]
B == Out[j]

Code(t) == t.c = 0
K(t, k) == Code(t) /\ t.k = k
IsSep(t) == Code(t) /\ t.k \in {"TkComma", "TkSemicolon"}
StrTok(t) == Code(t) /\ t.k \in {"TkString", "TkLongString"}
Top == IF Len(ctx) = 0 THEN "" ELSE ctx[Len(ctx)]
InTable == Top = "{"
Max(S) == CHOOSE x \in S : \A y \in S : y <= x
Min(S) == CHOOSE x \in S : \A y \in S : x <= y
PrevCodeK(s, idx) == LET P == {m \in 1..(idx - 1) : s[m].c = 0} IN IF P = {} THEN "" ELSE s[Max(P)].k
NextCodeK(s, idx) == LET P == {m \in (idx + 1)..Len(s) : s[m].c = 0} IN IF P = {} THEN "" ELSE s[Min(P)].k
CalleeEnd == {"TkName", "TkRightParen", "TkRightBracket", "TkRightBrace", "TkString", "TkLongString"}
PrefixEnd == {"TkName", "TkRightParen", "TkRightBracket"}

SameTok(a, b) == a.k = b.k /\ a.t = b.t /\ a.c = b.c
QuoteOk(a, b) == /\ K(a, "TkString") /\ K(b, "TkString") /\ a.t # b.t /\ a.v = b.v
                 /\ Run.cfg.quote # "Preserve"
                 /\ b.q = (IF Run.cfg.quote = "Double" THEN "\"" ELSE "'")
StrMatch(a, b) == SameTok(a, b) \/ QuoteOk(a, b)

Pop(s) == SubSeq(s, 1, Len(s) - 1)
Push(c, t) ==
  IF ~Code(t) THEN c
  ELSE CASE t.k = "TkLeftBrace" -> Append(c, "{")
         [] t.k = "TkLeftParen" -> Append(c, "(")
         [] t.k = "TkLeftBracket" -> Append(c, "[")
         [] t.k \in {"TkFunction", "TkIf", "TkDo", "TkRepeat"} -> Append(c, "B")
         [] t.k \in {"TkRightBrace", "TkRightParen", "TkRightBracket", "TkEnd", "TkUntil"} ->
              IF Len(c) > 0 THEN Pop(c) ELSE c
         [] OTHER -> c

\* after a source token was consumed: is a removed / added closing parenthesis due now?
DueAfter(t, c) ==
  IF K(t, "TkRightBrace") /\ Len(pend) > 0 /\ pend[Len(pend)] = Len(c) THEN "in"
  ELSE IF K(t, "TkRightBrace") /\ Len(pendOut) > 0 /\ pendOut[Len(pendOut)] = Len(c) THEN "out"
  ELSE ""

Walking == r <= Len(Script) /\ Run.kind = "fmt" /\ ~Run.inErr /\ due = ""

\* ---- enabling conditions (also used to detect a stuck automaton) -------------------------------
SameEn == Walking /\ HasA /\ HasB /\ SameTok(A, B)
QuoteEn == Walking /\ HasA /\ HasB /\ QuoteOk(A, B)
SepSwapEn == Walking /\ HasA /\ HasB /\ InTable /\ IsSep(A) /\ IsSep(B) /\ A.k # B.k
SepDroppedEn == /\ Walking /\ HasA /\ InTable /\ IsSep(A) /\ ~(HasB /\ IsSep(B))
                /\ NextCodeK(In, i) = "TkRightBrace"
SepAddedEn == /\ Walking /\ HasA /\ HasB /\ InTable /\ K(B, "TkComma") /\ ~IsSep(A)
              /\ NextCodeK(Out, j) = "TkRightBrace"
              /\ (K(A, "TkRightBrace") \/ (~Code(A) /\ NextCodeK(In, i) = "TkRightBrace"))
              /\ Run.cfg.trail \in {"Multiline", "Always"}
              /\ PrevCodeK(In, i) \notin {"TkLeftBrace", "TkComma", "TkSemicolon"}
SemiHazard == NextCodeK(In, i) = "TkLeftParen" /\ PrevCodeK(In, i) \in PrefixEnd
\* an empty statement (`;` directly after a block opener, another `;`, or a label, which takes no `;` of its
\* own) is not a "trailing semicolon of a statement"; the formatter drops those under every configuration
EmptyStat == PrevCodeK(In, i) \in {"", "TkSemicolon", "TkDo", "TkThen", "TkElse", "TkRepeat", "TkDbColon"}
SemiDroppedEn == /\ Walking /\ HasA /\ K(A, "TkSemicolon") /\ ~InTable
                 /\ (~Run.cfg.keepSemi \/ EmptyStat)
                 /\ ~SemiHazard
ParenRemStrEn == /\ Walking /\ Run.cfg.parens = "Omit" /\ HasA /\ HasB /\ K(A, "TkLeftParen")
                 /\ i + 2 <= Len(In) /\ StrTok(In[i + 1]) /\ K(In[i + 2], "TkRightParen")
                 /\ StrMatch(In[i + 1], B) /\ PrevCodeK(In, i) \in CalleeEnd
ParenRemTblEn == /\ Walking /\ Run.cfg.parens = "Omit" /\ HasA /\ HasB /\ K(A, "TkLeftParen")
                 /\ i + 1 <= Len(In) /\ K(In[i + 1], "TkLeftBrace") /\ K(B, "TkLeftBrace")
                 /\ PrevCodeK(In, i) \in CalleeEnd
ParenAddStrEn == /\ Walking /\ Run.cfg.parens = "Always" /\ HasA /\ HasB /\ StrTok(A) /\ K(B, "TkLeftParen")
                 /\ j + 2 <= Len(Out) /\ StrMatch(A, Out[j + 1]) /\ K(Out[j + 2], "TkRightParen")
                 /\ PrevCodeK(In, i) \in CalleeEnd
ParenAddTblEn == /\ Walking /\ Run.cfg.parens = "Always" /\ HasA /\ HasB /\ K(A, "TkLeftBrace") /\ K(B, "TkLeftParen")
                 /\ j + 1 <= Len(Out) /\ K(Out[j + 1], "TkLeftBrace")
                 /\ PrevCodeK(In, i) \in CalleeEnd
DueInEn == r <= Len(Script) /\ due = "in" /\ HasA /\ K(A, "TkRightParen")
DueOutEn == r <= Len(Script) /\ due = "out" /\ HasB /\ K(B, "TkRightParen")
AtEnd == Walking /\ ~HasA /\ ~HasB

\* ---- transitions --------------------------------------------------------------------------------
Both(u) == /\ i' = i + 1 /\ j' = j + 1
           /\ ctx' = Push(ctx, A) /\ due' = DueAfter(A, Push(ctx, A))
           /\ used' = used \cup u /\ UNCHANGED <<r, pend, pendOut>>
Same == SameEn /\ Both({})
QuoteSwapped == QuoteEn /\ Both({"QuoteSwapped"})
SepSwap == SepSwapEn /\ Both({"SepSwap"})
SepDropped == SepDroppedEn /\ i' = i + 1 /\ used' = used \cup {"SepDropped"}
              /\ UNCHANGED <<r, j, ctx, pend, pendOut, due>>
SepAdded == SepAddedEn /\ j' = j + 1 /\ used' = used \cup {"SepAdded"}
            /\ UNCHANGED <<r, i, ctx, pend, pendOut, due>>
SemiDropped == SemiDroppedEn /\ i' = i + 1 /\ used' = used \cup {"SemiDropped"}
               /\ UNCHANGED <<r, j, ctx, pend, pendOut, due>>
ParenRemStr == ParenRemStrEn /\ i' = i + 3 /\ j' = j + 1 /\ used' = used \cup {"ParenRemovedStr"}
               /\ UNCHANGED <<r, ctx, pend, pendOut, due>>
ParenRemTbl == ParenRemTblEn /\ i' = i + 2 /\ j' = j + 1 /\ ctx' = Append(ctx, "{")
               /\ pend' = Append(pend, Len(ctx)) /\ used' = used \cup {"ParenRemovedTbl"}
               /\ UNCHANGED <<r, pendOut, due>>
ParenAddStr == ParenAddStrEn /\ i' = i + 1 /\ j' = j + 3 /\ used' = used \cup {"ParenAddedStr"}
               /\ UNCHANGED <<r, ctx, pend, pendOut, due>>
ParenAddTbl == ParenAddTblEn /\ i' = i + 1 /\ j' = j + 2 /\ ctx' = Append(ctx, "{")
               /\ pendOut' = Append(pendOut, Len(ctx)) /\ used' = used \cup {"ParenAddedTbl"}
               /\ UNCHANGED <<r, pend, due>>
DueIn == DueInEn /\ i' = i + 1 /\ pend' = Pop(pend) /\ due' = "" /\ UNCHANGED <<r, j, ctx, pendOut, used>>
DueOut == DueOutEn /\ j' = j + 1 /\ pendOut' = Pop(pendOut) /\ due' = "" /\ UNCHANGED <<r, i, ctx, pend, used>>

\* C07, one run per selection: a document with syntax errors is not range-formatted; a result replaces a
\* region inside the document that covers the selected code
MinOf(a, b) == IF a <= b THEN a ELSE b
MaxOf(a, b) == IF a >= b THEN a ELSE b
\* the selected code = the selected part of every token the selection touches (`toks` = [start, end) extents
\* of the document's tokens); an empty selection inside a token selects that point
Touches(t) == IF Run.s = Run.e THEN t[1] < Run.s /\ Run.s < t[2] ELSE t[1] < Run.e /\ Run.s < t[2]
Covers == \A n \in DOMAIN Run.toks :
            Touches(Run.toks[n]) => /\ Run.rs <= MaxOf(Run.toks[n][1], Run.s)
                                    /\ MinOf(Run.toks[n][2], Run.e) <= Run.re
RangeWhy == IF Run.inErr /\ ~Run.none THEN "range-formatted-a-document-with-syntax-errors"
            ELSE IF ~Run.none /\ ~(Run.rs <= Run.re /\ Run.re <= Run.len /\ Run.boundary) THEN "replace-range-outside-document"
            ELSE IF ~Run.none /\ ~Covers THEN "replace-range-does-not-cover-selected-code"
            ELSE "ok"
RangeOk == RangeWhy = "ok"

NextRun == /\ r' = r + 1 /\ i' = 1 /\ j' = 1 /\ ctx' = <<>> /\ pend' = <<>> /\ pendOut' = <<>>
           /\ due' = "" /\ used' = {}
Verdict(tag, why) == PrintT(<<tag, ToJson([id |-> Run.id, why |-> why, i |-> i, j |-> j, used |-> used])>>)

\* whole-run verdicts that need no walking
Whole == /\ r <= Len(Script) /\ i = 1 /\ j = 1
         /\ \/ Run.kind = "idem" /\ Verdict(IF Run.same THEN "ACC" ELSE "REJ", "second-pass-differs")
            \/ Run.kind = "cover" /\ Verdict(IF RangeOk THEN "ACC" ELSE "REJ", RangeWhy)
            \/ Run.kind = "fmt" /\ Run.inErr
               /\ Verdict(IF Run.same THEN "ACC" ELSE "REJ", "input-with-syntax-errors-changed")
         /\ NextRun
Accept == /\ AtEnd
          /\ Verdict(IF Run.outErr = 0 THEN "ACC" ELSE "REJ", "output-has-syntax-errors")
          /\ NextRun
Stuck == /\ r <= Len(Script) /\ Run.kind = "fmt" /\ ~Run.inErr
         /\ ~(SameEn \/ QuoteEn \/ SepSwapEn \/ SepDroppedEn \/ SepAddedEn \/ SemiDroppedEn \/ ParenRemStrEn
              \/ ParenRemTblEn \/ ParenAddStrEn \/ ParenAddTblEn \/ DueInEn \/ DueOutEn \/ AtEnd)
         /\ PrintT(<<"REJ", ToJson([id |-> Run.id, why |-> "stuck", i |-> i, j |-> j, used |-> used, due |-> due,
                                    a |-> IF HasA THEN A ELSE [k |-> "<end>", t |-> ""],
                                    b |-> IF HasB THEN B ELSE [k |-> "<end>", t |-> ""],
                                    semiHazard |-> (HasA /\ K(A, "TkSemicolon") /\ SemiHazard),
                                    cfg |-> Run.cfg])>>)
         /\ NextRun

Init == r = 1 /\ i = 1 /\ j = 1 /\ ctx = <<>> /\ pend = <<>> /\ pendOut = <<>> /\ due = "" /\ used = {}
Next == \/ Same \/ QuoteSwapped \/ SepSwap \/ SepDropped \/ SepAdded \/ SemiDropped
        \/ ParenRemStr \/ ParenRemTbl \/ ParenAddStr \/ ParenAddTbl \/ DueIn \/ DueOut
        \/ Whole \/ Accept \/ Stuck
Spec == Init /\ [][Next]_vars

\* the driver checks that every run got a verdict; this makes TLC itself fail if the script was not consumed
AllJudged == TLCGet("stats").diameter > Len(Script)
=============================================================================
