SPECIFICATION Spec
CONSTANTS
  Mode = "gen"
  Depth = 1
INVARIANTS Emit
