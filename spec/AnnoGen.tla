------------------------------- MODULE AnnoGen -------------------------------
(* Program / annotation generator for crash-freedom of indexing, diagnosing and semantic queries (C12).

   The property has no reference semantics beyond "terminates without panicking", so this specification
   contributes the INPUT SPACE, not an oracle: a program is a sequence of items built by explicit generator
   actions, one per annotation feature the analyzer recurses over:

        AddClass    ---@class N<gen> : supers         (supers may name the class itself or a later class:
                                                       cyclic inheritance; generic supers: G<G<T>>)
        AddAlias    ---@alias N<gen> body             (body may mention N: recursive / mutually recursive aliases)
        AddField    ---@class N  ---@field f T         (partial class with a typed field, incl. [T] index fields)
        AddFunc     ---@generic .. ---@param ---@return ---@overload  function / method
        AddOperator ---@class N  ---@operator op(T): T
        AddLocal    ---@type T   local v = expr
        AddCast     ---@cast v T | --[[@as T]] | ---@cast v +T / -T
        AddTypedUse ---@type <declared name, applied / array / optional>  local v = nil ; then a use of v
        AddUse      a statement using an expression (member chains, calls, index, arithmetic, metatable ...)
        Corrupt     damages the annotation text of an earlier item (malformed generics, unbalanced brackets)
        AddAliasSuperCycle  ---@alias X <body mentioning C>  +  ---@class C: X   (inheritance through an alias of the
                    class itself: plain / optional / union / intersection / generic alias, optionally via a second
                    class), then a table literal typed as C with fields C does not declare, then a field access
        AddTableLiteral     ---@type T  local v = { <declared and undeclared fields: closures, values, nested> }

   Type terms are bounded-depth terms over the declared names, including deliberately malformed ones.
   The items are spread over two files (item.file) and the run configuration (Lua level, strict mode) is part
   of the state.  TLC walks the generator by seeded simulation (one program per behaviour, printed at Finish);
   the small _mc configuration is explored exhaustively to check the generator's own invariants (bounds,
   reachability of every action = no dead generator action).  checks/C12.py renders the items to Lua text. *)
EXTENDS Integers, Sequences, FiniteSets, TLC, Json

CONSTANTS MaxItems, Levels,
          TypeDepth,    \* 0: a few names only (exhaustive _mc config), 1: one constructor, 2: two constructors
          Randomised    \* TRUE (simulation): action parameters are drawn with RandomElement; FALSE: one fixed parameter

VARIABLES prog, level, strict, phase
vars == <<prog, level, strict, phase>>

Classes == {"A", "B", "G"}
Aliases == {"X", "Y"}
Vars == {"x", "y"}
Funcs == {"fa", "fb"}
FilesOf == {"a", "b"}

\* ---- type terms ---------------------------------------------------------------------------------------
Names == Classes \cup Aliases \cup {"T", "integer", "string", "nil", "self"}
None == [op |-> "none"]
N(n) == [op |-> "name", a |-> n, b |-> None, c |-> None]
T0 == {N(n) : n \in Names}
\* render of the terms is done by the driver; a term is [op, a, b, c] with sub-terms already rendered as
\* nested records would blow up TLC's fingerprinting; instead sub-terms are referred to BY SHAPE:
\*   op = "arr" | "opt" | "app" (a = generic name) | "union" | "fun" | "tab" | "tuple" | "bad"
Un(op, g, t) == [op |-> op, a |-> g, b |-> t, c |-> None]
Bin(op, t, u) == [op |-> op, a |-> "", b |-> t, c |-> u]
Small == {N(n) : n \in {"A", "B", "X", "T", "integer"}}
T1 == T0
      \cup {Un("arr", "", t) : t \in T0} \cup {Un("opt", "", t) : t \in T0}
      \cup {Un("app", g, t) : g \in {"G", "X", "A"}, t \in T0}
      \cup {Bin(op, t, u) : op \in {"union", "fun", "tab", "tuple", "inter"}, t \in Small, u \in Small}
      \cup {Un("bad", k, t) : k \in {"lt", "ltcomma", "gt", "paren", "empty", "colon", "brace"}, t \in Small}
T2 == T1 \cup {Un("arr", "", t) : t \in T1 \ T0} \cup {Un("app", g, t) : g \in {"G", "X"}, t \in T1 \ T0}
         \cup {Bin("union", t, u) : t \in Small, u \in {Un("app", g, v) : g \in {"G", "X"}, v \in Small}}
Types == CASE TypeDepth = 0 -> {N("A"), N("X"), Un("bad", "lt", N("T"))} [] TypeDepth = 1 -> T1 [] OTHER -> T2
Types1 == IF TypeDepth = 0 THEN Types ELSE T1
\* exhaustive (_mc) mode explores the STRUCTURE of programs (which actions in which order) with one fixed
\* parameter per action; the parameter spaces are sampled in simulation mode
\* (the reference to `prog` keeps TLC from folding the random draw into a constant)
Pick(S) == IF Randomised THEN {RandomElement(IF Len(prog) >= 0 THEN S ELSE {})} ELSE {CHOOSE x \in S : TRUE}

GenDecls == {"", "T", "T: T", "T: A", "T: G<T>", "T, U", "<"}     \* "<" = unterminated generic list
SuperChoices == {<<>>} \cup {<<t>> : t \in Types1} \cup {<<N(c), N(d)>> : c \in Classes, d \in Classes}

Exprs == {"v", "v.f", "v.f.f", "v.f.g.f", "v:m(w)", "fa(v)", "fa(fa(v))", "fb(v, w)", "v[1]", "v[w]", "v .. w", "v + w",
          "#v", "v == w and v or w", "{ v, f = w }", "setmetatable({}, { __index = v })",
          "function(p) return p.f end", "v()", "v.f()", "A", "A.f", "G.f(v)", "(v)", "-v", "not v", "v.m",
          \* accesses of a field no declaration mentions (the lookup walks the super types to the end)
          "v.zz", "v.zz.f", "v:zz(w)", "v[\"zz\"]", "rawget(v, \"zz\")"}

Item(k, f, n, g, t, u, e) == [k |-> k, file |-> f, n |-> n, g |-> g, t |-> t, u |-> u, e |-> e]
NoT == N("nil")

Init == /\ prog = <<>>
        /\ level \in Levels
        /\ strict \in BOOLEAN
        /\ phase = "gen"

Room == phase = "gen" /\ Len(prog) < MaxItems
Add(it) == /\ Room /\ prog' = Append(prog, it) /\ UNCHANGED <<level, strict, phase>>

AddClass == \E f \in Pick(FilesOf), c \in Pick(Classes), g \in Pick(GenDecls), s \in Pick(SuperChoices) :
              Add(Item("class", f, c, g, s, NoT, ""))
AddAlias == \E f \in Pick(FilesOf), a \in Pick(Aliases), g \in Pick({"", "T"}), t \in Pick(Types) :
              Add(Item("alias", f, a, g, <<t>>, NoT, ""))
AddField == \E f \in Pick(FilesOf), c \in Pick(Classes), fld \in Pick({"f", "g", "m", "[integer]", "[string]"}), t \in Pick(Types) :
              Add(Item("field", f, c, fld, <<t>>, NoT, ""))
AddFunc == \E f \in Pick(FilesOf), n \in Pick(Funcs), g \in Pick(GenDecls), p \in Pick(Types1), r \in Pick(Types1),
              ov \in Pick({NoT} \cup Small), owner \in Pick({""} \cup Classes) :
              Add(Item("func", f, n, g, <<p, r>>, ov, owner))
AddOperator == \E f \in Pick(FilesOf), c \in Pick(Classes), op \in Pick({"add", "call", "index", "len", "concat", "unm"}), t \in Pick(Types1) :
              Add(Item("operator", f, c, op, <<t>>, NoT, ""))
AddLocal == \E f \in Pick(FilesOf), v \in Pick(Vars), t \in Pick(Types), e \in Pick(Exprs \cup {"nil", "{}", "1"}) :
              Add(Item("local", f, v, "", <<t>>, NoT, e))
AddCast == \E f \in Pick(FilesOf), v \in Pick(Vars), form \in Pick({"cast", "as", "cast+", "cast-", "cast?"}), t \in Pick(Types) :
              Add(Item("cast", f, v, form, <<t>>, NoT, ""))
AddUse == \E f \in Pick(FilesOf), v \in Pick(Vars), w \in Pick(Vars), e \in Pick(Exprs), how \in Pick({"local", "print", "return-table", "assign-global", "if", "for"}) :
              Add(Item("use", f, v, how, <<>>, NoT, e) @@ [w |-> w])
\* damage an earlier annotation: the driver applies `how` to the rendered text of item i
Corrupt == \E i \in 1..Len(prog), how \in Pick({"truncate", "drop-gt", "drop-colon", "dup-lt", "drop-name"}) :
              /\ prog[i].k \in {"class", "alias", "field", "func", "operator", "cast"}
              /\ Add(Item("corrupt", prog[i].file, "", how, <<>>, NoT, "") @@ [i |-> i])

\* ---- the pathological shapes as explicit actions (uniform sampling of the above would rarely hit them) -------
Add2(i1, i2) == /\ phase = "gen" /\ Len(prog) + 1 < MaxItems
                /\ prog' = prog \o <<i1, i2>> /\ UNCHANGED <<level, strict, phase>>
\* class c : d  and  class d : c   (c = d gives direct self-inheritance), optionally through a generic application
AddCyclicSupers == \E f \in Pick(FilesOf), f2 \in Pick(FilesOf), c \in Pick(Classes), d \in Pick(Classes),
                      g \in Pick({"", "T"}), viaApp \in Pick(BOOLEAN) :
                     Add2(Item("class", f, c, g, <<IF viaApp THEN Un("app", d, N("T")) ELSE N(d)>>, NoT, ""),
                          Item("class", f2, d, g, <<IF viaApp THEN Un("app", c, N(c)) ELSE N(c)>>, NoT, ""))
\* alias a = wrap(a) and the mutual pair a = wrap(b), b = wrap(a)
Wraps(n, other) == {N(n), Un("arr", "", N(n)), Un("opt", "", N(n)), Un("app", n, N(n)), Bin("union", N(n), N(other)),
                    Bin("fun", N(n), N(n)), Bin("tab", N("string"), N(n)), Bin("tuple", N(n), N(n)),
                    Un("arr", "", Un("app", n, N("T"))), Bin("inter", N(n), N(other))}
AddRecursiveAlias == \E f \in Pick(FilesOf), a \in Pick(Aliases), b \in Pick(Aliases), g \in Pick({"", "T"}) :
                     \E w1 \in Pick(Wraps(b, "A")), w2 \in Pick(Wraps(a, "B")) :
                       Add2(Item("alias", f, a, g, <<w1>>, NoT, ""), Item("alias", f, b, g, <<w2>>, NoT, ""))
\* generic parameter bounded by itself / by an application of the class being declared; super = nested application
AddGenericCycle == \E f \in Pick(FilesOf), c \in Pick(Classes),
                      g \in Pick({"T: T", "T: G<T>", "T: A<T>", "T: B<B<T>>", "T, U: T", "T: U, U: T"}) :
                   \E s \in Pick({<<Un("app", c, Un("app", c, N("T")))>>, <<Un("app", c, N(c))>>, <<Un("app", c, N("T"))>>, <<N("T")>>}) :
                     Add(Item("class", f, c, g, s, NoT, ""))
\* overload set that refers back to the function's own generic / to recursive names
AddOverloads == \E f \in Pick(FilesOf), n \in Pick(Funcs), owner \in Pick({""} \cup Classes),
                   p \in Pick(Types1), r \in Pick(Types1), ov \in Pick(Types1) :
                  Add2(Item("func", f, n, "T", <<p, r>>, ov, owner), Item("use", f, "x", "local", <<>>, NoT, "fa(fa(v))") @@ [w |-> "y"])

\* a variable typed by one of the declared (possibly recursive) names, immediately used: member access,
\* indexing, call ... on a value of that type is where the analyzer recurses over the declaration
AddTypedUse == \E f \in Pick(FilesOf), v \in Pick(Vars), n \in Pick(Classes \cup Aliases),
                  shape \in Pick({"name", "app", "arr", "opt", "appself"}), e \in Pick(Exprs),
                  how \in Pick({"local", "print", "if", "for"}) :
                 Add2(Item("local", f, v, "", <<CASE shape = "name" -> N(n) [] shape = "app" -> Un("app", n, N("integer"))
                                                 [] shape = "arr" -> Un("arr", "", N(n)) [] shape = "opt" -> Un("opt", "", N(n))
                                                 [] OTHER -> Un("app", n, N(n))>>, NoT, "nil"),
                      Item("use", f, v, how, <<>>, NoT, e) @@ [w |-> v])

\* ---- inheritance through an alias of the class itself (strengthened after seeded review) ----------------------
\* The analyzer filters direct alias cycles and class-to-class super cycles when it builds the index; a cycle that
\* passes through an alias (alias a = <body mentioning c>, class c : a) is invisible to both filters, so every walk
\* over super types / alias origins has to carry its own visited set across the alias hop.
AddSeq(items) == /\ phase = "gen" /\ Len(prog) + Len(items) <= MaxItems
                 /\ prog' = prog \o items /\ UNCHANGED <<level, strict, phase>>
AliasBodies(c, d) == {N(c), Un("opt", "", N(c)), Bin("union", N(c), N(d)), Bin("union", N("nil"), N(c)),
                      Bin("inter", N(c), N(d)), Un("app", c, N("T")), Un("arr", "", N(c))}
\* table literals: which fields the constructor assigns (f, g may be declared by an AddField; zz, yy never are)
LitShapes == {"closure", "values", "nested", "method", "index", "mixed"}
TabLit(f, v, t, shape) == Item("tablit", f, v, shape, <<t>>, NoT, "")
UndeclUses == {"v.zz", "v.zz.f", "v:zz(w)", "v[\"zz\"]", "rawget(v, \"zz\")", "v.f", "v.f.f"}
AddAliasSuperCycle ==
  \E f \in Pick(FilesOf), f2 \in Pick(FilesOf), a \in Pick(Aliases), c \in Pick(Classes), d \in Pick(Classes),
     g \in Pick({"", "T"}), via \in Pick(BOOLEAN), withField \in Pick(BOOLEAN), v \in Pick(Vars),
     shape \in Pick(LitShapes), e \in Pick(UndeclUses), how \in Pick({"local", "print", "if", "for"}) :
  \E body \in Pick(AliasBodies(c, d)) :
    LET aref == IF g = "" THEN N(a) ELSE Un("app", a, N("integer"))
        mid == IF via /\ d # c THEN <<Item("class", f2, d, "", <<aref>>, NoT, ""), Item("class", f2, c, "", <<N(d)>>, NoT, "")>>
               ELSE <<Item("class", f2, c, "", <<aref>>, NoT, "")>>
        fld == IF withField THEN <<Item("field", f2, c, "f", <<Bin("fun", N("integer"), N("integer"))>>, NoT, "")>> ELSE <<>>
    IN AddSeq(<<Item("alias", f, a, g, <<body>>, NoT, "")>> \o mid \o fld
              \o <<TabLit(f2, v, N(c), shape), Item("use", f2, v, how, <<>>, NoT, e) @@ [w |-> v]>>)
\* a table literal typed by any declared name (applied / optional), with declared and undeclared fields
AddTableLiteral == \E f \in Pick(FilesOf), v \in Pick(Vars), n \in Pick(Classes \cup Aliases),
                      tshape \in Pick({"name", "app", "opt"}), shape \in Pick(LitShapes) :
                     Add(TabLit(f, v, CASE tshape = "name" -> N(n) [] tshape = "app" -> Un("app", n, N("integer"))
                                        [] OTHER -> Un("opt", "", N(n)), shape))

\* ---- calls of the std generic helpers with literal index arguments (second seeded round) ----------------------
\* table.unpack / unpack / select and a hand-written `---@return std.Unpack<T, I, J>` are evaluated by special-cased
\* generics that slice the element list of a TUPLE-typed operand by the literal integer arguments.  Lua accepts the
\* indices in any order (`table.unpack(t, 3, 1)` returns nothing), so the generator draws both freely: crossed (I > J),
\* zero, negative, beyond the length, on tuples of 0..4 elements (annotated `---@type [..]` or an array-like table
\* literal).  Each item carries the ordered pair and the swapped pair, the driver renders one call per pair.
Indices == {-4, -1, 0, 1, 2, 3, 4, 5, 9}
StdCalls == {"table.unpack(v, I, J)", "table.unpack(v, I)", "unpack(v, I, J)", "unpack(v, I)", "up(v)",
             "{ table.unpack(v, I, J) }", "select(I, table.unpack(v))", "select(I, table.unpack(v, J))",
             "select(J, table.unpack(v, I, J))", "select('#', table.unpack(v, I, J))", "select(I, v, w, 1)",
             "table.pack(table.unpack(v, I, J))", "print(table.unpack(v, I, J))", "fa(table.unpack(v, I, J))"}
AddStdCall == \E f \in Pick(FilesOf), v \in Pick(Vars), call \in Pick(StdCalls), len \in Pick(0..4), i \in Pick(Indices),
                 j \in Pick(Indices), lit \in Pick(BOOLEAN), t \in Pick(Small), u \in Pick(Small) :
                Add(Item("stdcall", f, v, call, <<t, u>>, NoT, "")
                    @@ [len |-> len, lit |-> lit, args |-> << <<i, j>>, <<j, i>> >>, w |-> IF v = "x" THEN "y" ELSE "x"])

Finish == /\ phase = "gen" /\ Len(prog) >= 4
          /\ phase' = "done" /\ UNCHANGED <<prog, level, strict>>

Next == AddStdCall \/ AddAliasSuperCycle \/ AddTableLiteral \/ AddTypedUse \/ AddCyclicSupers \/ AddRecursiveAlias \/ AddGenericCycle \/ AddOverloads \/ AddClass \/ AddAlias \/ AddField \/ AddFunc \/ AddOperator \/ AddLocal \/ AddCast \/ AddUse \/ Corrupt \/ Finish
Spec == Init /\ [][Next]_vars

\* ---- generator invariants -------------------------------------------------------------------------------
Bounded == Len(prog) <= MaxItems
CorruptTargetsExist == \A j \in DOMAIN prog : prog[j].k = "corrupt" => prog[j].i < j
\* features of a finished program, printed with it (the driver counts them as coverage)
Kinds(p) == {p[i].k : i \in DOMAIN p}
SelfSuper(p) == \E i \in DOMAIN p : p[i].k = "class" /\ \E j \in DOMAIN p[i].t : p[i].t[j].op = "name" /\ p[i].t[j].a = p[i].n
MutualSuper(p) == \E i, j \in DOMAIN p : /\ p[i].k = "class" /\ p[j].k = "class" /\ p[i].n # p[j].n
                                         /\ \E s \in DOMAIN p[i].t : p[i].t[s].op = "name" /\ p[i].t[s].a = p[j].n
                                         /\ \E s \in DOMAIN p[j].t : p[j].t[s].op = "name" /\ p[j].t[s].a = p[i].n
Sub(t) == IF t.op \in {"name", "none"} THEN {} ELSE {t.b} \cup (IF t.c = None THEN {} ELSE {t.c})
Hits(t, n) == (t.op = "name" /\ t.a = n) \/ (t.op = "app" /\ t.a = n)
Mentions(t, n) == Hits(t, n) \/ \E s \in Sub(t) : Hits(s, n) \/ \E r \in Sub(s) : Hits(r, n)
RecursiveAlias(p) == \E i \in DOMAIN p : p[i].k = "alias" /\ Mentions(p[i].t[1], p[i].n)
\* a class one of whose supers names (or applies) an alias whose body mentions that class
AliasSuper(p) == \E i, j \in DOMAIN p : /\ p[i].k = "class" /\ p[j].k = "alias"
                                        /\ \E s \in DOMAIN p[i].t : Hits(p[i].t[s], p[j].n)
                                        /\ \E q \in DOMAIN p : p[q].k = "class" /\ Mentions(p[j].t[1], p[q].n)
Malformed(p) == \E i \in DOMAIN p : \/ p[i].k = "corrupt"
                                    \/ p[i].g = "<"
                                    \/ \E j \in DOMAIN p[i].t : p[i].t[j].op = "bad"

\* a std helper call whose literal bounds are crossed (I - 1 > J) while I - 1 is still inside the tuple
StdCrossed(p) == \E k \in DOMAIN p : /\ p[k].k = "stdcall"
                                      /\ \E q \in 1..2 : LET a == p[k].args[q] IN a[1] >= 1 /\ a[2] >= 0 /\ a[1] - 1 > a[2] /\ a[1] - 1 <= p[k].len
Emit == phase = "done" =>
          PrintT(<<"CASE", ToJson([level |-> level, strict |-> strict, items |-> prog,
                                   feat |-> [selfsuper |-> SelfSuper(prog), mutualsuper |-> MutualSuper(prog),
                                             recalias |-> RecursiveAlias(prog), malformed |-> Malformed(prog),
                                             aliassuper |-> AliasSuper(prog), tablit |-> "tablit" \in Kinds(prog), stdcall |-> StdCrossed(prog),
                                             kinds |-> Cardinality(Kinds(prog))]])>>)
=============================================================================
