------------------------------ MODULE TypeRender ------------------------------
(* C17: types of the sub-grammar whose display syntax is also annotation syntax (primitives, literals,
   unions, optionals, arrays, map and record tables, class / alias / enum references), depth <= 3,
   with their canonical annotation syntax (TypeAlgebra!Syn, which encodes the precedence rules) and their
   NORMAL FORM (what the type IS, independent of how it is written: optionals are unions with nil, union
   members are a set, optional record fields are fields of type t|nil).

   Law (the oracle):  t1 = ty(Syn(t));  ty(Render(t1)) has the same normal form as t1
                      (modulo union member order and alias expansion)
   The harness additionally compares t1 itself with Norm(t), which binds the specification's syntax and
   normal form to the real annotation parser (a mismatch is a divergence of the model, not a violation).

   Size limits of the renderer (RenderLevel::max_union_items / max_items, one level per nesting step:
   Documentation -> Simple -> Normal -> Brief -> Minimal) are transcribed in Fits; TLC checks that every
   enumerated term fits (FitsOk), i.e. none of them may legitimately be truncated.  *)
EXTENDS TypeAlgebra, Json

CONSTANTS AtomNames, SibNames, KeyNames, RecShapes1, RecShapes2,
          Depth2Kinds,   \* kinds of depth-1 terms nested once more
          Depth3Kinds,   \* kinds of depth-2 terms nested once more
          Depth3Cons,    \* constructors applied at depth 3
          LitNames,      \* the literal alphabet: literals that get every constructor applied once ...
          LitDepth2Kinds \* ... and whose depth-1 terms of these kinds are nested once more

VARIABLE c

Atom(n) == IF n \in {"nil", "boolean", "integer", "number", "string", "table", "any"} THEN Prim(n)
           ELSE IF n \in LitIds THEN LitById(n)
           ELSE Ref(n)
A0 == {Atom(n) : n \in AtomNames}
R0 == {Atom(n) : n \in SibNames}
K0 == {Atom(n) : n \in KeyNames}

Plain(t) == Kind(t) \notin {"union", "opt"}
NoDup(s) == \A i, j \in 1..Len(s) : i # j => s[i] # s[j]

Cons(S, R, kinds) ==
  (IF "union" \in kinds THEN
     {u \in {Un(<<a, b>>) : a \in {x \in S : Plain(x)}, b \in {x \in R : Plain(x)}} : NoDup(Kids(u))} \cup
     {u \in {Un(<<b, a>>) : a \in {x \in S : Plain(x)}, b \in {x \in R : Plain(x)}} : NoDup(Kids(u))}
   ELSE {}) \cup
  (IF "union3" \in kinds THEN
     {u \in {Un(<<a, b, d>>) : a \in {x \in S : Plain(x)}, b \in {x \in R : Plain(x)}, d \in {x \in R : Plain(x)}} : NoDup(Kids(u))}
   ELSE {}) \cup
  (IF "opt" \in kinds THEN {Opt(a) : a \in {x \in S : ~HasNil(x)}} ELSE {}) \cup
  (IF "arr" \in kinds THEN {Arr(a) : a \in S} ELSE {}) \cup
  (IF "map" \in kinds THEN {Map(k, a) : k \in K0, a \in S} ELSE {}) \cup
  (IF "rec" \in kinds THEN {Rec(s, <<a>>) : s \in RecShapes1, a \in S} \cup
                           {Rec(s, <<a, b>>) : s \in RecShapes2, a \in S, b \in R}
   ELSE {})

AllKinds == {"union", "union3", "opt", "arr", "map", "rec"}
D1 == Cons(A0, R0, AllKinds)
D2 == Cons({x \in D1 : Kind(x) \in Depth2Kinds}, R0, AllKinds)
D3 == Cons({x \in D2 : Kind(x) \in Depth3Kinds}, R0, Depth3Cons)
\* the literal alphabet (string literals with quotes, backslashes, newlines, control characters followed by
\* digits, non-ASCII; zero / negative / large integer literals): bare, under every constructor (union member,
\* optional, array element, map value, record field incl. optional field), and as the element of an array of
\* optionals / the member of a union of two literals
L0 == {Atom(n) : n \in LitNames}
L1 == Cons(L0, R0, AllKinds) \cup
      {u \in {Un(<<a, b>>) : a \in L0, b \in L0} : NoDup(Kids(u))} \cup
      {Arr(Opt(a)) : a \in L0} \cup {Map(k, Opt(a)) : k \in K0, a \in L0}
L2 == Cons({x \in L1 : Kind(x) \in LitDepth2Kinds /\ Len(Kids(x)) <= 2}, R0, AllKinds \ {"union3"})
Types == A0 \cup D1 \cup D2 \cup D3 \cup L0 \cup L1 \cup L2

Init == c \in Types
Next == UNCHANGED c
Spec == Init /\ [][Next]_c

\* ---- renderer size limits by nesting depth (0 = the rendered type itself)
UnionLimit(d) == CASE d = 0 -> 500 [] d = 1 -> 6 [] d = 2 -> 4 [] OTHER -> 2
ItemLimit(d) == CASE d = 0 -> 500 [] d = 1 -> 8 [] d = 2 -> 4 [] OTHER -> 2
RECURSIVE Fits(_, _)
Fits(t, d) ==
  /\ \A i \in 1..Len(Kids(t)) : Fits(Kids(t)[i], IF Kind(t) = "opt" /\ Kind(Kids(t)[1]) = "union" THEN d ELSE d + 1)
  /\ Kind(t) = "union" => Cardinality({i \in 1..Len(Kids(t)) : Kids(t)[i] # TNil}) <= UnionLimit(d)
  /\ Kind(t) = "rec" => Len(Kids(t)) <= ItemLimit(d) /\ d <= 3      \* at Minimal a record prints as {...}
  /\ Kind(t) = "map" => d <= 3                                      \* at Minimal a map prints as table<...>
FitsOk == Fits(c, 0)

RECURSIVE DepthOf(_), MaxSeq(_)
MaxSeq(s) == IF s = <<>> THEN 0 ELSE LET m == MaxSeq(Tail(s)) IN IF Head(s) > m THEN Head(s) ELSE m
DepthOf(t) == IF Kids(t) = <<>> THEN 0 ELSE 1 + MaxSeq([i \in 1..Len(Kids(t)) |-> DepthOf(Kids(t)[i])])
DepthOk == DepthOf(c) <= 3

\* a top-level reference to a type with members (the enum) is shown expanded at full detail, which is
\* display-only syntax: outside the property's domain (flag for the driver)
DisplayOnlyTop(t) == t = Ref("E")

\* grouping / escaping features of a term (mechanism keys of findings)
RECURSIVE Feat(_)
Feat(t) == (IF Kind(t) = "arr" /\ HasNil(Kids(t)[1]) THEN {"array-of-nullable"} ELSE {}) \cup
           (IF Kind(t) = "arr" /\ Level(Kids(t)[1]) = 3 THEN {"array-of-negative-literal"} ELSE {}) \cup
           (IF Kind(t) = "arr" /\ Kind(Kids(t)[1]) = "union" /\ ~HasNil(Kids(t)[1]) THEN {"array-of-union"} ELSE {}) \cup
           (IF Kind(t) = "lit" THEN LitFeat(Name(t)) ELSE {}) \cup
           (IF Kind(t) = "rec" /\ Name(t) \in {"['a b']", "['1']", "[dq]", "['']", "x,['a b']"}
            THEN {"record-key-not-a-name"} ELSE {}) \cup
           UNION {Feat(Kids(t)[i]) : i \in 1..Len(Kids(t))}
SetSeq(S) == CHOOSE f \in [1..Cardinality(S) -> S] : \A i, j \in 1..Cardinality(S) : i # j => f[i] # f[j]

Emit == PrintT(<<"CASE", ToJson([s |-> Syn(c), norm |-> Norm(c), skel |-> Skel(c), depth |-> DepthOf(c),
                                 feat |-> SetSeq(Feat(c)), judged |-> ~DisplayOnlyTop(c)])>>)
ASSUME PrintT(<<"WORLD", ToJson([classes |-> [A |-> <<"B">>, B |-> <<>>],
                                 alias |-> [Al |-> "integer|string"],
                                 aliasnorm |-> [Al |-> Norm(Un(<<Prim("integer"), Prim("string")>>))],
                                 enum |-> [E |-> <<"x", "y">>]])>>)
===============================================================================
