\* thorough: every program of <= 3 generated items over two names with closures (3.4e6): Agree is checked
\* by TLC on all of them, every 16th (structural hash) is printed and replayed
SPECIFICATION Spec
CONSTANTS
  NameSeq <- NamesAB
  Rich = TRUE
  MaxItems = 3
  MaxDepth = 3
  MinEmit = 3
  EmitMod = 16
  ForNumKind = "ForRange"
  LoaOrder = "reverse"
  CheckAgree = TRUE
INVARIANTS SameSites Agree Emit
