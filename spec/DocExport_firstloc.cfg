SPECIFICATION Spec
CONSTANTS
  AlphaA = {"CF", "EN"}
  AlphaB = {"CB"}
  AlphaC = {"AL"}
  AlphaL = {"LC", "CF", "EN", "AL"}
  SortsBeforeExport = TRUE
  TwoRuns = FALSE
INVARIANTS FirstLocIsReference
