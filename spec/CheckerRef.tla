----------------------------- MODULE CheckerRef -----------------------------
(* Reference (declarative) semantics of emmylua_check's severity filter, exit status and
   per-file report content (C36).  Pure operators only; shared by
     - Checker.tla      : the operational model of run_check/output_result (tasks, bounded channel,
                          consumer loop) whose every interleaving must end in exactly this result;
     - CheckerCases.tla : the generator of black-box cases for the real binary.

   Severities are the LSP numbers 1 = error, 2 = warning, 3 = information, 4 = hint.
   A filter is 0 (no --severity given) or the number of the weakest severity still reported
   (--severity error|warn|info|hint = 1..4): DiagnosticSeverityFilter::allows is `sev <= filter`. *)
EXTENDS Naturals, Sequences, FiniteSets

Sevs == 1..4
FilterVals == 0..4

Allows(flt, sev) == flt = 0 \/ sev <= flt

\* a diagnostic that makes the run fail
IsFailing(sev, wae) == sev = 1 \/ (wae /\ sev = 2)

\* severity sequences ------------------------------------------------------------------------
KeepSevs(l, flt) == SelectSeq(l, LAMBDA s : Allows(flt, s))

CountSev(l, s) == Cardinality({i \in DOMAIN l : l[i] = s})

\* expected exit status of a run whose files produced the severity lists in the set of
\* sequences `lists` (files with result None contribute nothing)
ExitOfLists(lists, flt, wae) ==
  IF \E l \in lists : \E i \in DOMAIN l : Allows(flt, l[i]) /\ IsFailing(l[i], wae) THEN 1 ELSE 0
=============================================================================
