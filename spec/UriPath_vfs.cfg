SPECIFICATION Spec
CONSTANTS
  Mode = "vfs"
  Tokens = {"a", "sp", "pc", "hash", "qm", "e2", "plus", "lit"}
  MaxComp = 1
  MaxCompLen = 1
  MaxTot = 1
  Depth = 6
INVARIANTS Identity Fresh EmitHist
