\* C14 design check + cases: every program of <= 2 generated items over {a,b}; RenameIso / RenameTight on all
SPECIFICATION Spec
CONSTANTS
  NameSeq <- NamesAB
  Rich = TRUE
  MaxItems = 2
  MaxDepth = 2
  MinEmit = 1
  EmitMod = 1
  ForNumKind = "ForRange"
  LoaOrder = "reverse"
  CheckAgree = TRUE
INVARIANTS SameSites Agree RenameIso RenameTight Emit
